(* Model of the episode bookkeeping of primaite/session/environment.py (PrimaiteGymEnv.step / reset) and game.py
   (advance_timestep, calculate_truncated, per-agent history): what a step and a reset do to the tick counter, the per-agent
   history lengths, the accumulated reward of the learning agent and the episode number.  Rewards are exact rationals scaled
   by the harness (integers here).  Executable; no proofs here. *)
From Coq Require Import ZArith List Bool.
Import ListNotations.
From PV Require Import Base.Cases.
Open Scope Z_scope.

Record env := { e_tick : Z; e_max : Z; e_hist : list Z; e_total : Z; e_episode : Z }.
Inductive eop := Step (reward : Z) | Reset.

(* step: store action, pre_timestep, apply_agent_actions (one history item per agent), advance_timestep (tick + 1),
   update_agents (reward added to the total); truncated = calculate_truncated() *)
Definition step (e : env) (r : Z) : env :=
  {| e_tick := e_tick e + 1; e_max := e_max e; e_hist := map (fun h => h + 1) (e_hist e); e_total := e_total e + r; e_episode := e_episode e |}.
Definition truncated (e : env) : bool := e_max e <=? e_tick e.
(* reset: a new game is built from the episode's scenario *)
Definition reset (e : env) : env :=
  {| e_tick := 0; e_max := e_max e; e_hist := map (fun _ => 0) (e_hist e); e_total := 0; e_episode := e_episode e + 1 |}.
Definition app_op (e : env) (o : eop) : env := match o with Step r => step e r | Reset => reset e end.
Definition run (e : env) (ops : list eop) : env := fold_left app_op ops e.
Definition fresh (mx nagents : Z) : env := {| e_tick := 0; e_max := mx; e_hist := repeat 0 (Z.to_nat nagents); e_total := 0; e_episode := 0 |}.

Definition observe (e : env) : list Z := [e_tick e; b2z (truncated e); e_total e; e_episode e] ++ e_hist e.
Fixpoint trace (e : env) (ops : list eop) : list Z :=
  match ops with [] => [] | o :: t => let e' := app_op e o in observe e' ++ trace e' t end.
Definition run_case (c : Z * Z * list eop) : list Z := let '(mx, n, ops) := c in trace (fresh mx n) ops.
