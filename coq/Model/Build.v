(* Model of scenario loading (PrimaiteGame.from_config, Node / Router / Firewall .from_config) as a function from the parsed
   scenario -- a tree of scalars, lists and mappings -- to the inventory the built simulation must contain, one row per item:
     [1; host; type; on; ip; mask; gateway]            node (addresses only for host types)
     [2; host; port; ip; mask]                         router / firewall port
     [3; host; list; position; action; protocol; src; src wildcard; dst; dst wildcard; src port; dst port]   ACL rule
     [4; host; index; address; mask; next hop; metric] route (table order)      [5; host; next hop]  default route
     [6; host; kind; type]                             declared service (1) / application (2) that is not system software
     [7; host; user; is admin]                         user account          [8; host; folder; file]   file
     [9; a; a port; b; b port; bandwidth]              link                  [10; ref; type; team]     agent
     [11; host; software type; option key; value]      behavioural option of a declared service / application
   Strings are interned by the harness (fixed ids for mapping keys, node types and enumerations: Model/BuildKeys.v); port and
   protocol names are translated to numbers there.  Mappings are consulted by key or iterated as a set of entries; lists
   keep their order.  Executable; no proofs here. *)
From Coq Require Import ZArith List Bool.
Import ListNotations.
From PV Require Import Base.Cases Model.BuildKeys.
Open Scope Z_scope.

Inductive cfg := CNone | CInt (z : Z) | CList (l : list cfg) | CMap (m : list (Z * cfg)).

Fixpoint assoc (k : Z) (m : list (Z * cfg)) : option cfg :=
  match m with [] => None | (k', v) :: t => if k =? k' then Some v else assoc k t end.
Definition get (k : Z) (c : cfg) : option cfg := match c with CMap m => assoc k m | _ => None end.
Definition sub (k : Z) (c : cfg) : cfg := match get k c with Some x => x | None => CNone end.
Definition scalar (k : Z) (dflt : Z) (c : cfg) : Z := match get k c with Some (CInt z) => z | _ => dflt end.
Definition has (k : Z) (c : cfg) : bool := match get k c with Some CNone => false | Some _ => true | None => false end.
Definition items (c : cfg) : list cfg := match c with CList l => l | _ => [] end.
Definition ents (c : cfg) : list (Z * cfg) := match c with CMap m => m | _ => [] end.

Definition MASK24 : Z := 4294967040.
Definition is_host_type (t : Z) : bool := (t =? T_computer) || (t =? T_server) || (t =? T_printer).

Definition acl_row (host lst : Z) (e : Z * cfg) : list Z :=
  let r := snd e in
  [3; host; lst; fst e; scalar K_action (-1) r; scalar K_protocol (-1) r; scalar K_src_ip (-1) r; scalar K_src_wildcard_mask (-1) r;
   scalar K_dst_ip (-1) r; scalar K_dst_wildcard_mask (-1) r; scalar K_src_port (-1) r; scalar K_dst_port (-1) r].
Definition acl_rows (host lst : Z) (c : cfg) : list (list Z) := map (acl_row host lst) (ents c).
(* a router starts with PERMIT ARP at 22 and PERMIT ICMP at 23 unless the scenario puts its own rule there *)
Definition router_default_rows (host : Z) (acl : cfg) : list (list Z) :=
  (if has 22 acl then [] else [[3; host; 0; 22; E_PERMIT; -1; -1; -1; -1; -1; 219; 219]]) ++
  (if has 23 acl then [] else [[3; host; 0; 23; E_PERMIT; 3; -1; -1; -1; -1; -1; -1]]).
Definition port_row (host : Z) (e : Z * cfg) : list Z := [2; host; fst e; scalar K_ip_address (-1) (snd e); scalar K_subnet_mask MASK24 (snd e)].

Fixpoint route_rows (host : Z) (i : Z) (l : list cfg) : list (list Z) :=
  match l with
  | [] => []
  | r :: t => [4; host; i; scalar K_address (-1) r; scalar K_subnet_mask MASK24 r; scalar K_next_hop_ip_address (-1) r; scalar K_metric 0 r] :: route_rows host (i + 1) t
  end.
Definition default_route_rows (host : Z) (n : cfg) : list (list Z) :=
  let h := scalar K_next_hop_ip_address (-1) (sub K_default_route n) in if h =? -1 then [] else [[5; host; h]].

Definition option_rows (host ty : Z) (opts : cfg) : list (list Z) :=
  flat_map (fun k => match get k opts with Some (CInt z) => [[11; host; ty; k; z]] | _ => [] end) option_keys.
Definition software_rows (host kind : Z) (l : list cfg) : list (list Z) :=
  flat_map (fun s => let ty := scalar K_type (-1) s in
                     (if is_system ty then [] else [[6; host; kind; ty]]) ++ option_rows host ty (sub K_options s)) l.
Definition user_rows (host : Z) (l : list cfg) : list (list Z) :=
  map (fun u => [7; host; scalar K_username (-1) u; scalar K_is_admin 0 u]) l.
Definition file_rows (host : Z) (l : list cfg) : list (list Z) :=
  flat_map (fun fo => map (fun fi => [8; host; scalar K_folder_name (-1) fo; scalar K_file_name (-1) fi]) (items (sub K_files fo))) l.

Definition fw_port (k : Z) : Z := if k =? K_external_port then 1 else if k =? K_internal_port then 2 else if k =? K_dmz_port then 3 else 0.
Definition fw_list (k : Z) : Z :=
  if k =? K_external_inbound_acl then 1 else if k =? K_external_outbound_acl then 2 else if k =? K_internal_inbound_acl then 3
  else if k =? K_internal_outbound_acl then 4 else if k =? K_dmz_inbound_acl then 5 else if k =? K_dmz_outbound_acl then 6 else 0.

Definition node_rows (n : cfg) : list (list Z) :=
  let host := scalar K_hostname (-1) n in
  let ty := scalar K_type (-1) n in
  let on := if scalar K_operating_state E_ON n =? E_OFF then 0 else 1 in
  let base := if is_host_type ty
              then [1; host; ty; on; scalar K_ip_address (-1) n; scalar K_subnet_mask MASK24 n; scalar K_default_gateway 0 n]
              else [1; host; ty; on; 0; 0; 0] in
  let l3 :=
    if (ty =? T_router) || (ty =? T_wireless_router) then
      map (port_row host) (ents (sub K_ports n)) ++ acl_rows host 0 (sub K_acl n) ++ router_default_rows host (sub K_acl n)
    else if ty =? T_firewall then
      flat_map (fun e => if fw_port (fst e) =? 0 then [] else [[2; host; fw_port (fst e); scalar K_ip_address (-1) (snd e); scalar K_subnet_mask MASK24 (snd e)]]) (ents (sub K_ports n)) ++
      flat_map (fun e => if fw_list (fst e) =? 0 then [] else acl_rows host (fw_list (fst e)) (snd e)) (ents (sub K_acl n))
    else [] in
  let routes := if (ty =? T_router) || (ty =? T_firewall) || (ty =? T_wireless_router)
                then route_rows host 0 (items (sub K_routes n)) ++ default_route_rows host n else [] in
  base :: l3 ++ routes ++ software_rows host 1 (items (sub K_services n)) ++ software_rows host 2 (items (sub K_applications n))
       ++ user_rows host (items (sub K_users n)) ++ file_rows host (items (sub K_folders n)).

Definition link_row (l : cfg) : list Z :=
  [9; scalar K_endpoint_a_hostname (-1) l; scalar K_endpoint_a_port (-1) l; scalar K_endpoint_b_hostname (-1) l; scalar K_endpoint_b_port (-1) l; scalar K_bandwidth 100000 l].   (* bandwidth in thousandths of Mbit/s; default 100 *)
Definition agent_row (a : cfg) : list Z := [10; scalar K_ref (-1) a; scalar K_type (-1) a; scalar K_team (-1) a].

Definition build (c : cfg) : list (list Z) :=
  let net := sub K_network (sub K_simulation c) in
  flat_map node_rows (items (sub K_nodes net)) ++ map link_row (items (sub K_links net)) ++ map agent_row (items (sub K_agents c)).

(* ---- canonical order for comparison (rows as a multiset) ------------------------------------------------------------- *)
Fixpoint lexle (a b : list Z) : bool :=
  match a, b with
  | [], _ => true
  | _ :: _, [] => false
  | x :: a', y :: b' => if x <? y then true else if y <? x then false else lexle a' b'
  end.
Fixpoint insert (r : list Z) (l : list (list Z)) : list (list Z) :=
  match l with [] => [r] | h :: t => if lexle r h then r :: l else h :: insert r t end.
Definition sort_rows (l : list (list Z)) : list (list Z) := fold_right insert [] l.
Definition flatten (l : list (list Z)) : list Z := flat_map (fun r => Z.of_nat (length r) :: r) l.
Definition run_case (c : cfg) : list Z := flatten (sort_rows (build c)).

(* ---- key-order canonical form: every mapping sorted by key -------------------------------------------------------------- *)
Fixpoint ins (e : Z * cfg) (l : list (Z * cfg)) : list (Z * cfg) :=
  match l with [] => [e] | h :: t => if fst e <=? fst h then e :: l else h :: ins e t end.
Definition sort_ents (l : list (Z * cfg)) : list (Z * cfg) := fold_right ins [] l.
Fixpoint canon (c : cfg) : cfg :=
  match c with
  | CList l => CList (map canon l)
  | CMap m => CMap (sort_ents ((fix go (m : list (Z * cfg)) : list (Z * cfg) := match m with [] => [] | (k, v) :: t => (k, canon v) :: go t end) m))
  | x => x
  end.
Fixpoint nodupb (l : list Z) : bool := match l with [] => true | x :: t => negb (existsb (Z.eqb x) t) && nodupb t end.
(* well-formed: no mapping has a repeated key (a parsed YAML mapping never has) *)
Fixpoint wfb (c : cfg) : bool :=
  match c with
  | CList l => forallb wfb l
  | CMap m => nodupb (map fst m) && (fix go (m : list (Z * cfg)) : bool := match m with [] => true | (k, v) :: t => wfb v && go t end) m
  | _ => true
  end.
