(* Kernels whose ORDER reaches behaviour (C03): nmap's target enumeration keeps the first occurrence of every address in input
   order (`list(dict.fromkeys(...))` in NMAP._explode_ip_address_network_array), so the order of the frames a scan emits is a
   function of the request alone -- not of the iteration order of a set.  Networks are given by the harness as their host
   ranges (first, last).  Executable; no proofs here. *)
From Coq Require Import ZArith List Bool.
Import ListNotations.
From PV Require Import Base.Cases.
Open Scope Z_scope.

Definition mem (x : Z) (l : list Z) : bool := existsb (Z.eqb x) l.
(* dict.fromkeys: first occurrences, in order *)
Fixpoint dedupe_acc (seen : list Z) (l : list Z) : list Z :=
  match l with [] => [] | x :: t => if mem x seen then dedupe_acc seen t else x :: dedupe_acc (x :: seen) t end.
Definition dedupe (l : list Z) : list Z := dedupe_acc [] l.

Inductive target := Addr (a : Z) | Net (first : Z) (count : nat).
Fixpoint range (a : Z) (n : nat) : list Z := match n with O => [] | S k => a :: range (a + 1) k end.
Definition explode (ts : list target) : list Z :=
  dedupe (flat_map (fun t => match t with Addr a => [a] | Net f n => range f n end) ts).
Definition run_case (ts : list target) : list Z := explode ts.
