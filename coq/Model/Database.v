(* Model of the server side of primaite/simulator/system/services/database/database_service.py (receive, _process_connect,
   _process_sql, backup_database, restore_backup, _update_fix_status) on top of the service lifecycle of Model/Software.v,
   with IOSoftware.add_connection / terminate_connection (software.py) and the backup copy held by an FTP server.
   Connection ids are ordinals in order of issue (the implementation draws uuid4s).  Executable; no proofs here. *)
From Coq Require Import ZArith List Bool.
Import ListNotations.
From PV Require Import Base.Cases Model.Software.
Open Scope Z_scope.

(* file health: 0 = no live file, 1 GOOD, 2 COMPROMISED, 3 CORRUPT (4 RESTORING, 5 REPAIRING never arise here) *)
Record db := { d_st : bool * svc;            (* node power flag, service lifecycle + health *)
               d_pw : option Z; d_conns : list Z; d_next : Z; d_max : Z;
               d_file : Z; d_ever : bool;     (* health of database.db; whether the file ever existed (live or deleted) *)
               d_cfg : bool; d_bk_up : bool; d_backup : Z   (* backup server configured / reachable and serving / copy held (0 none) *) }.

Definition set_st (d : db) (st : bool * svc) : db :=
  {| d_st := st; d_pw := d_pw d; d_conns := d_conns d; d_next := d_next d; d_max := d_max d; d_file := d_file d; d_ever := d_ever d;
     d_cfg := d_cfg d; d_bk_up := d_bk_up d; d_backup := d_backup d |}.
Definition set_health (d : db) (h : health) : db := set_st d (fst (d_st d), set_sh (snd (d_st d)) (set_ha (sh (snd (d_st d))) h)).
Definition set_conns (d : db) (c : list Z) (n : Z) : db :=
  {| d_st := d_st d; d_pw := d_pw d; d_conns := c; d_next := n; d_max := d_max d; d_file := d_file d; d_ever := d_ever d;
     d_cfg := d_cfg d; d_bk_up := d_bk_up d; d_backup := d_backup d |}.
Definition set_file (d : db) (f : Z) : db :=
  {| d_st := d_st d; d_pw := d_pw d; d_conns := d_conns d; d_next := d_next d; d_max := d_max d; d_file := f; d_ever := d_ever d || negb (f =? 0);
     d_cfg := d_cfg d; d_bk_up := d_bk_up d; d_backup := d_backup d |}.
Definition set_backup (d : db) (b : Z) : db :=
  {| d_st := d_st d; d_pw := d_pw d; d_conns := d_conns d; d_next := d_next d; d_max := d_max d; d_file := d_file d; d_ever := d_ever d;
     d_cfg := d_cfg d; d_bk_up := d_bk_up d; d_backup := b |}.
Definition set_bk_up (d : db) (u : bool) : db :=
  {| d_st := d_st d; d_pw := d_pw d; d_conns := d_conns d; d_next := d_next d; d_max := d_max d; d_file := d_file d; d_ever := d_ever d;
     d_cfg := d_cfg d; d_bk_up := u; d_backup := d_backup d |}.

Definition node_on (d : db) : bool := fst (d_st d).
Definition running (d : db) : bool := sstate_eqb (so (snd (d_st d))) S_RUNNING.
Definition hlth (d : db) : health := ha (sh (snd (d_st d))).
(* Service._can_perform_action *)
Definition can_act (d : db) : bool := node_on d && running d.
Definition mem (x : Z) (l : list Z) : bool := existsb (Z.eqb x) l.
Definition opt_eq (a b : option Z) : bool := match a, b with Some x, Some y => x =? y | None, None => true | _, _ => false end.

(* _process_connect (the service already being able to act): status code and new state *)
Definition process_connect (d : db) (pw : option Z) : db * Z :=
  if health_eqb (hlth d) GOOD || health_eqb (hlth d) FIXING || health_eqb (hlth d) COMPROMISED then
    if opt_eq (d_pw d) pw then
      if Z.of_nat (length (d_conns d)) <? d_max d then (set_conns d (d_conns d ++ [d_next d]) (d_next d + 1), 200)
      else (set_health d OVERWHELMED, 500)                      (* add_connection: at capacity *)
    else (d, 401)
  else (d, 503).

Inductive sql := SELECT | INSERT | DELETE | ENCRYPT | PGSTAT | UNKNOWN.
Definition process_sql (d : db) (q : sql) : db * Z :=
  if d_file d =? 0 then (d, 404)
  else if negb (health_eqb (hlth d) GOOD) then (d, 500)
  else match q with
       | SELECT => if d_file d =? 3 then (d, 200) else if d_file d =? 1 then (d, 200) else (d, 404)
       | DELETE => (set_file d 2, 200)
       | ENCRYPT => (set_file d 3, 200)
       | INSERT | PGSTAT => (d, 200)
       | UNKNOWN => (d, 500)
       end.

(* backup_database / restore_backup: answer (1 true, 0 false) and new state *)
(* a second STOR of the same name is refused by the FTP server's file system (the copy already exists), so only the first
   backup succeeds *)
Definition backup (d : db) : db * Z :=
  if can_act d && d_cfg d && negb (d_file d =? 0) && d_bk_up d && (d_backup d =? 0) then (set_backup d (d_file d), 1) else (d, 0).
Definition restore (d : db) : db * Z :=
  if can_act d && d_cfg d && d_bk_up d && negb (d_backup d =? 0) && d_ever d
  then (set_health (set_file d (d_backup d)) GOOD, 1) else (d, 0).

Inductive dop :=
| Connect (pw : option Z)          (* a connect request that reaches the server *)
| Query (cid : Z) (q : sql)        (* an sql request that reaches the server *)
| Disconnect (cid : Z) (own : bool)  (* a disconnect request; own = sent from the address the connection was opened from *)
| Backup | Restore
| FileDelete                       (* database.db deleted on the server's file system *)
| BkUp (u : bool)                  (* the backup server (node, FTP service, path) becomes reachable / unreachable *)
| Sw (o : Software.op).            (* lifecycle request / tick / node power event *)

(* -1: no answer (the service cannot act) *)
Definition dstep (d : db) (o : dop) : db * Z :=
  match o with
  | Connect pw => if can_act d then process_connect d pw else (d, -1)
  | Query cid q => if can_act d then (if mem cid (d_conns d) then process_sql d q else (d, 401)) else (d, -1)
  | Disconnect cid own => if can_act d then
                            (if mem cid (d_conns d) && own then (set_conns d (filter (fun c => negb (c =? cid)) (d_conns d)) (d_next d), 500) else (d, 500))
                          else (d, -1)
  | Backup => backup d
  | Restore => restore d
  | FileDelete => (set_file d 0, 1)
  | BkUp u => (set_bk_up d u, 1)
  | Sw o => let fixing := health_eqb (hlth d) FIXING in
            let '(st, r) := svc_step (d_st d) o in
            let d1 := set_st d st in
            (* _update_fix_status: when the fix completes in this tick, restore the backup *)
            if fixing && negb (health_eqb (hlth d1) FIXING) && match o with Tick => true | _ => false end
            then (fst (restore d1), r) else (d1, r)
  end.

Fixpoint drun (d : db) (ops : list dop) : db :=
  match ops with [] => d | o :: t => drun (fst (dstep d o)) t end.

(* ---- driver --------------------------------------------------------------------------------------------------------- *)
Definition observe (d : db) : list Z :=
  [b2z (node_on d); sstate_to_Z (so (snd (d_st d))); health_to_Z (hlth d); Z.of_nat (length (d_conns d)); d_file d; d_backup d].
Fixpoint dtrace (d : db) (ops : list dop) : list Z :=
  match ops with
  | [] => d_conns d
  | o :: t => let '(d', r) := dstep d o in r :: observe d' ++ dtrace d' t
  end.
Definition sql_of_Z (z : Z) : sql := match z with 1 => SELECT | 2 => INSERT | 3 => DELETE | 4 => ENCRYPT | 5 => PGSTAT | _ => UNKNOWN end.
Definition mkdb (on so_ ha_ rd fd : Z) (pw : option Z) (mx file cfg : Z) : db :=
  {| d_st := (on =? 1, {| so := sstate_of_Z so_; rcd := -1; rdur := rd; sh := mk_h ha_ ha_ fd |});
     d_pw := pw; d_conns := []; d_next := 0; d_max := mx; d_file := file; d_ever := negb (file =? 0); d_cfg := cfg =? 1; d_bk_up := true; d_backup := 0 |}.
Definition run_case (c : db * list dop) : list Z := dtrace (fst c) (snd c).
