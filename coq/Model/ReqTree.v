(* Model of primaite/simulator/core.py: RequestManager.__call__ (dispatch) and RequestManager.check_valid,
   over an arbitrary tree of managers whose edges carry a validator, with arbitrary handlers at the leaves. *)
From Coq Require Import ZArith List Bool.
Import ListNotations.
From PV Require Import Base.Cases.

Inductive status := Success | Failure | Unreachable | Pending.
Definition status_to_Z (s : status) : Z := match s with Success => 1 | Failure => 2 | Unreachable => 3 | Pending => 0 end.

Section Requests.
  Variables (St Key : Type).
  Variable key_eqb : Key -> Key -> bool.

  Definition handler   := list Key -> St -> St * status.
  Definition validator := list Key -> St -> bool.

  (* request_types : Dict[str, RequestType]; RequestType = (func, validator); func is a handler or another manager *)
  Inductive rtree := Leaf (h : handler) | Mgr (kids : list (Key * (validator * rtree))).

  (* RequestManager.__call__ *)
  Fixpoint dispatch (t : rtree) (r : list Key) (s : St) {struct t} : St * status :=
    match t with
    | Leaf h => h r s
    | Mgr kids =>
        match r with
        | [] => (s, Unreachable)                       (* `if len(request) == 0: return unreachable` *)
        | k :: opts =>
            (fix find (l : list (Key * (validator * rtree))) : St * status :=
               match l with
               | [] => (s, Unreachable)                (* `if request_key not in self.request_types` *)
               | (k', (v, sub)) :: tl =>
                   if key_eqb k k'
                   then (if v opts s then dispatch sub opts s else (s, Failure))
                   else find tl
               end) kids
        end
    end.

  (* RequestManager.check_valid: every validator along the path, True at a leaf *)
  Fixpoint check_valid (t : rtree) (r : list Key) (s : St) {struct t} : bool :=
    match t with
    | Leaf _ => true
    | Mgr kids =>
        match r with
        | [] => false
        | k :: opts =>
            (fix find (l : list (Key * (validator * rtree))) : bool :=
               match l with
               | [] => false
               | (k', (v, sub)) :: tl =>
                   if key_eqb k k' then (v opts s && check_valid sub opts s) else find tl
               end) kids
        end
    end.
End Requests.

Arguments Leaf {St Key} h.
Arguments Mgr {St Key} kids.
Arguments dispatch {St Key} key_eqb t r s.
Arguments check_valid {St Key} key_eqb t r s.

(* ---- executable instance for the correspondence check --------------------------------------------------
   keys are integers assigned by the harness; the state is the log of invoked handler ids; a dumped
   validator is the truth value the live validator returned for this request in this state. *)
Open Scope Z_scope.
Definition LSt := list Z.
Inductive dtree := DLeaf (hid : Z) (ret : Z) | DMgr (kids : list (Z * (bool * dtree))).

Fixpoint to_rtree (d : dtree) : rtree LSt Z :=
  match d with
  | DLeaf hid ret => Leaf (fun _ s => (hid :: s, match ret with 1 => Success | 2 => Failure | 3 => Unreachable | _ => Pending end))
  | DMgr kids => Mgr (map (fun e => (fst e, ((fun _ _ => fst (snd e)) : validator LSt Z, to_rtree (snd (snd e))))) kids)
  end.

(* output: status code; number of handlers invoked; id of invoked handler or -1; check_valid *)
Definition run_case (c : dtree * list Z) : list Z :=
  let '(d, r) := c in
  let t := to_rtree d in
  let '(log, st) := dispatch Z.eqb t r [] in
  [status_to_Z st; Z.of_nat (length log); hd (-1) log; b2z (check_valid Z.eqb t r [])].
