(* Model of the per-tick load accounting of primaite/simulator/network/hardware/base.py: Link.can_transmit_frame,
   Link.transmit_frame, Link.pre_timestep (and AirSpace.can_transmit_frame / transmit, which is the case ok = true).
   A transmission attempt is a call tree: while the receiver handles a frame it may send further frames over the same link. *)
From Coq Require Import ZArith List Bool.
Import ListNotations.
Open Scope Z_scope.

(* chk: frame size when the sender asks can_transmit_frame; add: size when transmit_frame accounts it;
   up: both end interfaces enabled at the admission check; ok: the receiving interface accepted the frame *)
Inductive tx := Tx (chk add : Z) (up ok : bool) (nested : list tx).

(* state: (current_load, data actually carried in this tick) -- the second component is a ghost *)
Fixpoint run (bw : Z) (t : tx) (st : Z * Z) {struct t} : Z * Z :=
  match t with
  | Tx chk add up ok kids =>
      let '(load, carried) := st in
      if up && (load + chk <=? bw)                      (* can_transmit_frame, asked by the sending interface *)
      then
        let st1 := (load + add, carried) in              (* self.current_load += frame_size, before delivery *)
        let '(l2, c2) := fold_left (fun s k => run bw k s) kids st1 in   (* receiver.receive_frame(frame) *)
        if ok then (l2, c2 + add)
        else (Z.max 0 (l2 - add), c2)                     (* not delivered: max(0.0, current_load - frame_size) *)
      else st
  end.

Definition run_tick (bw : Z) (ts : list tx) : Z * Z := fold_left (fun s t => run bw t s) ts (0, 0).   (* pre_timestep: load := 0 *)

(* the accounting as it was before the repair (load added after the receiver returns): kept to show the difference *)
Fixpoint run_post (bw : Z) (t : tx) (st : Z * Z) {struct t} : Z * Z :=
  match t with
  | Tx chk add up ok kids =>
      let '(load, carried) := st in
      if up && (load + chk <=? bw)
      then let '(l2, c2) := fold_left (fun s k => run_post bw k s) kids st in
           if ok then (l2 + add, c2 + add) else (l2, c2)
      else st
  end.

(* driver: loads after each top-level transmission of a tick, then final (load, carried) *)
Fixpoint loads (bw : Z) (ts : list tx) (st : Z * Z) : list Z :=
  match ts with [] => [fst st; snd st] | t :: r => let s' := run bw t st in fst s' :: loads bw r s' end.
Definition run_case (c : Z * list tx) : list Z := loads (fst c) (snd c) (0, 0).
