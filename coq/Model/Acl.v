(* Model of primaite/simulator/network/hardware/nodes/network/router.py:
   ip_matches_masked_range, ACLRule.permit_frame_check, AccessControlList.add_rule / remove_rule / is_permitted.
   Executable; no proofs here (the model must still run when a proof breaks). *)
From Coq Require Import ZArith List Bool.
Import ListNotations.
From PV Require Import Base.Cases.
Open Scope Z_scope.

Inductive action := PERMIT | DENY.
Definition action_to_Z (a : action) : Z := match a with PERMIT => 1 | DENY => 2 end.

Record rule := { r_action : action; r_proto : option Z; r_src : option Z; r_srcw : option Z;
                 r_dst : option Z; r_dstw : option Z; r_sport : option Z; r_dport : option Z; r_count : Z }.
(* a packet: protocol tag, addresses, and the transport ports if it has a TCP/UDP header *)
Record pkt := { p_proto : Z; p_src : Z; p_dst : Z; p_sport : option Z; p_dport : option Z }.

Definition ip_matches_masked_range (ip base wc : Z) : bool :=
  Z.eqb (Z.land base (Z.lnot wc)) (Z.land ip (Z.lnot wc)).

Definition opt_eqb (a b : option Z) : bool :=
  match a, b with Some x, Some y => Z.eqb x y | None, None => true | _, _ => false end.

(* `if self.src_ip_address:` / `if self.src_wildcard_mask:` -- an IPv4Address object is always truthy *)
Definition ip_field (ip w : option Z) (x : Z) : bool :=
  match ip with
  | None => true
  | Some b => match w with Some wc => ip_matches_masked_range x b wc | None => Z.eqb x b end
  end.

(* `self.src_port == src_port if self.src_port is not None else True` *)
Definition port_field (rp pp : option Z) : bool :=
  match rp with Some _ => opt_eqb rp pp | None => true end.

Definition matches (r : rule) (p : pkt) : bool :=
  (match r_proto r with Some q => Z.eqb q (p_proto p) | None => true end)
  && ip_field (r_src r) (r_srcw r) (p_src p)
  && ip_field (r_dst r) (r_dstw r) (p_dst p)
  && port_field (r_sport r) (p_sport p)
  && port_field (r_dport r) (p_dport p).

Definition bump (r : rule) : rule :=
  {| r_action := r_action r; r_proto := r_proto r; r_src := r_src r; r_srcw := r_srcw r; r_dst := r_dst r;
     r_dstw := r_dstw r; r_sport := r_sport r; r_dport := r_dport r; r_count := r_count r + 1 |}.

(* `for _rule in self._acl: if not _rule: continue; ...; if rule_match: break` *)
Fixpoint scan (acl : list (option rule)) (p : pkt) : option (nat * rule) :=
  match acl with
  | [] => None
  | None :: t => option_map (fun '(i, r) => (S i, r)) (scan t p)
  | Some r :: t => if matches r p then Some (O, r) else option_map (fun '(i, r) => (S i, r)) (scan t p)
  end.

Definition permitted_b (a : action) := match a with PERMIT => true | DENY => false end.

Record acl_state := { a_rules : list (option rule); a_implicit : rule; a_max : Z }.

Definition set_nth {A} (l : list A) (i : nat) (x : A) : list A := firstn i l ++ x :: skipn (S i) l.

Definition is_permitted (s : acl_state) (p : pkt) : bool * option nat * acl_state :=
  match scan (a_rules s) p with
  | Some (i, r) => (permitted_b (r_action r), Some i,
                    {| a_rules := set_nth (a_rules s) i (Some (bump r)); a_implicit := a_implicit s; a_max := a_max s |})
  | None => (permitted_b (r_action (a_implicit s)), None,
             {| a_rules := a_rules s; a_implicit := bump (a_implicit s); a_max := a_max s |})
  end.

Inductive outcome := Done | ValueError.

(* `if 0 <= position < self.max_acl_rules - 1: self._acl[position] = ACLRule(...) else: raise ValueError` *)
Definition in_bounds (s : acl_state) (pos : Z) : bool := (0 <=? pos) && (pos <? a_max s - 1).

Definition add_rule (s : acl_state) (pos : Z) (r : rule) : outcome * acl_state :=
  if in_bounds s pos
  then (Done, {| a_rules := set_nth (a_rules s) (Z.to_nat pos) (Some r); a_implicit := a_implicit s; a_max := a_max s |})
  else (ValueError, s).

Definition remove_rule (s : acl_state) (pos : Z) : outcome * acl_state :=
  if in_bounds s pos
  then (Done, {| a_rules := set_nth (a_rules s) (Z.to_nat pos) None; a_implicit := a_implicit s; a_max := a_max s |})
  else (ValueError, s).

Definition blank (a : action) : rule :=
  {| r_action := a; r_proto := None; r_src := None; r_srcw := None; r_dst := None; r_dstw := None;
     r_sport := None; r_dport := None; r_count := 0 |}.

Definition acl_init (implicit : action) (max : Z) : acl_state :=
  {| a_rules := repeat None (Z.to_nat (max - 1)); a_implicit := blank implicit; a_max := max |}.

(* ---- driver for the correspondence check ------------------------------------------------------ *)
Inductive op := Add (pos : Z) (r : rule) | Remove (pos : Z) | Check (p : pkt).

Definition step (s : acl_state) (o : op) : acl_state * list Z :=
  match o with
  | Add pos r => let '(oc, s') := add_rule s pos r in (s', [match oc with Done => 1 | ValueError => -2 end])
  | Remove pos => let '(oc, s') := remove_rule s pos in (s', [match oc with Done => 1 | ValueError => -2 end])
  | Check p => let '(b, i, s') := is_permitted s p in
               (s', [b2z b; match i with Some n => Z.of_nat n | None => -1 end])
  end.

Fixpoint run_ops (s : acl_state) (ops : list op) : acl_state * list Z :=
  match ops with
  | [] => (s, [])
  | o :: t => let '(s', out) := step s o in let '(s'', out') := run_ops s' t in (s'', out ++ out')
  end.

Definition counts (s : acl_state) : list Z :=
  map (fun o => match o with Some r => r_count r | None => -1 end) (a_rules s) ++ [r_count (a_implicit s)].

Definition mk (a : Z) (pr s sw d dw sp dp : option Z) : rule :=
  {| r_action := if a =? 1 then PERMIT else DENY; r_proto := pr; r_src := s; r_srcw := sw; r_dst := d;
     r_dstw := dw; r_sport := sp; r_dport := dp; r_count := 0 |}.
Definition mkp (pr s d : Z) (sp dp : option Z) : pkt :=
  {| p_proto := pr; p_src := s; p_dst := d; p_sport := sp; p_dport := dp |}.

Definition run_case (c : Z * Z * list op) : list Z :=
  let '(imp, max, ops) := c in
  let '(s, out) := run_ops (acl_init (if imp =? 1 then PERMIT else DENY) max) ops in
  out ++ counts s.
