(* Device models for the frame path (C06): interface receive rules, host, switch, router and firewall, in the shape the
   generic propagation theory (Proofs/Propagate.v) expects: handle : state -> in-port -> frame -> state * outs * delivered.
   Sources: hardware/base.py (WiredNetworkInterface.send_frame, Node.receive_frame), nodes/host/host_node.py
   (NIC.receive_frame, HostNode.receive_frame), nodes/network/switch.py (SwitchPort.receive_frame, Switch.receive_frame),
   nodes/network/router.py (RouterInterface.receive_frame, Router.receive_frame / process_frame / route_frame),
   nodes/network/firewall.py (Firewall.receive_frame and the six _process_*_frame paths).
   The ARP cache is a table consulted as it stands: the ARP requests a router emits while resolving (router-originated
   frames) are not modelled.  Ports are 0-based here (Python port_num - 1).  Executable; no proofs here. *)
From Coq Require Import ZArith List Bool.
Import ListNotations.
From PV Require Import Base.Cases Model.Acl.
From PV Require Model.Route.
Open Scope Z_scope.

Definition BCAST : Z := 281474976710655.     (* ff:ff:ff:ff:ff:ff *)
Definition ICMP : Z := 3.

(* f_arp: UDP to the ARP port (Frame.is_arp); f_arpp: the payload is an ARP packet *)
Record frame := { f_pkt : pkt; f_arp : bool; f_arpp : bool; f_ttl : Z; f_dmac : Z; f_smac : Z }.
Definition set_ttl (f : frame) (t : Z) : frame :=
  {| f_pkt := f_pkt f; f_arp := f_arp f; f_arpp := f_arpp f; f_ttl := t; f_dmac := f_dmac f; f_smac := f_smac f |}.
Definition set_macs (f : frame) (s d : Z) : frame :=
  {| f_pkt := f_pkt f; f_arp := f_arp f; f_arpp := f_arpp f; f_ttl := f_ttl f; f_dmac := d; f_smac := s |}.

Record nic := { n_ip : Z; n_mask : Z; n_mac : Z; n_up : bool }.
Definition in_net (i : nic) (d : Z) : bool := Z.land d (n_mask i) =? Z.land (n_ip i) (n_mask i).
Definition bcast_ip (i : nic) : Z := Z.lor (Z.land (n_ip i) (n_mask i)) (Z.land (Z.lnot (n_mask i)) 4294967295).

(* `if self.enabled: frame.decrement_ttl(); if ttl < 1: drop` -- common to every interface kind *)
Definition rx_ttl (up : bool) (f : frame) : option frame :=
  if up then (let t := f_ttl f - 1 in if t <? 1 then None else Some (set_ttl f t)) else None.

(* ---- host ------------------------------------------------------------------------------------------------------ *)
Record host := { h_on : bool; h_nics : list nic; h_open : list Z; h_nmap : bool }.
Definition mem (x : Z) (l : list Z) : bool := existsb (Z.eqb x) l.

(* NIC.receive_frame: broadcast only for the interface's own or its subnet-broadcast address, else exact MAC *)
Definition host_nic_accepts (i : nic) (f : frame) : bool :=
  if f_dmac f =? BCAST then (p_dst (f_pkt f) =? n_ip i) || (p_dst (f_pkt f) =? bcast_ip i)
  else f_dmac f =? n_mac i.
(* HostNode.receive_frame: ICMP, an open destination port, (nmap payloads are outside the key and not modelled) *)
Definition host_software_accepts (h : host) (f : frame) : bool :=
  (p_proto (f_pkt f) =? ICMP) || match p_dport (f_pkt f) with Some d => mem d (h_open h) | None => false end.
Definition host_handle (h : host) (p : nat) (f : frame) : host * list (nat * frame) * bool :=
  match nth_error (h_nics h) p with
  | None => (h, [], false)
  | Some i => match rx_ttl (n_up i) f with
              | None => (h, [], false)
              | Some f1 => (h, [], host_nic_accepts i f1 && host_software_accepts h f1)
              end
  end.

(* ---- switch ---------------------------------------------------------------------------------------------------- *)
Record switch := { s_up : list bool; s_table : list (Z * nat) }.
Fixpoint assoc {A} (k : Z) (l : list (Z * A)) : option A :=
  match l with [] => None | (k', v) :: t => if k =? k' then Some v else assoc k t end.
Definition port_up (ups : list bool) (q : nat) : bool := nth q ups false.
Definition learn (t : list (Z * nat)) (m : Z) (p : nat) : list (Z * nat) :=
  match assoc m t with
  | Some q => if Nat.eqb q p then t else (m, p) :: filter (fun e => negb (fst e =? m)) t
  | None => t ++ [(m, p)]
  end.
Definition switch_handle (s : switch) (p : nat) (f : frame) : switch * list (nat * frame) * bool :=
  match rx_ttl (port_up (s_up s) p) f with
  | None => (s, [], false)
  | Some f1 =>
      let s1 := {| s_up := s_up s; s_table := learn (s_table s) (f_smac f1) p |} in
      match assoc (f_dmac f1) (s_table s1) with
      | Some q => if negb (f_dmac f1 =? BCAST) then (s1, if port_up (s_up s) q then [(q, f1)] else [], false)
                  else (s1, map (fun q => (q, f1)) (filter (fun q => port_up (s_up s) q && negb (Nat.eqb q p)) (seq 0 (length (s_up s)))), false)
      | None => (s1, map (fun q => (q, f1)) (filter (fun q => port_up (s_up s) q && negb (Nat.eqb q p)) (seq 0 (length (s_up s)))), false)
      end
  end.

(* ---- router ---------------------------------------------------------------------------------------------------- *)
Record router := { r_on : bool; r_acl : acl_state; r_ifs : list nic; r_open : list Z;
                   r_arp : list (Z * (nat * Z)); r_routes : list Route.route; r_dflt : option Route.route }.
Inductive decision := Ignored | Denied | Local | NoPath | Forwarded (q : nat).

Definition with_acl (r : router) (a : acl_state) : router :=
  {| r_on := r_on r; r_acl := a; r_ifs := r_ifs r; r_open := r_open r; r_arp := r_arp r; r_routes := r_routes r; r_dflt := r_dflt r |}.
Definition with_arp (r : router) (a : list (Z * (nat * Z))) : router :=
  {| r_on := r_on r; r_acl := r_acl r; r_ifs := r_ifs r; r_open := r_open r; r_arp := a; r_routes := r_routes r; r_dflt := r_dflt r |}.

(* RouterInterface.receive_frame: enabled, TTL, then own MAC or broadcast *)
Definition router_nic_rx (i : nic) (f : frame) : option frame :=
  match rx_ttl (n_up i) f with
  | Some f1 => if (f_dmac f1 =? n_mac i) || (f_dmac f1 =? BCAST) then Some f1 else None
  | None => None
  end.
(* add_arp_cache_entry: not for one of the device's own addresses, and never overriding an existing entry *)
Definition arp_learn (r : router) (ip mac : Z) (p : nat) : router :=
  if existsb (fun i => n_ip i =? ip) (r_ifs r) then r
  else match assoc ip (r_arp r) with Some _ => r | None => with_arp r (r_arp r ++ [(ip, (p, mac))]) end.
Definition is_own_ip (r : router) (d : Z) : bool := existsb (fun i => n_ip i =? d) (r_ifs r).
Definition to_session_manager (r : router) (f : frame) : bool :=
  is_own_ip r (p_dst (f_pkt f)) &&
  ((p_proto (f_pkt f) =? ICMP) || match p_dport (f_pkt f) with Some d => mem d (r_open r) | None => false end).
Fixpoint find_if (ifs : list nic) (d : Z) (k : nat) : option nat :=
  match ifs with [] => None | i :: t => if in_net i d then Some k else find_if t d (S k) end.
(* RouterARP._get_arp_cache_network_interface / _get_arp_cache_mac_address without the ARP traffic they emit: the cached
   entry; else (interface only) the interface whose network holds the address; else the same question for the next hop of
   the best route, and as a last resort for the default route's next hop *)
Definition best_nondefault (r : router) (d : Z) : option Route.route :=
  fst (fst (fold_left (Route.step d) (r_routes r) (None, -1, None))).
Definition in_any_subnet (r : router) (d : Z) : bool := existsb (fun i => in_net i d) (r_ifs r).
Definition port_direct (r : router) (ip : Z) : option nat :=
  match assoc ip (r_arp r) with Some (q, _) => Some q | None => find_if (r_ifs r) ip O end.
Definition mac_direct (r : router) (ip : Z) : option Z := option_map snd (assoc ip (r_arp r)).
Definition retry {A} (direct : Z -> option A) (r : router) (ip : Z) (default_attempt : bool) : option A :=
  match direct ip with
  | Some x => Some x
  | None => if default_attempt then None else match r_dflt r with Some dr => direct (Route.r_hop dr) | None => None end
  end.
Definition resolve {A} (direct : Z -> option A) (r : router) (ip : Z) : option A :=
  match direct ip with
  | Some x => Some x
  | None => if in_any_subnet r ip then retry direct r ip false
            else match best_nondefault r ip with
                 | Some rt => retry direct r (Route.r_hop rt) false
                 | None => match r_dflt r with Some dr => retry direct r (Route.r_hop dr) true | None => None end
                 end
  end.
Definition arp_port (r : router) (ip : Z) : option nat := resolve (port_direct r) r ip.
Definition arp_mac (r : router) (ip : Z) : option Z := resolve (mac_direct r) r ip.
Definition if_up (r : router) (q : nat) : bool := match nth_error (r_ifs r) q with Some i => n_up i | None => false end.
Definition if_mac (r : router) (q : nat) : Z := match nth_error (r_ifs r) q with Some i => n_mac i | None => 0 end.
Definition if_in_net (r : router) (q : nat) (d : Z) : bool := match nth_error (r_ifs r) q with Some i => in_net i d | None => false end.

(* subject_to_acl: everything except ARP addressed to the router itself *)
Definition subject_to_acl (r : router) (f : frame) : bool := negb (f_arp f && is_own_ip r (p_dst (f_pkt f))).

Definition emit (r : router) (q : nat) (mac : Z) (f : frame) : list (nat * frame) :=
  let t := f_ttl f - 1 in if t <? 1 then [] else [(q, set_macs (set_ttl f t) (if_mac r q) mac)].
(* route_frame *)
Definition route_frame (r : router) (f : frame) : list (nat * frame) :=
  match Route.find_best (r_routes r) (r_dflt r) (p_dst (f_pkt f)) with
  | Some rt => match arp_port r (Route.r_hop rt), arp_mac r (Route.r_hop rt) with
               | Some q, Some mac => if if_up r q then emit r q mac f else []
               | Some q, None => if if_up r q then emit r q 0 f else []
               | None, _ => []
               end
  | None => []
  end.
(* process_frame *)
Definition process_frame (r : router) (f : frame) : list (nat * frame) :=
  let d := p_dst (f_pkt f) in
  if f_arpp f then []                      (* ARP is link-local: never routed *)
  else if is_own_ip r d then []
  else match arp_mac r d with
       | None => []
       | Some mac => match arp_port r d with
                     | None => []
                     | Some q => if negb (if_up r q) then []
                                 else if if_in_net r q d then emit r q mac f else route_frame r f
                     end
       end.

Definition router_core (r : router) (p : nat) (f1 : frame) : router * list (nat * frame) * bool * decision :=
  if negb (r_on r) then (r, [], false, Ignored)
  else
    let '(perm, a') := if subject_to_acl r f1 then (let '(b, _, a) := is_permitted (r_acl r) (f_pkt f1) in (b, a)) else (true, r_acl r) in
    let r0 := with_acl r a' in
    if negb perm then (r0, [], false, Denied)
    else
      let r1 := arp_learn r0 (p_src (f_pkt f1)) (f_smac f1) p in
      if to_session_manager r1 f1 then (r1, [], true, Local)
      else match process_frame r1 f1 with
           | [] => (r1, [], false, NoPath)
           | (q, f2) :: t => (r1, (q, f2) :: t, false, Forwarded q)
           end.
Definition router_step (r : router) (p : nat) (f : frame) : router * list (nat * frame) * bool * decision :=
  match nth_error (r_ifs r) p with
  | None => (r, [], false, Ignored)
  | Some i => match router_nic_rx i f with
              | None => (r, [], false, Ignored)
              | Some f1 => router_core r p f1
              end
  end.
Definition router_handle (r : router) (p : nat) (f : frame) : router * list (nat * frame) * bool :=
  fst (router_step r p f).

(* ---- firewall: ports 0 = external, 1 = internal, 2 = dmz -------------------------------------------------------- *)
Record firewall := { w_base : router; w_ext_in : acl_state; w_ext_out : acl_state; w_int_in : acl_state;
                     w_int_out : acl_state; w_dmz_in : acl_state; w_dmz_out : acl_state }.
Inductive zlist := ExtIn | ExtOut | IntIn | IntOut | DmzIn | DmzOut.
Definition get_list (w : firewall) (z : zlist) : acl_state :=
  match z with ExtIn => w_ext_in w | ExtOut => w_ext_out w | IntIn => w_int_in w | IntOut => w_int_out w | DmzIn => w_dmz_in w | DmzOut => w_dmz_out w end.
Definition set_list (w : firewall) (z : zlist) (a : acl_state) : firewall :=
  {| w_base := w_base w;
     w_ext_in := match z with ExtIn => a | _ => w_ext_in w end; w_ext_out := match z with ExtOut => a | _ => w_ext_out w end;
     w_int_in := match z with IntIn => a | _ => w_int_in w end; w_int_out := match z with IntOut => a | _ => w_int_out w end;
     w_dmz_in := match z with DmzIn => a | _ => w_dmz_in w end; w_dmz_out := match z with DmzOut => a | _ => w_dmz_out w end |}.
Definition set_base (w : firewall) (b : router) : firewall :=
  {| w_base := b; w_ext_in := w_ext_in w; w_ext_out := w_ext_out w; w_int_in := w_int_in w; w_int_out := w_int_out w;
     w_dmz_in := w_dmz_in w; w_dmz_out := w_dmz_out w |}.
Definition zl_code (z : zlist) : Z := match z with ExtIn => 1 | ExtOut => 2 | IntIn => 3 | IntOut => 4 | DmzIn => 5 | DmzOut => 6 end.

(* the list consulted first, by arrival port *)
Definition first_list (p : nat) : option zlist :=
  match p with O => Some ExtIn | S O => Some IntOut | S (S O) => Some DmzOut | _ => None end.
(* _is_dmz_destination: on the DMZ port's network, or routed via a next hop on it *)
Definition is_dmz_destination (b : router) (d : Z) : bool :=
  if_in_net b 2 d || negb (in_any_subnet b d) && match Route.find_best (r_routes b) (r_dflt b) d with Some rt => if_in_net b 2 (Route.r_hop rt) | None => false end.
(* the list consulted second (None = the frame is dropped without a second list) *)
Definition second_list (b : router) (p : nat) (f : frame) : option zlist :=
  let d := p_dst (f_pkt f) in
  match p with
  | O => Some (if is_dmz_destination b d then DmzIn else IntIn)
  | S O => Some (if is_dmz_destination b d then DmzIn else ExtOut)
  | _ => let nic := match arp_port b d with
                    | Some q => Some q
                    | None => match Route.find_best (r_routes b) (r_dflt b) d with Some rt => arp_port b (Route.r_hop rt) | None => None end
                    end in
         match nic with Some O => Some ExtOut | Some (S O) => Some IntIn | _ => None end
  end.
Definition consult (w : firewall) (z : zlist) (f : frame) : bool * firewall :=
  let '(b, _, a) := is_permitted (get_list w z) (f_pkt f) in (b, set_list w z a).

Definition fw_core (w : firewall) (p : nat) (f1 : frame) : firewall * list (nat * frame) * bool * decision * list Z :=
  match first_list p with
  | None => (w, [], false, Ignored, [])
  | Some z1 =>
      let '(ok1, w1) := consult w z1 f1 in
      if negb ok1 then (w1, [], false, Denied, [zl_code z1])
      else
        let b1 := arp_learn (w_base w1) (p_src (f_pkt f1)) (f_smac f1) p in
        let w2 := set_base w1 b1 in
        if to_session_manager b1 f1 then (w2, [], true, Local, [zl_code z1])
        else match second_list b1 p f1 with
             | None => (w2, [], false, NoPath, [zl_code z1])
             | Some z2 =>
                 let '(ok2, w3) := consult w2 z2 f1 in
                 if negb ok2 then (w3, [], false, Denied, [zl_code z1; zl_code z2])
                 else match process_frame b1 f1 with
                      | [] => (w3, [], false, NoPath, [zl_code z1; zl_code z2])
                      | (q, f2) :: t => (w3, (q, f2) :: t, false, Forwarded q, [zl_code z1; zl_code z2])
                      end
             end
  end.
Definition fw_step (w : firewall) (p : nat) (f : frame) : firewall * list (nat * frame) * bool * decision * list Z :=
  match nth_error (r_ifs (w_base w)) p with
  | None => (w, [], false, Ignored, [])
  | Some i => match router_nic_rx i f with
              | None => (w, [], false, Ignored, [])
              | Some f1 => fw_core w p f1
              end
  end.
Definition fw_handle (w : firewall) (p : nat) (f : frame) : firewall * list (nat * frame) * bool :=
  fst (fst (fw_step w p f)).

(* ---- a network of devices ---------------------------------------------------------------------------------------- *)
Inductive dev := DHost (h : host) | DSwitch (s : switch) | DRouter (r : router) | DFirewall (w : firewall).
Definition dev_handle (d : dev) (p : nat) (f : frame) : dev * list (nat * frame) * bool :=
  match d with
  | DHost h => let '(h', o, b) := host_handle h p f in (DHost h', o, b)
  | DSwitch s => let '(s', o, b) := switch_handle s p f in (DSwitch s', o, b)
  | DRouter r => let '(r', o, b) := router_handle r p f in (DRouter r', o, b)
  | DFirewall w => let '(w', o, b) := fw_handle w p f in (DFirewall w', o, b)
  end.

(* ---- drivers for the correspondence check ------------------------------------------------------------------------ *)
Definition dec_code (d : decision) : list Z :=
  match d with Ignored => [0; -1] | Denied => [1; -1] | Local => [2; -1] | NoPath => [3; -1] | Forwarded q => [4; Z.of_nat q] end.
Definition out_code (o : list (nat * frame)) : list Z :=
  match o with [] => [-1; -1; -1] | (q, f) :: _ => [f_ttl f; f_smac f; f_dmac f] end.
Definition mknic (ip mask mac up : Z) : nic := {| n_ip := ip; n_mask := mask; n_mac := mac; n_up := up =? 1 |}.
Definition mkframe (pr s d : Z) (sp dp : option Z) (arp ttl dmac smac : Z) : frame :=
  {| f_pkt := mkp pr s d sp dp; f_arp := 1 <=? arp; f_arpp := arp =? 2; f_ttl := ttl; f_dmac := dmac; f_smac := smac |}.
Definition mkacl (imp : Z) (rules : list (Z * rule)) : acl_state :=
  fold_left (fun s pr => snd (add_rule s (fst pr) (snd pr))) rules (acl_init (if imp =? 1 then PERMIT else DENY) 25).
Definition mkarp (l : list (Z * Z * Z)) : list (Z * (nat * Z)) := map (fun '(ip, q, mac) => (ip, (Z.to_nat q, mac))) l.
Definition mkrouter (on : Z) (acl : acl_state) (ifs : list nic) (open : list Z) (arp : list (Z * Z * Z))
           (routes : list Route.route) (dflt : option Route.route) : router :=
  {| r_on := on =? 1; r_acl := acl; r_ifs := ifs; r_open := open; r_arp := mkarp arp; r_routes := routes; r_dflt := dflt |}.

(* a sequence of (port, frame) injections into one router; per injection: decision, out port, out ttl/macs, ACL counters sum *)
Fixpoint run_router (r : router) (inj : list (Z * frame)) : list Z :=
  match inj with
  | [] => counts (r_acl r) ++ [Z.of_nat (length (r_arp r))]
  | (p, f) :: t => let '(r', o, d, dc) := router_step r (Z.to_nat p) f in
                   dec_code dc ++ [b2z d] ++ out_code o ++ run_router r' t
  end.
Fixpoint run_fw (w : firewall) (inj : list (Z * frame)) : list Z :=
  match inj with
  | [] => [Z.of_nat (length (r_arp (w_base w)))]
  | (p, f) :: t => let '(w', o, d, dc, ls) := fw_step w (Z.to_nat p) f in
                   dec_code dc ++ [b2z d] ++ out_code o ++ [match ls with a :: _ => a | [] => 0 end; match ls with _ :: b :: _ => b | _ => 0 end] ++ run_fw w' t
  end.
Definition mkfw (b : router) (l : list acl_state) : firewall :=
  {| w_base := b; w_ext_in := nth 0 l (r_acl b); w_ext_out := nth 1 l (r_acl b); w_int_in := nth 2 l (r_acl b);
     w_int_out := nth 3 l (r_acl b); w_dmz_in := nth 4 l (r_acl b); w_dmz_out := nth 5 l (r_acl b) |}.
Definition run_host (h : host) (inj : list (Z * frame)) : list Z :=
  flat_map (fun '(p, f) => let '(_, _, d) := host_handle h (Z.to_nat p) f in [b2z d]) inj.
Fixpoint run_switch (s : switch) (inj : list (Z * frame)) : list Z :=
  match inj with
  | [] => []
  | (p, f) :: t => let '(s', o, _) := switch_handle s (Z.to_nat p) f in
                   [Z.of_nat (length o)] ++ map (fun qf => Z.of_nat (fst qf)) o ++ run_switch s' t
  end.

Inductive dcase :=
| CRouter (r : router) (inj : list (Z * frame))
| CFirewall (w : firewall) (inj : list (Z * frame))
| CHost (h : host) (inj : list (Z * frame))
| CSwitch (s : switch) (inj : list (Z * frame)).
Definition run_case (c : dcase) : list Z :=
  match c with
  | CRouter r inj => run_router r inj
  | CFirewall w inj => run_fw w inj
  | CHost h inj => run_host h inj
  | CSwitch s inj => run_switch s inj
  end.
