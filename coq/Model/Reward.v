(* Model of game/science.py (graph_has_cycle, topological_sort), PrimaiteGame.setup_reward_sharing / update_agents and
   RewardFunction.update (rewards.py): an agent's step reward is the weighted sum of its own components plus, for each
   shared-reward component, weight x the current reward of the agent it names, agents being evaluated in the order
   topological_sort returns.  Agents are numbered by the harness; rewards are exact rationals. *)
From Coq Require Import List Arith Bool ZArith QArith.
Import ListNotations.

Definition graph := list (nat * list nat).
Fixpoint lookup (n : nat) (g : graph) : option (list nat) :=
  match g with [] => None | (k, v) :: t => if Nat.eqb n k then Some v else lookup n t end.
Definition succs (g : graph) (n : nat) : list nat := match lookup n g with Some l => l | None => [] end.
Definition mem (n : nat) (l : list nat) : bool := existsb (Nat.eqb n) l.

Definition st := (list nat * list nat)%type.   (* visited, stack *)

Fixpoint dfs (fuel : nat) (g : graph) (n : nat) (s : st) : option st :=
  match fuel with
  | O => None
  | S f =>
      let '(vis, stack) := s in
      if mem n vis then Some s else
      match fold_left (fun acc m => match acc with None => None | Some s' => dfs f g m s' end)
                      (succs g n) (Some (n :: vis, stack)) with
      | None => None
      | Some (vis', stack') => Some (vis', stack' ++ [n])
      end
  end.

Definition topo (fuel : nat) (g : graph) : option st :=
  fold_left (fun acc e => match acc with None => None | Some s => dfs fuel g (fst e) s end) g (Some ([], [])).


(* graph_has_cycle: DFS with a "currently visiting" set; fuelled like dfs *)
Fixpoint cyc (fuel : nat) (g : graph) (n : nat) (s : list nat * list nat) : option (bool * (list nat * list nat)) :=
  match fuel with
  | O => None
  | S f =>
      let '(vis, cur) := s in
      if mem n cur then Some (true, s)
      else if mem n vis then Some (false, s)
      else
        match fold_left (fun acc m => match acc with
                                      | None => None
                                      | Some (true, s') => Some (true, s')
                                      | Some (false, s') => cyc f g m s'
                                      end) (succs g n) (Some (false, (n :: vis, n :: cur))) with
        | None => None
        | Some (true, s') => Some (true, s')
        | Some (false, (vis', cur')) => Some (false, (vis', filter (fun x => negb (Nat.eqb x n)) cur'))
        end
  end.
Definition has_cycle (fuel : nat) (g : graph) : option bool :=
  match fold_left (fun acc e => match acc with
                                | None => None
                                | Some (true, s) => Some (true, s)
                                | Some (false, s) => cyc fuel g (fst e) s
                                end) g (Some (false, ([], []))) with
  | None => None | Some (b, _) => Some b end.

(* ---- reward evaluation ------------------------------------------------------------------------------------------ *)
(* per agent: own = weighted sum of its non-shared components this step; shares = (agent named, weight) *)
Record agent := { a_id : nat; a_own : Q; a_shares : list (nat * Q) }.
Definition rewards := list (nat * Q).                    (* current_reward of each agent *)
Fixpoint get (r : rewards) (a : nat) : Q := match r with [] => 0 | (k, v) :: t => if Nat.eqb a k then v else get t a end.
Definition set (r : rewards) (a : nat) (v : Q) : rewards := (a, v) :: r.

Definition find_agent (ags : list agent) (a : nat) : option agent := find (fun x => Nat.eqb (a_id x) a) ags.

(* RewardFunction.update for one agent, reading the other agents' current_reward *)
Definition eval_one (r : rewards) (x : agent) : Q :=
  fold_left (fun acc sh => acc + snd sh * get r (fst sh)) (a_shares x) (a_own x).

(* update_agents: for agent_name in self._reward_calculation_order *)
Definition eval_order (ags : list agent) (order : list nat) (r0 : rewards) : rewards :=
  fold_left (fun r a => match find_agent ags a with Some x => set r a (eval_one r x) | None => r end) order r0.

Definition graph_of (ags : list agent) : graph := map (fun x => (a_id x, map fst (a_shares x))) ags.

(* from_config: reject cyclic sharing, else evaluate in topological order; fuel: number of agents + 1 *)
Definition step_rewards (ags : list agent) (prev : rewards) : option rewards :=
  let g := graph_of ags in
  let fuel := S (length ags) in
  match has_cycle fuel g with
  | Some false => match topo fuel g with Some (_, stack) => Some (eval_order ags stack prev) | None => None end
  | _ => None
  end.

(* ---- sticky components ------------------------------------------------------------------------------------------- *)
(* GreenAdminDatabaseUnreachablePenalty / WebpageUnavailablePenalty: ev = the qualifying event of this step, if any
   (Some true: the agent's request succeeded, Some false: it failed, None: no request this step) *)
Definition sticky_step (sticky : bool) (prev : Q) (ev : option bool) : Q :=
  match ev with
  | Some true => 1
  | Some false => -1
  | None => if sticky then prev else 0
  end.

(* ---- driver: agents as (id, own numerator over 4096, [(target, weight numerator over 4)]) -------------------------- *)
Definition mk_agent (c : Z * Z * list (Z * Z)) : agent :=
  let '(i, o, sh) := c in {| a_id := Z.to_nat i; a_own := o # 4096; a_shares := map (fun p => (Z.to_nat (fst p), snd p # 4)) sh |}.
Definition q_out (q : Q) : Z := let r := Qred (q * 4096) in Qnum r.      (* exact: all values are multiples of 1/4096 *)
Definition run_case (c : list (Z * Z * list (Z * Z))) : list Z :=
  let ags := map mk_agent c in
  match step_rewards ags [] with
  | None => [(-1)%Z]
  | Some r => (1%Z) :: map (fun x => q_out (get r (a_id x))) ags
  end.
