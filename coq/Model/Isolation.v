(* Model of what environment instances of one process share (C04): the NMNE capture settings live in class-level attributes
   (NetworkInterface.nmne_config, NICObservation.capture_nmne) that PrimaiteGame.from_config assigns on EVERY build from the
   scenario's nmne_config section, or from the defaults when the section is absent (game.py).  Every interface of every live
   simulation reads the class-level value.  Executable; no proofs here. *)
From Coq Require Import ZArith List Bool.
Import ListNotations.
From PV Require Import Base.Cases.
Open Scope Z_scope.

Definition DEFAULT : Z := 0.                       (* NMNEConfig(): capture off *)
Definition wanted (c : option Z) : Z := match c with Some v => v | None => DEFAULT end.

(* the process: the class-level cell, and for each environment slot the setting its current scenario asks for (None: no env) *)
Record proc := { g : Z; envs : list (option Z) }.
Inductive iop :=
| Build (i : nat) (c : option Z)      (* construct environment i, or reset it: a new game is built from its scenario *)
| Step (i : nat)                      (* environment i steps: its interfaces read the class-level settings *)
| Close (i : nat).

Fixpoint set_nth {A} (l : list A) (i : nat) (x : A) (d : A) : list A :=
  match i, l with
  | O, [] => [x] | O, _ :: t => x :: t
  | S k, [] => d :: set_nth [] k x d | S k, h :: t => h :: set_nth t k x d
  end.
Definition istep (p : proc) (o : iop) : proc * list Z :=
  match o with
  | Build i c => ({| g := wanted c; envs := set_nth (envs p) i (Some (wanted c)) None |}, [wanted c])
  | Step i => (p, [g p])                            (* what environment i's interfaces see in this step *)
  | Close i => ({| g := g p; envs := set_nth (envs p) i None None |}, [])
  end.
Fixpoint itrace (p : proc) (ops : list iop) : list Z :=
  match ops with [] => [] | o :: t => let '(p', out) := istep p o in out ++ itrace p' t end.
Definition fresh : proc := {| g := DEFAULT; envs := [] |}.
Definition run_case (ops : list iop) : list Z := itrace fresh ops.
