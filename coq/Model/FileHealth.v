(* Model of the health logic of a folder and its live files and of the whole-node scan:
   file.py (scan/repair/corrupt/restore), folder.py (scan/_scan_timestep/repair/corrupt/restore/_restoring_timestep),
   base.py (Node.scan and the scan part of Node.apply_timestep).  Health values are the enum values
   NONE 0 GOOD 1 COMPROMISED 2 CORRUPT 3 RESTORING 4 REPAIRING 5.  Deletion is the subject of Model/Fs.v. *)
From Coq Require Import ZArith List Bool.
Import ListNotations.
From PV Require Import Base.Cases.
Open Scope Z_scope.

Record fl := { fh : Z; fv : Z }.
Record fo := { gh : Z; gv : Z; scd : Z; sdur : Z; rcd : Z; rdur : Z; fls : list fl; ncd : Z; ndur : Z }.

Definition upd_fls (g : fo) (l : list fl) : fo :=
  {| gh := gh g; gv := gv g; scd := scd g; sdur := sdur g; rcd := rcd g; rdur := rdur g; fls := l; ncd := ncd g; ndur := ndur g |}.
Definition set_g (g : fo) (h v : Z) : fo :=
  {| gh := h; gv := v; scd := scd g; sdur := sdur g; rcd := rcd g; rdur := rdur g; fls := fls g; ncd := ncd g; ndur := ndur g |}.

Definition f_scan (f : fl) : fl := {| fh := fh f; fv := fh f |}.
Definition f_repair (f : fl) : fl := {| fh := if fh f =? 3 then 1 else fh f; fv := fv f |}.
Definition f_corrupt (f : fl) : fl := {| fh := if fh f =? 1 then 3 else fh f; fv := fv f |}.

Fixpoint upd {A} (l : list A) (i : nat) (f : A -> A) : list A :=
  match l, i with [], _ => [] | x :: t, O => f x :: t | x :: t, S j => x :: upd t j f end.

Inductive op := FileScan (i : nat) | FileRepair (i : nat) | FileCorrupt (i : nat) | FileRestore (i : nat)
              | FolderScan | FolderRepair | FolderCorrupt | FolderRestore | NodeScan | Tick.

Definition worst (l : list fl) : Z := fold_left (fun m f => Z.max m (fh f)) l 0.

(* Node.apply_timestep: whole-node scan section *)
Definition node_scan_tick (g : fo) : fo :=
  if 0 <? ncd g then
    let g1 := {| gh := gh g; gv := gv g; scd := scd g; sdur := sdur g; rcd := rcd g; rdur := rdur g; fls := fls g; ncd := ncd g - 1; ndur := ndur g |} in
    if ncd g1 =? 0 then
      let l := map f_scan (fls g1) in
      let g2 := upd_fls g1 l in
      if existsb (fun f => fv f =? 3) l then set_g g2 (gh g2) 3 else g2     (* Folder.scan(instant_scan=True) *)
    else g1
  else g.

(* Folder._scan_timestep *)
Definition scan_tick (g : fo) : fo :=
  if 0 <=? scd g then
    let c := scd g - 1 in
    let g1 := {| gh := gh g; gv := gv g; scd := c; sdur := sdur g; rcd := rcd g; rdur := rdur g; fls := fls g; ncd := ncd g; ndur := ndur g |} in
    if c =? 0 then
      let l := map f_scan (fls g1) in
      let w := worst l in
      set_g (upd_fls g1 l) w w
    else g1
  else g.

(* Folder._restoring_timestep (live files; the deleted ones are in Model/Fs.v) *)
Definition restore_tick (g : fo) : fo :=
  if 0 <=? rcd g then
    let c := rcd g - 1 in
    let g1 := {| gh := gh g; gv := gv g; scd := scd g; sdur := sdur g; rcd := c; rdur := rdur g; fls := fls g; ncd := ncd g; ndur := ndur g |} in
    if c =? 0 then
      let g2 := upd_fls g1 (map f_repair (fls g1)) in
      if (gh g2 =? 3) || (gh g2 =? 4) then set_g g2 1 (gv g2) else g2
    else g1
  else g.

Definition step (g : fo) (o : op) : fo :=
  match o with
  | FileScan i => upd_fls g (upd (fls g) i f_scan)
  | FileRepair i | FileRestore i => upd_fls g (upd (fls g) i f_repair)
  | FileCorrupt i => upd_fls g (upd (fls g) i f_corrupt)
  | FolderScan => if scd g <=? 0
                  then {| gh := gh g; gv := gv g; scd := Z.max (sdur g) 1; sdur := sdur g; rcd := rcd g; rdur := rdur g; fls := fls g; ncd := ncd g; ndur := ndur g |}
                  else g
  | FolderRepair => set_g (upd_fls g (map f_repair (fls g))) 1 (gv g)
  | FolderCorrupt => set_g (upd_fls g (map f_corrupt (fls g))) 3 (gv g)
  | FolderRestore => if rcd g <=? 0
                     then {| gh := 4; gv := gv g; scd := scd g; sdur := sdur g; rcd := Z.max (rdur g) 1; rdur := rdur g; fls := fls g; ncd := ncd g; ndur := ndur g |}
                     else g
  | NodeScan => {| gh := gh g; gv := gv g; scd := scd g; sdur := sdur g; rcd := rcd g; rdur := rdur g; fls := fls g; ncd := Z.max (ndur g) 1; ndur := ndur g |}
  | Tick => restore_tick (scan_tick (node_scan_tick g))
  end.

Definition obs (g : fo) : list Z := [gh g; gv g] ++ flat_map (fun f => [fh f; fv f]) (fls g).
Fixpoint trace (g : fo) (ops : list op) : list Z :=
  match ops with [] => [] | o :: t => let g' := step g o in obs g' ++ trace g' t end.
(* case: scan duration, restore duration, node scan duration, folder (health, visible), files [(health, visible)], ops *)
Definition run_case (c : Z * Z * Z * Z * Z * list (Z * Z) * list op) : list Z :=
  let '(sd, rd, nd, h, v, l, ops) := c in
  trace {| gh := h; gv := v; scd := 0; sdur := sd; rcd := 0; rdur := rd; fls := map (fun p => {| fh := fst p; fv := snd p |}) l;
           ncd := 0; ndur := nd |} ops.
