(* Model of the observation encodings of primaite/game/agent/observations: gymnasium-style spaces and membership,
   the leaf encoders (_categorise_* threshold binning, NIC traffic band, link load band), and the slot structure of
   component lists (configured components, padded with absent ones, all defaults when the node is not ON). *)
From Coq Require Import ZArith List Bool.
Import ListNotations.
From PV Require Import Base.Cases.
Open Scope Z_scope.

Inductive key := KStr (s : nat) | KInt (i : Z).         (* names are interned by the harness *)
Inductive space := Discrete (n : Z) | SDict (fields : list (key * space)).
Inductive obs := OInt (v : Z) | ODict (fields : list (key * obs)).

Definition key_eqb a b := match a, b with KStr x, KStr y => Nat.eqb x y | KInt x, KInt y => Z.eqb x y | _, _ => false end.

(* gymnasium Dict.contains (same keys; both sides are built by the same traversal, so order is kept too) *)
Fixpoint contains (s : space) (o : obs) {struct o} : bool :=
  match s, o with
  | Discrete n, OInt v => (0 <=? v) && (v <? n)
  | SDict fs, ODict os =>
      (fix go (fs : list (key * space)) (os : list (key * obs)) {struct os} : bool :=
         match fs, os with
         | [], [] => true
         | (k, s') :: fs', (k', o') :: os' => key_eqb k k' && contains s' o' && go fs' os'
         | _, _ => false
         end) fs os
  | _, _ => false
  end.

(* ---- leaf encoders ------------------------------------------------------------------------------------------------ *)
(* _categorise_mne_count / _categorise_num_executions / _categorise_num_access *)
Definition categorise (low med high c : Z) : Z :=
  if c >? high then 3 else if c >? med then 2 else if c >? low then 1 else 0.

(* NICObservation._categorise_traffic: 0 when idle, else min(int(traffic / speed * 9) + 1, 10); traffic and speed as
   integers in a common unit (the harness uses dyadic values) *)
Definition traffic_band (traffic speed : Z) : Z :=
  if traffic =? 0 then 0 else Z.min (traffic * 9 / speed + 1) 10.

(* LinkObservation.observe *)
Definition link_band (load bw : Z) : Z := if load =? 0 then 0 else Z.min (load * 9 / bw + 1) 10.

(* HostObservation num_file_creations / deletions (clamped) *)
Definition clamp3 (c : Z) : Z := Z.min c 3.

(* ---- components -------------------------------------------------------------------------------------------------------- *)
Definition k_op := KStr 1. Definition k_health := KStr 2. Definition k_status := KStr 3. Definition k_services := KStr 4.
Definition k_execs := KStr 5. Definition k_apps := KStr 6. Definition k_access := KStr 7. Definition k_files := KStr 8.
Definition k_nic := KStr 9. Definition k_in := KStr 10. Definition k_out := KStr 11. Definition k_nmne := KStr 12.

Record svc_state := { s_op : Z; s_actual : Z; s_visible : Z }.
Definition svc_space := SDict [(k_op, Discrete 7); (k_health, Discrete 5)].
Definition svc_default := ODict [(k_op, OInt 0); (k_health, OInt 0)].
Definition svc_observe (requires_scan : bool) (st : option svc_state) : obs :=
  match st with
  | None => svc_default
  | Some s => ODict [(k_op, OInt (s_op s)); (k_health, OInt (if requires_scan then s_visible s else s_actual s))]
  end.

Record app_state := { a_op : Z; a_actual : Z; a_visible : Z; a_execs : Z }.
Definition app_space := SDict [(k_op, Discrete 7); (k_health, Discrete 5); (k_execs, Discrete 4)].
Definition app_default := ODict [(k_op, OInt 0); (k_health, OInt 0); (k_execs, OInt 0)].
Definition app_observe (requires_scan : bool) (lo me hi : Z) (st : option app_state) : obs :=
  match st with
  | None => app_default
  | Some s => ODict [(k_op, OInt (a_op s)); (k_health, OInt (if requires_scan then a_visible s else a_actual s));
                     (k_execs, OInt (categorise lo me hi (a_execs s)))]
  end.

Record file_state := { f_health : Z; f_visible : Z; f_access : Z }.
Definition file_space (with_access : bool) :=
  SDict ((k_health, Discrete 6) :: (if with_access then [(k_access, Discrete 4)] else [])).
Definition file_default (with_access : bool) :=
  ODict ((k_health, OInt 0) :: (if with_access then [(k_access, OInt 0)] else [])).
Definition file_observe (requires_scan with_access : bool) (lo me hi : Z) (st : option file_state) : obs :=
  match st with
  | None => file_default with_access
  | Some s => ODict ((k_health, OInt (if requires_scan then f_visible s else f_health s)) ::
                     (if with_access then [(k_access, OInt (categorise lo me hi (f_access s)))] else []))
  end.

Record nic_state := { n_enabled : bool; n_in : Z; n_out : Z }.
Definition nic_space := SDict [(k_nic, Discrete 3); (k_nmne, SDict [(k_in, Discrete 4); (k_out, Discrete 4)])].
Definition nic_default := ODict [(k_nic, OInt 0); (k_nmne, ODict [(k_in, OInt 0); (k_out, OInt 0)])].
Definition nic_observe (lo me hi : Z) (st : option nic_state) : obs :=
  match st with
  | None => nic_default
  | Some s => ODict [(k_nic, OInt (if n_enabled s then 1 else 2));
                     (k_nmne, ODict [(k_in, OInt (categorise lo me hi (n_in s))); (k_out, OInt (categorise lo me hi (n_out s)))])]
  end.

(* slots: {1: .., 2: .., ...} over the configured components, padded with absent ones *)
Fixpoint enum_from {A} (i : Z) (l : list A) : list (key * A) :=
  match l with [] => [] | a :: t => (KInt i, a) :: enum_from (i + 1) t end.

(* a host: power state and two slot lists (services, applications); everything but the power state reads as the default
   while the node is not ON *)
Record host_cfg := { svc_scan : bool; app_scan : bool; thr : Z * Z * Z; svc_slots : list (option nat); app_slots : list (option nat) }.
Record host_state := { h_power : Z; h_services : nat -> option svc_state; h_apps : nat -> option app_state }.
Definition host_space (c : host_cfg) : space :=
  SDict [(k_status, Discrete 5);
         (k_services, SDict (enum_from 1 (map (fun _ => svc_space) (svc_slots c))));
         (k_apps, SDict (enum_from 1 (map (fun _ => app_space) (app_slots c))))].
Definition host_observe (c : host_cfg) (h : host_state) : obs :=
  let '(lo, me, hi) := thr c in
  let on := h_power h =? 1 in
  ODict [(k_status, OInt (h_power h));
         (k_services, ODict (enum_from 1 (map (fun sl => svc_observe (svc_scan c) (if on then match sl with Some n => h_services h n | None => None end else None)) (svc_slots c))));
         (k_apps, ODict (enum_from 1 (map (fun sl => app_observe (app_scan c) lo me hi (if on then match sl with Some n => h_apps h n | None => None end else None)) (app_slots c))))].

(* ---- driver for the leaf encoders ----------------------------------------------------------------------------------------- *)
Definition run_case (c : Z * list Z) : list Z :=
  let '(kind, a) := c in
  match kind, a with
  | 1, [lo; me; hi; x] => [categorise lo me hi x]
  | 2, [t; s] => [traffic_band t s]
  | 3, [l; b] => [link_band l b]
  | 4, [x] => [clamp3 x]
  | _, _ => [-1]
  end.
