(* Model of the NMNE observation leaf (NICObservation.observe, include_nmne): the interface keeps cumulative counts of captured
   malicious frames per direction (NetworkInterface._capture_nmne, reset only when an episode is set up); each observation
   reports the bin of the count SINCE THE PREVIOUS observation of that interface and remembers the count.  A host that is not
   ON is observed through its default observation, which leaves the remembered count alone.  Executable; no proofs here. *)
From Coq Require Import ZArith List Bool.
Import ListNotations.
From PV Require Import Base.Cases Model.Obs.
Open Scope Z_scope.

Record nmne := { n_in : Z; n_out : Z; l_in : Z; l_out : Z }.
Inductive nop :=
| Captured (inbound : bool)            (* a frame carrying a keyword passed the interface while capture is on *)
| Observe (on : bool).                 (* end of a step: the agent's observation is refreshed; on = the host is ON *)

Definition nstep (lo me hi : Z) (s : nmne) (o : nop) : nmne * list Z :=
  match o with
  | Captured true => ({| n_in := n_in s + 1; n_out := n_out s; l_in := l_in s; l_out := l_out s |}, [])
  | Captured false => ({| n_in := n_in s; n_out := n_out s + 1; l_in := l_in s; l_out := l_out s |}, [])
  | Observe true => ({| n_in := n_in s; n_out := n_out s; l_in := n_in s; l_out := n_out s |},
                     [categorise lo me hi (n_in s - l_in s); categorise lo me hi (n_out s - l_out s)])
  | Observe false => (s, [0; 0])
  end.
Fixpoint ntrace (lo me hi : Z) (s : nmne) (ops : list nop) : list Z :=
  match ops with [] => [] | o :: t => let '(s', out) := nstep lo me hi s o in out ++ ntrace lo me hi s' t end.
Definition nmne0 : nmne := {| n_in := 0; n_out := 0; l_in := 0; l_out := 0 |}.
Definition run_case (c : Z * Z * Z * list nop) : list Z := let '(lo, me, hi, ops) := c in ntrace lo me hi nmne0 ops.
