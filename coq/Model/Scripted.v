(* Models of the scripted agents' schedulers and selectors:
   random_agent.py PeriodicAgent (_set_next_execution_timestep, get_action), data_manipulation_bot.py DataManipulationAgent,
   probabilistic_agent.py ProbabilisticAgent.probabilities with numpy's Generator.choice (inverse CDF, side = 'right'),
   abstract_tap.py / TAP001.py / TAP003.py kill-chain stage bookkeeping (_tap_start, _progress_kill_chain,
   _agent_trial_handler, _tap_outcome_handler).  Random draws are an explicit input. *)
From Coq Require Import ZArith List Bool QArith.
Import ListNotations.
From PV Require Import Base.Cases.
Open Scope Z_scope.

(* ---- periodic agents ------------------------------------------------------------------------------------------------ *)
Record pcfg := { p_start : Z; p_svar : Z; p_freq : Z; p_var : Z; p_max : Z; p_dm : bool (* DataManipulationAgent *) }.
Record pst := { p_next : Z; p_num : Z; p_draws : list Z }.

Definition take_draw (s : pst) : Z * pst :=
  match p_draws s with [] => (0, s) | d :: t => (d, {| p_next := p_next s; p_num := p_num s; p_draws := t |}) end.

(* __init__: PeriodicAgent draws randint(-start_variance, start_variance); DataManipulationAgent then overrides with variance 0
   (randint(0, 0) still consumes a draw) *)
Definition p_init (c : pcfg) (draws : list Z) : pst :=
  let s0 := {| p_next := 0; p_num := 0; p_draws := draws |} in
  let '(d, s1) := take_draw s0 in
  let s2 := {| p_next := Z.max 0 (p_start c + d); p_num := 0; p_draws := p_draws s1 |} in
  if p_dm c then let '(_, s3) := take_draw s2 in {| p_next := Z.max 0 (p_start c); p_num := 0; p_draws := p_draws s3 |} else s2.

(* get_action at timestep t: true = the agent acts *)
Definition p_step (c : pcfg) (s : pst) (t : Z) : pst * bool :=
  if p_dm c then
    if t <? p_next s then (s, false)
    else let '(d, s1) := take_draw s in ({| p_next := Z.max 0 (t + p_freq c + d); p_num := p_num s; p_draws := p_draws s1 |}, true)
  else
    if (t =? p_next s) && (p_num s <? p_max c)
    then let '(d, s1) := take_draw s in ({| p_next := Z.max 0 (t + p_freq c + d); p_num := p_num s + 1; p_draws := p_draws s1 |}, true)
    else (s, false).

Fixpoint p_run (c : pcfg) (s : pst) (t : Z) (n : nat) : list Z :=
  match n with
  | O => []
  | S k => let '(s', b) := p_step c s t in (if b then [t] else []) ++ p_run c s' (t + 1) k
  end.
Definition action_times (c : pcfg) (draws : list Z) (n : nat) : list Z := p_run c (p_init c draws) 0 n.

(* ---- probabilistic agent ------------------------------------------------------------------------------------------------ *)
(* probabilities: the values of the mapping sorted by action index; choice(n, p): first index whose cumulative
   probability exceeds the uniform draw u in [0, 1) *)
Fixpoint insert_kv (k : Z) (v : Q) (l : list (Z * Q)) : list (Z * Q) :=
  match l with [] => [(k, v)] | (k', v') :: t => if k <=? k' then (k, v) :: l else (k', v') :: insert_kv k v t end.
Definition sort_kv (l : list (Z * Q)) : list (Z * Q) := fold_right (fun kv acc => insert_kv (fst kv) (snd kv) acc) [] l.
Definition probs (m : list (Z * Q)) : list Q := map snd (sort_kv m).

Fixpoint choose (ps : list Q) (acc : Q) (u : Q) (i : nat) : nat :=
  match ps with
  | [] => i
  | p :: t => if Qlt_le_dec u (acc + p) then i else choose t (acc + p) u (S i)
  end.
Definition choice (ps : list Q) (u : Q) : nat := choose ps 0 u O.

(* ---- kill chain -------------------------------------------------------------------------------------------------------- *)
Definition NOT_STARTED : Z := 100.
Definition SUCCEEDED : Z := 200.
Definition FAILED : Z := 300.
(* k_prog: progress within the current stage (KillChainStageProgress: PENDING 0, IN_PROGRESS 1, FINISHED 2) *)
Record kc := { k_cur : Z; k_next : Z; k_done : bool; k_prog : Z }.
Inductive kop := KStart | KProgress | KFail | KOutcome (repeat_chain : bool) | KReturn (succeeded repeat_stages : bool).

(* last: the final stage of the chain (PAYLOAD = 6 for TAP001, EXPLOIT = 5 for TAP003) *)
Definition k_step (last : Z) (s : kc) (o : kop) : kc :=
  match o with
  | KStart => if k_cur s =? NOT_STARTED then {| k_cur := 1; k_next := 2; k_done := k_done s; k_prog := k_prog s |} else s
  | KProgress =>
      if k_next s =? last then {| k_cur := k_cur s + 1; k_next := SUCCEEDED; k_done := k_done s; k_prog := 0 |}
      else let c := k_next s in
           {| k_cur := c; k_next := if c =? SUCCEEDED then NOT_STARTED else c + 1; k_done := k_done s; k_prog := 0 |}
  | KFail => {| k_cur := FAILED; k_next := k_next s; k_done := k_done s; k_prog := k_prog s |}
  | KOutcome rep =>
      if (k_cur s =? SUCCEEDED) || (k_cur s =? FAILED) then
        if k_done s then s
        else if rep then {| k_cur := NOT_STARTED; k_next := 1; k_done := false; k_prog := 0 |}      (* the first stage starts from its beginning *)
        else {| k_cur := k_cur s; k_next := k_next s; k_done := true; k_prog := k_prog s |}
      else s
  (* _tap_return_handler: the response to the agent's previous request; anything but "success" (failure, unreachable,
     pending) fails the chain unless stages are repeated, in which case the stage is held *)
  | KReturn ok rs => if ok || rs then s else {| k_cur := FAILED; k_next := k_next s; k_done := k_done s; k_prog := k_prog s |}
  end.

(* ---- drivers -------------------------------------------------------------------------------------------------------------- *)
Definition run_case (c : Z * Z * Z * Z * Z * bool * list Z * Z) : list Z :=
  let '(st, sv, f, v, mx, dm, draws, n) := c in
  action_times {| p_start := st; p_svar := sv; p_freq := f; p_var := v; p_max := mx; p_dm := dm |} draws (Z.to_nat n).
