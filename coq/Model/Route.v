(* Model of RouteTable.find_best_route (router.py): longest-prefix match over the table in order, lowest metric on
   ties (strict <, so the first such entry wins), the default route as a last resort; and of the next-hop decision
   of hosts and routers.  Addresses, masks are 32-bit integers; metrics are scaled to integers by the harness. *)
From Coq Require Import ZArith List Bool.
Import ListNotations.
From PV Require Import Base.Cases.
Open Scope Z_scope.

Record route := { r_net : Z; r_mask : Z; r_plen : Z; r_hop : Z; r_metric : Z }.

(* destination_ip in IPv4Network(address/mask, strict=False) *)
Definition covers (r : route) (d : Z) : bool := Z.land d (r_mask r) =? Z.land (r_net r) (r_mask r).

(* loop state: (best_route, longest_prefix, lowest_metric); lowest_metric = None encodes float("inf") *)
Definition st := (option route * Z * option Z)%type.
Definition better (r : route) (s : st) : bool :=
  let '(_, lp, lm) := s in
  (r_plen r >? lp) || ((r_plen r =? lp) && match lm with None => true | Some m => r_metric r <? m end).
Definition step (d : Z) (s : st) (r : route) : st :=
  if covers r d then (if better r s then (Some r, r_plen r, Some (r_metric r)) else s) else s.
Definition find_best (routes : list route) (dflt : option route) (d : Z) : option route :=
  match fst (fst (fold_left (step d) routes (None, -1, None))) with
  | Some r => Some r
  | None => dflt
  end.

(* next hop: a host sends on-link destinations directly and everything else to its default gateway; a router uses a
   connected (enabled) subnet, else the best route *)
Record iface := { i_ip : Z; i_mask : Z; i_up : bool }.
Definition on_link (i : iface) (d : Z) : bool := i_up i && (Z.land d (i_mask i) =? Z.land (i_ip i) (i_mask i)).
Definition host_next_hop (i : iface) (gw : option Z) (d : Z) : option Z :=
  if on_link i d then Some d else gw.
Definition router_next_hop (ifs : list iface) (routes : list route) (dflt : option route) (d : Z) : option Z :=
  if existsb (fun i => on_link i d) ifs then Some d
  else match find_best routes dflt d with Some r => Some (r_hop r) | None => None end.

(* driver: index of the chosen route in the table (-1: default route, -2: none) per destination *)
Fixpoint index_of (r : route) (l : list route) (k : Z) : Z :=
  match l with
  | [] => -1
  | x :: t => if (r_net x =? r_net r) && (r_mask x =? r_mask r) && (r_hop x =? r_hop r) && (r_metric x =? r_metric r) then k else index_of r t (k + 1)
  end.
Definition mk (n m p h me : Z) : route := {| r_net := n; r_mask := m; r_plen := p; r_hop := h; r_metric := me |}.
Definition run_case (c : list route * option route * list Z) : list Z :=
  let '(routes, dflt, ds) := c in
  map (fun d => match find_best routes dflt d with
                | Some r => r_hop r
                | None => -2 end) ds.
(* driver for the host next-hop rule: (interface ip, mask, gateway, destinations) -> next-hop address per destination (-2: none) *)
Definition run_hops (c : Z * Z * option Z * list Z) : list Z :=
  let '(ip, mask, gw, ds) := c in
  map (fun d => match host_next_hop {| i_ip := ip; i_mask := mask; i_up := true |} gw d with Some h => h | None => -2 end) ds.
