(* Model of the node power machine of primaite/simulator/network/hardware/base.py:
   Node.power_on / power_off / reset, the power part of Node.apply_timestep, _start_up_actions / _shut_down_actions,
   WiredNetworkInterface.enable / disable, and the node-level request guards (_NodeIsOnValidator / _NodeIsOffValidator). *)
From Coq Require Import ZArith List Bool.
Import ListNotations.
From PV Require Import Base.Cases.
Open Scope Z_scope.

Inductive ps := ON | OFF | BOOTING | SHUTTING_DOWN.
Definition ps_to_Z (s : ps) : Z := match s with ON => 1 | OFF => 2 | BOOTING => 3 | SHUTTING_DOWN => 4 end.
Definition ps_eqb a b := match a, b with ON,ON|OFF,OFF|BOOTING,BOOTING|SHUTTING_DOWN,SHUTTING_DOWN => true | _,_ => false end.

(* service states: RUNNING 1 STOPPED 2 PAUSED 3 DISABLED 4 INSTALLING 5 RESTARTING 6; application: RUNNING 1 CLOSED 2 INSTALLING 3 *)
Record nic := { linked : bool; enabled : bool }.
Record cfg := { up_d : Z; down_d : Z }.
Record node := { st : ps; up_cd : Z; down_cd : Z; resetting : bool; nics : list nic; svcs : list Z; apps : list Z }.

Definition set_st (n : node) (s : ps) := {| st := s; up_cd := up_cd n; down_cd := down_cd n; resetting := resetting n; nics := nics n; svcs := svcs n; apps := apps n |}.
Definition set_up (n : node) (v : Z) := {| st := st n; up_cd := v; down_cd := down_cd n; resetting := resetting n; nics := nics n; svcs := svcs n; apps := apps n |}.
Definition set_down (n : node) (v : Z) := {| st := st n; up_cd := up_cd n; down_cd := v; resetting := resetting n; nics := nics n; svcs := svcs n; apps := apps n |}.
Definition set_reset (n : node) (b : bool) := {| st := st n; up_cd := up_cd n; down_cd := down_cd n; resetting := b; nics := nics n; svcs := svcs n; apps := apps n |}.
Definition set_nics (n : node) (l : list nic) := {| st := st n; up_cd := up_cd n; down_cd := down_cd n; resetting := resetting n; nics := l; svcs := svcs n; apps := apps n |}.
Definition set_sw (n : node) (s a : list Z) := {| st := st n; up_cd := up_cd n; down_cd := down_cd n; resetting := resetting n; nics := nics n; svcs := s; apps := a |}.

(* WiredNetworkInterface.enable: refused unless the node is ON and a link is connected; disable always works *)
Definition nic_enable (s : ps) (i : nic) : nic :=
  if enabled i then i else if ps_eqb s ON && linked i then {| linked := linked i; enabled := true |} else i.
Definition nic_disable (i : nic) : nic := {| linked := linked i; enabled := false |}.
Definition enable_all (n : node) : node := set_nics n (map (nic_enable (st n)) (nics n)).
Definition disable_all (n : node) : node := set_nics n (map nic_disable (nics n)).

(* Service.start (needs the node ON) / stop ; Application.run / close *)
Definition svc_start (s : ps) (v : Z) : Z := if ps_eqb s ON && (v =? 2) then 1 else v.
Definition svc_stop (v : Z) : Z := if (v =? 1) || (v =? 3) then 2 else v.
Definition app_run (s : ps) (v : Z) : Z := if ps_eqb s ON && (v =? 2) then 1 else v.
Definition app_close (v : Z) : Z := if v =? 1 then 2 else v.
Definition start_up_actions (n : node) : node := set_sw n (map (svc_start (st n)) (svcs n)) (map (app_run (st n)) (apps n)).
Definition shut_down_actions (n : node) : node := set_sw n (map svc_stop (svcs n)) (map app_close (apps n)).

Definition power_on (c : cfg) (n : node) : node :=
  if up_d c <=? 0 then enable_all (start_up_actions (set_st n ON))
  else if ps_eqb (st n) OFF then set_up (set_st n BOOTING) (up_d c)
  else n.

Definition power_off (c : cfg) (n : node) : node :=
  if down_d c <=? 0 then
    let n1 := set_st (shut_down_actions (disable_all n)) OFF in
    if resetting n1 then power_on c (set_reset n1 false) else n1
  else if ps_eqb (st n) ON then set_down (set_st (disable_all n) SHUTTING_DOWN) (down_d c)
  else n.

(* `if self.operating_state.ON:` is always true *)
Definition reset (c : cfg) (n : node) : node := power_off c (set_reset n true).

(* power part of Node.apply_timestep *)
Definition tick (c : cfg) (n : node) : node :=
  let n1 := if 0 <? up_cd n then set_up n (up_cd n - 1)
            else if ps_eqb (st n) BOOTING then start_up_actions (enable_all (set_st n ON))
            else n in
  if 0 <? down_cd n1 then set_down n1 (down_cd n1 - 1)
  else if ps_eqb (st n1) SHUTTING_DOWN then
    let n2 := shut_down_actions (set_st n1 OFF) in
    if resetting n2 then power_on c (set_reset n2 false) else n2
  else n1.

Fixpoint upd {A} (l : list A) (i : nat) (f : A -> A) : list A :=
  match l, i with [], _ => [] | x :: t, O => f x :: t | x :: t, S j => x :: upd t j f end.

(* requests, as they arrive through the node's request manager: guard first, then the operation *)
Inductive op := Shutdown | Startup | Reset | Tick
              | NicEnable (i : nat) | NicDisable (i : nat) | SvcStop (i : nat) | SvcStart (i : nat) | AppClose (i : nat) | AppRun (i : nat).

Definition is_on (n : node) := ps_eqb (st n) ON.

Definition step (c : cfg) (n : node) (o : op) : node :=
  match o with
  | Shutdown => if is_on n then power_off c n else n
  | Startup => if ps_eqb (st n) OFF then power_on c n else n
  | Reset => if is_on n then reset c n else n
  | Tick => tick c n
  | NicEnable i => if is_on n && negb (match nth_error (nics n) i with Some x => enabled x | None => true end)
                   then set_nics n (upd (nics n) i (nic_enable (st n))) else n
  | NicDisable i => if is_on n && (match nth_error (nics n) i with Some x => enabled x | None => false end)
                    then set_nics n (upd (nics n) i nic_disable) else n
  | SvcStop i => if is_on n && (match nth_error (svcs n) i with Some v => v =? 1 | None => false end)
                 then set_sw n (upd (svcs n) i svc_stop) (apps n) else n
  | SvcStart i => if is_on n && (match nth_error (svcs n) i with Some v => v =? 2 | None => false end)
                  then set_sw n (upd (svcs n) i (svc_start (st n))) (apps n) else n
  | AppClose i => if is_on n && (match nth_error (apps n) i with Some v => v =? 1 | None => false end)
                  then set_sw n (svcs n) (upd (apps n) i app_close) else n
  | AppRun i => if is_on n then set_sw n (svcs n) (upd (apps n) i (app_run (st n))) else n
  end.

Definition run (c : cfg) (n : node) (ops : list op) : node := fold_left (step c) ops n.

(* ---- driver for the correspondence check: full observable state after every op --------------------------- *)
Definition obs (n : node) : list Z :=
  [ps_to_Z (st n)] ++ map (fun i => b2z (enabled i)) (nics n) ++ svcs n ++ apps n.
Fixpoint trace (c : cfg) (n : node) (ops : list op) : list Z :=
  match ops with [] => [] | o :: t => let n' := step c n o in obs n' ++ trace c n' t end.
Definition mk_node (nl : list (bool * bool)) (s a : list Z) : node :=
  {| st := ON; up_cd := 0; down_cd := 0; resetting := false;
     nics := map (fun p => {| linked := fst p; enabled := snd p |}) nl; svcs := s; apps := a |}.
Definition run_case (x : Z * Z * list (bool * bool) * list Z * list Z * list op) : list Z :=
  let '(u, d, nl, s, a, ops) := x in trace {| up_d := u; down_d := d |} (mk_node nl s a) ops.
