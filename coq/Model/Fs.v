(* Model of the container logic of primaite/simulator/file_system/{file_system,folder,file}.py at the level of the
   request handlers agents and the request API reach: create / delete / restore of files and folders, the timed folder
   restore, and the per-tick creation/deletion counters.  Health values are modelled in Model/Health.v. *)
From Coq Require Import ZArith List Bool Arith.
Import ListNotations.
From PV Require Import Base.Cases.
Open Scope Z_scope.

Record file := { fid : nat; fname : Z; fdel : bool }.
Record folder := { gid : nat; gname : Z; gdel : bool; live : list file; dead : list file; rcd : Z; rdur : Z }.
Record fsys := { folders : list folder; dfolders : list folder; next : nat; ncreate : Z; ndelete : Z }.

Definition find_name (n : Z) (l : list file) : option file := find (fun f => Z.eqb (fname f) n) l.
Definition remove_id (i : nat) (l : list file) : list file := filter (fun f => negb (Nat.eqb (fid f) i)) l.
Definition undel (f : file) := {| fid := fid f; fname := fname f; fdel := false |}.
Definition del (f : file) := {| fid := fid f; fname := fname f; fdel := true |}.

Definition set_files (g : folder) (l d : list file) : folder :=
  {| gid := gid g; gname := gname g; gdel := gdel g; live := l; dead := d; rcd := rcd g; rdur := rdur g |}.
Definition set_gdel (g : folder) (b : bool) : folder :=
  {| gid := gid g; gname := gname g; gdel := b; live := live g; dead := dead g; rcd := rcd g; rdur := rdur g |}.
Definition set_rcd (g : folder) (v : Z) : folder :=
  {| gid := gid g; gname := gname g; gdel := gdel g; live := live g; dead := dead g; rcd := v; rdur := rdur g |}.

(* ---- folder level ---------------------------------------------------------------------------------------- *)
(* Folder.remove_file *)
Definition g_delete (g : folder) (n : Z) : folder * bool :=
  match find_name n (live g) with
  | Some f => (set_files g (remove_id (fid f) (live g)) (dead g ++ [del f]), true)
  | None => (g, false)
  end.

(* Folder.restore_file: get_file(include_deleted=True) finds a live file of that name first *)
Definition g_restore (g : folder) (n : Z) : folder * bool :=
  match find_name n (live g) with
  | Some _ => (g, true)
  | None => match find_name n (dead g) with
            | Some f => (set_files g (live g ++ [undel f]) (remove_id (fid f) (dead g)), true)
            | None => (g, false)
            end
  end.

(* FileSystem.create_file inside an existing live folder; nid: the fresh identifier *)
Definition g_create (g : folder) (n : Z) (nid : nat) : folder * bool :=
  match find_name n (live g) with
  | Some _ => (g, false)                          (* same object re-added (force): nothing new *)
  | None => (set_files g (live g ++ [{| fid := nid; fname := n; fdel := false |}]) (dead g), true)
  end.

(* Folder.remove_all_files *)
Definition g_remove_all (g : folder) : folder := set_files g [] (dead g ++ map del (live g)).

(* Folder.restore: clear the deleted flag, start the countdown unless one is running *)
Definition g_start_restore (g : folder) : folder :=
  let g1 := set_gdel g false in
  if rcd g1 <=? 0 then set_rcd g1 (Z.max (rdur g1) 1) else g1.

(* Folder._restoring_timestep *)
Definition g_restore_tick (g : folder) : folder :=
  if 0 <=? rcd g then
    let g1 := set_rcd g (rcd g - 1) in
    if rcd g1 =? 0 then
      let g2 := fold_left (fun x f => fst (g_restore x (fname f))) (live g1) g1 in
      let g3 := fold_left (fun x f => fst (g_restore x (fname f))) (dead g1) g2 in
      set_gdel g3 false
    else g1
  else g.

(* ---- file-system level --------------------------------------------------------------------------------------- *)
Definition find_folder (n : Z) (l : list folder) : option folder := find (fun g => Z.eqb (gname g) n) l.
Definition remove_gid (i : nat) (l : list folder) : list folder := filter (fun g => negb (Nat.eqb (gid g) i)) l.
Definition replace_g (g' : folder) (l : list folder) : list folder :=
  map (fun g => if Nat.eqb (gid g) (gid g') then g' else g) l.

Definition set_folders (s : fsys) (l d : list folder) : fsys :=
  {| folders := l; dfolders := d; next := next s; ncreate := ncreate s; ndelete := ndelete s |}.
Definition bump_next (s : fsys) : fsys :=
  {| folders := folders s; dfolders := dfolders s; next := S (next s); ncreate := ncreate s; ndelete := ndelete s |}.
Definition add_create (s : fsys) : fsys :=
  {| folders := folders s; dfolders := dfolders s; next := next s; ncreate := ncreate s + 1; ndelete := ndelete s |}.
Definition add_delete (s : fsys) : fsys :=
  {| folders := folders s; dfolders := dfolders s; next := next s; ncreate := ncreate s; ndelete := ndelete s + 1 |}.

Definition ROOT : Z := 0.
Definition default_rdur : Z := 3.

Definition new_folder (s : fsys) (n : Z) : folder :=
  {| gid := next s; gname := n; gdel := false; live := []; dead := []; rcd := 0; rdur := default_rdur |}.

(* FileSystem.create_folder *)
Definition create_folder (s : fsys) (n : Z) : fsys :=
  match find_folder n (folders s) with
  | Some _ => s
  | None => bump_next (set_folders s (folders s ++ [new_folder s n]) (dfolders s))
  end.

Inductive status := Success | Failure | Unreachable.
Definition status_to_Z (x : status) : Z := match x with Success => 1 | Failure => 2 | Unreachable => 3 end.

Inductive op :=
  | CreateFolder (n : Z)                       (* file_system create folder n *)
  | CreateFile (g n : Z) (force : bool)        (* file_system create file g n force *)
  | DeleteFile (g n : Z)                       (* file_system delete file g n *)
  | DeleteFolder (g : Z)                       (* file_system delete folder g *)
  | RestoreFile (g n : Z)                      (* file_system restore file g n *)
  | RestoreFolder (g : Z)                      (* file_system restore folder g *)
  | FolderRestore (g : Z)                      (* file_system folder g restore  (the node-folder-restore action) *)
  | FolderDeleteFile (g n : Z)                 (* file_system folder g delete n *)
  | Tick                                       (* apply_timestep of this tick, then pre_timestep of the next *)
  | TickOff.                                   (* the same while the node is not ON: nothing progresses, the per-tick counters restart *)

Definition step (s : fsys) (o : op) : fsys * status :=
  match o with
  | CreateFolder n => (create_folder s n, Success)
  | CreateFile gn n force =>
      (* request handler: an existing live file is refused unless force is True *)
      let exists_ := match find_folder gn (folders s) with
                     | Some g => match find_name n (live g) with Some _ => true | None => false end
                     | None => false end in
      if negb force && exists_ then (s, Failure)
      else
        let s1 := create_folder s gn in
        match find_folder gn (folders s1) with
        | Some g => let '(g', fresh) := g_create g n (next s1) in
                    let s2 := set_folders s1 (replace_g g' (folders s1)) (dfolders s1) in
                    (add_create (if fresh then bump_next s2 else s2), Success)
        | None => (s1, Failure)      (* not reachable: create_folder made it *)
        end
  | DeleteFile gn n =>
      match find_folder gn (folders s) with
      | Some g => match find_name n (live g) with
                  | Some _ => let '(g', _) := g_delete g n in
                              (add_delete (set_folders s (replace_g g' (folders s)) (dfolders s)), Success)
                  | None => (s, Failure)          (* _FileExistsValidator *)
                  end
      | None => (s, Failure)
      end
  | DeleteFolder gn =>
      match find_folder gn (folders s) with
      | Some g => if gn =? ROOT then (s, Failure)
                  else (set_folders s (remove_gid (gid g) (folders s)) (dfolders s ++ [g_remove_all (set_gdel g true)]), Success)
      | None => (s, Failure)                      (* _FolderExistsValidator *)
      end
  | RestoreFile gn n =>
      match find_folder gn (folders s) with
      | Some g => let '(g', ok) := g_restore g n in
                  (set_folders s (replace_g g' (folders s)) (dfolders s), if ok then Success else Failure)
      | None => (s, Failure)
      end
  | RestoreFolder gn =>
      match find_folder gn (folders s) with
      | Some g => (set_folders s (replace_g (g_start_restore g) (folders s)) (dfolders s), Success)
      | None => match find_folder gn (dfolders s) with
                | Some g => (set_folders s (folders s ++ [g_start_restore g]) (remove_gid (gid g) (dfolders s)), Success)
                | None => (s, Failure)
                end
      end
  | FolderRestore gn =>
      match find_folder gn (folders s) with
      | Some g => (set_folders s (replace_g (g_start_restore g) (folders s)) (dfolders s), Success)
      | None => (s, Failure)                      (* folder exists / not deleted validators *)
      end
  | FolderDeleteFile gn n =>
      match find_folder gn (folders s) with
      | Some g => let '(g', ok) := g_delete g n in
                  (set_folders s (replace_g g' (folders s)) (dfolders s), if ok then Success else Failure)
      | None => (s, Failure)
      end
  | Tick =>
      let s1 := set_folders s (map g_restore_tick (folders s)) (dfolders s) in
      ({| folders := folders s1; dfolders := dfolders s1; next := next s1; ncreate := 0; ndelete := 0 |}, Success)
  | TickOff => ({| folders := folders s; dfolders := dfolders s; next := next s; ncreate := 0; ndelete := 0 |}, Success)
  end.

Definition init : fsys :=
  {| folders := [{| gid := O; gname := ROOT; gdel := false; live := []; dead := []; rcd := 0; rdur := default_rdur |}];
     dfolders := []; next := 1%nat; ncreate := 0; ndelete := 0 |}.

Definition run (s : fsys) (ops : list op) : fsys := fold_left (fun x o => fst (step x o)) ops s.

(* ---- driver for the correspondence check ------------------------------------------------------------------------ *)
Definition obs_files (l : list file) : list Z := flat_map (fun f => [fname f; b2z (fdel f)]) l.
Definition obs_folder (g : folder) : list Z :=
  [-10; gname g; b2z (gdel g); -11] ++ obs_files (live g) ++ [-12] ++ obs_files (dead g).
Definition obs (s : fsys) : list Z :=
  flat_map obs_folder (folders s) ++ [-20] ++ flat_map obs_folder (dfolders s) ++ [-30; ncreate s; ndelete s].
Fixpoint trace (s : fsys) (ops : list op) : list Z :=
  match ops with [] => [] | o :: t => let '(s', st) := step s o in (status_to_Z st :: obs s') ++ trace s' t end.
Definition run_case (ops : list op) : list Z := trace init ops.
