(* Model of the lifecycle and health logic of one piece of software on a node:
   primaite/simulator/system/software.py (Software.scan/fix/_update_fix_status/apply_timestep/set_health_state),
   services/service.py (start/stop/pause/resume/restart/disable/enable/apply_timestep and the request validators),
   applications/application.py (run/close/install/apply_timestep and the request validators), and the node hooks
   (_start_up_actions/_shut_down_actions, the whole-node scan).  `ghost` records the true health at the last scan. *)
From Coq Require Import ZArith List Bool.
Import ListNotations.
From PV Require Import Base.Cases.
Open Scope Z_scope.

Inductive sstate := S_RUNNING | S_STOPPED | S_PAUSED | S_DISABLED | S_INSTALLING | S_RESTARTING.
Inductive astate := A_RUNNING | A_CLOSED | A_INSTALLING.
Inductive health := UNUSED | GOOD | FIXING | COMPROMISED | OVERWHELMED.
Definition sstate_to_Z s := match s with S_RUNNING => 1 | S_STOPPED => 2 | S_PAUSED => 3 | S_DISABLED => 4 | S_INSTALLING => 5 | S_RESTARTING => 6 end.
Definition astate_to_Z s := match s with A_RUNNING => 1 | A_CLOSED => 2 | A_INSTALLING => 3 end.
Definition health_to_Z h := match h with UNUSED => 0 | GOOD => 1 | FIXING => 2 | COMPROMISED => 3 | OVERWHELMED => 4 end.
Definition sstate_of_Z z := match z with 1 => S_RUNNING | 2 => S_STOPPED | 3 => S_PAUSED | 4 => S_DISABLED | 5 => S_INSTALLING | _ => S_RESTARTING end.
Definition astate_of_Z z := match z with 1 => A_RUNNING | 2 => A_CLOSED | _ => A_INSTALLING end.
Definition health_of_Z z := match z with 0 => UNUSED | 1 => GOOD | 2 => FIXING | 3 => COMPROMISED | _ => OVERWHELMED end.
Definition sstate_eqb a b := Z.eqb (sstate_to_Z a) (sstate_to_Z b).
Definition astate_eqb a b := Z.eqb (astate_to_Z a) (astate_to_Z b).
Definition health_eqb a b := Z.eqb (health_to_Z a) (health_to_Z b).

(* the part common to services and applications (Software) *)
Record hstate := { ha : health; hv : health; fcd : Z; fdur : Z; ghost : health }.
Definition set_ha (h : hstate) (x : health) := {| ha := x; hv := hv h; fcd := fcd h; fdur := fdur h; ghost := ghost h |}.

Definition h_scan (h : hstate) : hstate := {| ha := ha h; hv := ha h; fcd := fcd h; fdur := fdur h; ghost := ha h |}.
(* Software.fix: only from COMPROMISED or GOOD *)
Definition h_fix (h : hstate) : hstate * bool :=
  if health_eqb (ha h) COMPROMISED || health_eqb (ha h) GOOD
  then ({| ha := FIXING; hv := hv h; fcd := fdur h; fdur := fdur h; ghost := ghost h |}, true)
  else (h, false).
(* Software.apply_timestep *)
Definition h_tick (h : hstate) : hstate :=
  if health_eqb (ha h) FIXING then
    let c := fcd h - 1 in
    if c <=? 0 then {| ha := GOOD; hv := hv h; fcd := -1; fdur := fdur h; ghost := ghost h |}
    else {| ha := ha h; hv := hv h; fcd := c; fdur := fdur h; ghost := ghost h |}
  else h.
Definition h_used (h : hstate) : hstate := if health_eqb (ha h) UNUSED then set_ha h GOOD else h.

Record svc := { so : sstate; rcd : Z; rdur : Z; sh : hstate }.
Record app := { ao : astate; icd : Z; idur : Z; ah : hstate }.
Definition set_so (s : svc) (x : sstate) := {| so := x; rcd := rcd s; rdur := rdur s; sh := sh s |}.
Definition set_sh (s : svc) (h : hstate) := {| so := so s; rcd := rcd s; rdur := rdur s; sh := h |}.
Definition set_ao (a : app) (x : astate) := {| ao := x; icd := icd a; idur := idur a; ah := ah a |}.
Definition set_ah (a : app) (h : hstate) := {| ao := ao a; icd := icd a; idur := idur a; ah := h |}.

Inductive verb := Start | Stop | Pause | Resume | Restart | Disable | Enable | Fix | Scan | Compromise   (* services *)
                | Close | Execute.                                                                       (* applications *)
Inductive op := Req (v : verb) | Tick | NodeOff | NodeOn | NodeScanDone | Install
              | NodeScanTick.   (* a whole-node scan of duration 1: it completes in the next tick, before the software ticks *)

(* the state validator on each service request (None: no rule) *)
Definition svc_source (v : verb) : option (list sstate) :=
  match v with
  | Start => Some [S_STOPPED] | Stop => Some [S_RUNNING] | Pause => Some [S_RUNNING] | Resume => Some [S_PAUSED]
  | Restart => Some [S_RUNNING] | Disable => None | Enable => Some [S_DISABLED] | Fix => Some [S_RUNNING]
  | Scan => Some [S_RUNNING] | Compromise => None | Close => Some [] | Execute => Some []
  end.
Definition svc_guard (s : svc) (v : verb) : bool :=
  match svc_source v with None => true | Some l => existsb (sstate_eqb (so s)) l end.

(* the operation behind each request; bool = the handler's own answer *)
Definition svc_do (s : svc) (v : verb) : svc * bool :=
  match v with
  | Start => if sstate_eqb (so s) S_STOPPED then (set_sh (set_so s S_RUNNING) (h_used (sh s)), true) else (s, false)
  | Stop => if sstate_eqb (so s) S_RUNNING || sstate_eqb (so s) S_PAUSED then (set_so s S_STOPPED, true) else (s, false)
  | Pause => if sstate_eqb (so s) S_RUNNING then (set_so s S_PAUSED, true) else (s, false)
  | Resume => if sstate_eqb (so s) S_PAUSED then (set_so s S_RUNNING, true) else (s, false)
  | Restart => if sstate_eqb (so s) S_RUNNING || sstate_eqb (so s) S_PAUSED
               then ({| so := S_RESTARTING; rcd := rdur s; rdur := rdur s; sh := sh s |}, true) else (s, false)
  | Disable => (set_so s S_DISABLED, true)
  | Enable => if sstate_eqb (so s) S_DISABLED then (set_so s S_STOPPED, true) else (s, false)
  | Fix => let '(h, b) := h_fix (sh s) in (set_sh s h, b)
  | Scan => (set_sh s (h_scan (sh s)), true)
  | Compromise => (set_sh s (set_ha (sh s) COMPROMISED), true)
  | Close | Execute => (s, false)
  end.

(* Service.apply_timestep, run by the node only while it is ON *)
Definition svc_tick (s : svc) : svc :=
  let s1 := set_sh s (h_tick (sh s)) in
  if sstate_eqb (so s1) S_RESTARTING then
    let s2 := if rcd s1 <=? 0 then set_so s1 S_RUNNING else s1 in
    {| so := so s2; rcd := rcd s2 - 1; rdur := rdur s2; sh := sh s2 |}
  else s1.

(* status: 1 success, 2 failure (refused by a rule, or the handler said no) *)
Definition svc_step (st : bool * svc) (o : op) : (bool * svc) * Z :=
  let '(on, s) := st in
  match o with
  | Req v => if on && svc_guard s v then let '(s', b) := svc_do s v in ((on, s'), if b then 1 else 2) else ((on, s), 2)
  | Tick => ((on, if on then svc_tick s else s), 1)
  | NodeOff => (if on then (false, fst (svc_do s Stop)) else (on, s), 1)     (* shutdown request (refused unless ON): _shut_down_actions *)
  | NodeOn => (if on then (on, s) else (true, fst (svc_do s Start)), 1)      (* startup request (refused unless OFF): _start_up_actions *)
  | NodeScanDone => ((on, if on then set_sh s (h_scan (sh s)) else s), 1)
  | Install => ((on, s), 2)
  | NodeScanTick => ((on, if on then svc_tick (set_sh s (h_scan (sh s))) else s), 1)
  end.

Definition app_guard (a : app) (v : verb) : bool :=
  match v with
  | Scan | Close | Fix => astate_eqb (ao a) A_RUNNING
  | Compromise | Execute => true
  | _ => false
  end.
Definition app_run (a : app) : app := if astate_eqb (ao a) A_CLOSED then set_ah (set_ao a A_RUNNING) (h_used (ah a)) else a.
Definition app_do (a : app) (v : verb) : app * bool :=
  match v with
  | Close => (if astate_eqb (ao a) A_RUNNING then set_ao a A_CLOSED else a, true)
  | Fix => let '(h, b) := h_fix (ah a) in (set_ah a h, b)
  | Scan => (set_ah a (h_scan (ah a)), true)
  | Compromise => (set_ah a (set_ha (ah a) COMPROMISED), true)
  | Execute => (app_run a, true)        (* only the state change of run(); what the application then does is its own *)
  | _ => (a, false)
  end.
(* Application.apply_timestep *)
Definition app_tick (a : app) : app :=
  let a1 := set_ah a (h_tick (ah a)) in
  if astate_eqb (ao a1) A_INSTALLING then
    let c := icd a1 - 1 in
    if c <=? 0 then {| ao := A_RUNNING; icd := -1; idur := idur a1;
                       ah := {| ha := GOOD; hv := hv (ah a1); fcd := fcd (ah a1); fdur := fdur (ah a1); ghost := ghost (ah a1) |} |}
    else {| ao := ao a1; icd := c; idur := idur a1; ah := ah a1 |}
  else a1.
Definition app_step (st : bool * app) (o : op) : (bool * app) * Z :=
  let '(on, a) := st in
  match o with
  | Req v => if on && app_guard a v then let '(a', b) := app_do a v in ((on, a'), if b then 1 else 2) else ((on, a), 2)
  | Tick => ((on, if on then app_tick a else a), 1)
  | NodeOff => (if on then (false, fst (app_do a Close)) else (on, a), 1)
  | NodeOn => (if on then (on, a) else (true, app_run a), 1)
  | NodeScanDone => ((on, if on then set_ah a (h_scan (ah a)) else a), 1)
  | Install => ((on, if astate_eqb (ao a) A_CLOSED then {| ao := A_INSTALLING; icd := idur a; idur := idur a; ah := ah a |} else a), 1)
  | NodeScanTick => ((on, if on then app_tick (set_ah a (h_scan (ah a))) else a), 1)
  end.

(* ---- drivers --------------------------------------------------------------------------------------------------- *)
Definition mk_h (a v : Z) (fd : Z) : hstate := {| ha := health_of_Z a; hv := health_of_Z v; fcd := -1; fdur := fd; ghost := health_of_Z v |}.
Fixpoint svc_trace (st : bool * svc) (ops : list op) : list Z :=
  match ops with [] => [] | o :: t =>
    let '(st', r) := svc_step st o in
    [r; sstate_to_Z (so (snd st')); health_to_Z (ha (sh (snd st'))); health_to_Z (hv (sh (snd st')))] ++ svc_trace st' t end.
Fixpoint app_trace (st : bool * app) (ops : list op) : list Z :=
  match ops with [] => [] | o :: t =>
    let '(st', r) := app_step st o in
    [r; astate_to_Z (ao (snd st')); health_to_Z (ha (ah (snd st'))); health_to_Z (hv (ah (snd st')))] ++ app_trace st' t end.
(* case: (is_service, operating state, health actual, health visible, restart/install duration, fixing duration, ops) *)
Definition run_case (c : bool * Z * Z * Z * Z * Z * list op) : list Z :=
  let '(is_svc, o, a, v, d, fd, ops) := c in
  if is_svc then svc_trace (true, {| so := sstate_of_Z o; rcd := 0; rdur := d; sh := mk_h a v fd |}) ops
  else app_trace (true, {| ao := astate_of_Z o; icd := 0; idur := d; ah := mk_h a v fd |}) ops.
