(* Model of the account and session logic of primaite/simulator/network/hardware/base.py:
   UserManager.add_user / authenticate_user / change_user_password / disable_user,
   UserSessionManager._login / _logout / _logout_user / pre_timestep / _timeout_session / validate_remote_session_uuid,
   and the server-side gate of terminal.py for remote commands (a command runs iff its connection id is a live remote
   session; running it refreshes the session's last-active step). *)
From Coq Require Import ZArith List Bool.
Import ListNotations.
From PV Require Import Base.Cases.
Open Scope Z_scope.

Record user := { uname : Z; upw : Z; uadmin : bool; udis : bool }.
(* sconn: the terminal holds a connection for this session (false for a session opened through the
   user-session-manager's own remote_login request, which no terminal command can use) *)
Record sess := { sid : nat; suser : Z; slast : Z; sconn : bool }.
Record st := { users : list user; loc : option sess; rem : list sess; nxt : nat; now : Z; on : bool;
               maxrem : Z; tmo_l : Z; tmo_r : Z }.

Definition upd_users (s : st) (l : list user) := {| users := l; loc := loc s; rem := rem s; nxt := nxt s; now := now s; on := on s; maxrem := maxrem s; tmo_l := tmo_l s; tmo_r := tmo_r s |}.
Definition upd_sess (s : st) (l : option sess) (r : list sess) := {| users := users s; loc := l; rem := r; nxt := nxt s; now := now s; on := on s; maxrem := maxrem s; tmo_l := tmo_l s; tmo_r := tmo_r s |}.
Definition bump (s : st) := {| users := users s; loc := loc s; rem := rem s; nxt := S (nxt s); now := now s; on := on s; maxrem := maxrem s; tmo_l := tmo_l s; tmo_r := tmo_r s |}.
Definition set_now (s : st) (t : Z) := {| users := users s; loc := loc s; rem := rem s; nxt := nxt s; now := t; on := on s; maxrem := maxrem s; tmo_l := tmo_l s; tmo_r := tmo_r s |}.
Definition set_on (s : st) (b : bool) := {| users := users s; loc := loc s; rem := rem s; nxt := nxt s; now := now s; on := b; maxrem := maxrem s; tmo_l := tmo_l s; tmo_r := tmo_r s |}.

Definition find_user (n : Z) (l : list user) : option user := find (fun u => uname u =? n) l.
Definition enabled_admins (l : list user) : list user := filter (fun u => uadmin u && negb (udis u)) l.

(* UserManager.authenticate_user *)
Definition auth (s : st) (n p : Z) : bool :=
  on s && match find_user n (users s) with Some u => negb (udis u) && (upw u =? p) | None => false end.

Definition map_user (n : Z) (f : user -> user) (l : list user) : list user := map (fun u => if uname u =? n then f u else u) l.

(* UserSessionManager._logout_user: every session of that user, remote and local *)
Definition logout_user (s : st) (n : Z) : st :=
  upd_sess s (match loc s with Some x => if suser x =? n then None else Some x | None => None end)
           (filter (fun x => negb (suser x =? n)) (rem s)).

Inductive op := AddUser (n p : Z) (admin : bool) | DisableUser (n : Z) | ChangePw (n cur new : Z)
              | LocalLogin (n p : Z) | RemoteLogin (n p : Z) | RemoteLoginDirect (n p : Z) | LocalLogout | RemoteLogout (i : nat) | Command (i : nat)
              | Tick (t : Z) | PowerOff | PowerOn.

Definition step (s : st) (o : op) : st * bool :=
  match o with
  | AddUser n p a =>
      if on s && negb (match find_user n (users s) with Some _ => true | None => false end)
      then (upd_users s (users s ++ [{| uname := n; upw := p; uadmin := a; udis := false |}]), true) else (s, false)
  | DisableUser n =>
      match find_user n (users s) with
      | Some u => if on s && negb (udis u) &&
                     negb (uadmin u && (Z.of_nat (length (enabled_admins (users s))) =? 1))     (* the last enabled admin stays *)
                  then (upd_users s (map_user n (fun u => {| uname := uname u; upw := upw u; uadmin := uadmin u; udis := true |}) (users s)), true)
                  else (s, false)
      | None => (s, false)
      end
  | ChangePw n cur new =>
      match find_user n (users s) with
      | Some u => if on s && (upw u =? cur)
                  then (logout_user (upd_users s (map_user n (fun u => {| uname := uname u; upw := new; uadmin := uadmin u; udis := udis u |}) (users s))) n, true)
                  else (s, false)
      | None => (s, false)
      end
  | LocalLogin n p =>
      if auth s n p then
        match loc s with
        | Some x => if suser x =? n then (s, true)                                         (* same user: keep the session *)
                    else (bump (upd_sess s (Some {| sid := nxt s; suser := n; slast := now s; sconn := false |}) (rem s)), true)
        | None => (bump (upd_sess s (Some {| sid := nxt s; suser := n; slast := now s; sconn := false |}) (rem s)), true)
        end
      else (s, false)
  | RemoteLogin n p =>
      if auth s n p && (Z.of_nat (length (rem s)) <? maxrem s)
      then (bump (upd_sess s (loc s) (rem s ++ [{| sid := nxt s; suser := n; slast := now s; sconn := true |}])), true)
      else (s, false)
  | RemoteLoginDirect n p =>
      if auth s n p && (Z.of_nat (length (rem s)) <? maxrem s)
      then (bump (upd_sess s (loc s) (rem s ++ [{| sid := nxt s; suser := n; slast := now s; sconn := false |}])), true)
      else (s, false)
  | LocalLogout => if on s then match loc s with Some _ => (upd_sess s None (rem s), true) | None => (s, false) end else (s, false)
  | RemoteLogout i =>
      if on s && existsb (fun x => Nat.eqb (sid x) i) (rem s)
      then (upd_sess s (loc s) (filter (fun x => negb (Nat.eqb (sid x) i)) (rem s)), true) else (s, false)
  | Command i =>
      (* the terminal must be able to act (node on) and the connection id must be a live remote session *)
      if on s && existsb (fun x => Nat.eqb (sid x) i && sconn x) (rem s)
      then (upd_sess s (loc s) (map (fun x => if Nat.eqb (sid x) i then {| sid := sid x; suser := suser x; slast := now s; sconn := sconn x |} else x) (rem s)), true)
      else (s, false)
  | Tick t =>
      (* pre_timestep(t): sessions idle for the time-out are ended *)
      let s1 := set_now s t in
      (upd_sess s1 (match loc s1 with Some x => if slast x + tmo_l s1 <=? t then None else Some x | None => None end)
               (filter (fun x => negb (slast x + tmo_r s1 <=? t)) (rem s1)), true)
  | PowerOff => (set_on s false, true)
  | PowerOn => (set_on s true, true)
  end.

Definition run (s : st) (ops : list op) : st := fold_left (fun x o => fst (step x o)) ops s.

Definition init (maxr tl tr : Z) : st :=
  {| users := [{| uname := 0; upw := 0; uadmin := true; udis := false |}]; loc := None; rem := []; nxt := O; now := 0; on := true;
     maxrem := maxr; tmo_l := tl; tmo_r := tr |}.

(* ---- driver ------------------------------------------------------------------------------------------------------ *)
Definition obs (s : st) : list Z :=
  flat_map (fun u => [uname u; upw u; b2z (uadmin u); b2z (udis u)]) (users s) ++ [-1; match loc s with Some x => suser x | None => -1 end; -2] ++
  flat_map (fun x => [Z.of_nat (sid x); suser x]) (rem s).
Fixpoint trace (s : st) (ops : list op) : list Z :=
  match ops with [] => [] | o :: t => let '(s', b) := step s o in (b2z b :: obs s') ++ [-9] ++ trace s' t end.
Definition run_case (c : Z * Z * Z * list op) : list Z := let '(m, tl, tr, ops) := c in trace (init m tl tr) ops.
