(* Helpers for the correspondence check: the harness writes a cases.v holding (input, expected) pairs
   observed on the implementation; the model's executable definition is evaluated on the same inputs. *)
From Coq Require Import ZArith List Bool.
Import ListNotations.
Open Scope Z_scope.

Fixpoint list_Z_eqb (a b : list Z) : bool :=
  match a, b with
  | [], [] => true
  | x :: a', y :: b' => Z.eqb x y && list_Z_eqb a' b'
  | _, _ => false
  end.

Fixpoint mismatches_from {I} (f : I -> list Z) (cs : list (I * list Z)) (k : N) : list N :=
  match cs with
  | [] => []
  | (i, o) :: t => if list_Z_eqb (f i) o then mismatches_from f t (N.succ k)
                   else k :: mismatches_from f t (N.succ k)
  end.
Definition mismatches {I} (f : I -> list Z) (cs : list (I * list Z)) : list N := mismatches_from f cs 0%N.

Definition outputs_at {I} (f : I -> list Z) (cs : list (I * list Z)) (idx : list N) : list (list Z) :=
  map (fun i => match nth_error cs (N.to_nat i) with Some (x, _) => f x | None => [] end) idx.

Definition b2z (b : bool) : Z := if b then 1 else 0.
Definition oz (o : option Z) : Z := match o with Some v => v | None => -1 end.
