From Coq Require Import ZArith List Bool Lia ZifyBool.
Import ListNotations.
From PV Require Import Model.Session.
Open Scope Z_scope.

Lemma find_user_some n l u : find_user n l = Some u -> In u l /\ uname u = n.
Proof. unfold find_user. intro H. apply find_some in H. destruct H as [H E]. split; auto. lia. Qed.

(* what a successful authentication means *)
Theorem auth_spec s n p : auth s n p = true ->
  on s = true /\ exists u, In u (users s) /\ uname u = n /\ udis u = false /\ upw u = p.
Proof.
  unfold auth. intros H. apply andb_true_iff in H. destruct H as [Ho H]. split; auto.
  destruct (find_user n (users s)) as [u|] eqn:E; [|discriminate].
  apply find_user_some in E. destruct E as [Hi Hn]. apply andb_true_iff in H. destruct H as [Hd Hp].
  exists u. repeat split; auto. { destruct (udis u); auto; discriminate. } lia.
Qed.

(* a login succeeds only with the current password of an existing, enabled account on a powered-on node and, for remote
   logins, while fewer than the maximum number of remote sessions are open *)
Theorem login_sound s o s' : step s o = (s', true) ->
  match o with
  | LocalLogin n p => auth s n p = true
  | RemoteLogin n p | RemoteLoginDirect n p => auth s n p = true /\ Z.of_nat (length (rem s)) < maxrem s
  | _ => True
  end.
Proof.
  destruct o; cbn; auto.
  - destruct (auth s n p); auto. intros H; inversion H.
  - destruct (auth s n p) eqn:A; cbn; [|intros H; inversion H].
    destruct (Z.of_nat (length (rem s)) <? maxrem s) eqn:L; [|intros H; inversion H]. intros _. split; auto. lia.
  - destruct (auth s n p) eqn:A; cbn; [|intros H; inversion H].
    destruct (Z.of_nat (length (rem s)) <? maxrem s) eqn:L; [|intros H; inversion H]. intros _. split; auto. lia.
Qed.

(* the number of remote sessions never exceeds the maximum, in every reachable state *)
Definition lim (s : st) : Prop := Z.of_nat (length (rem s)) <= maxrem s.

Lemma filter_length_le {A} (f : A -> bool) l : (length (filter f l) <= length l)%nat.
Proof. induction l; cbn; auto. destruct (f a); cbn; lia. Qed.

Lemma step_fields s o : maxrem (fst (step s o)) = maxrem s /\ tmo_r (fst (step s o)) = tmo_r s /\ tmo_l (fst (step s o)) = tmo_l s.
Proof.
  destruct o; cbn; repeat match goal with |- context [if ?b then _ else _] => destruct b end;
  repeat match goal with |- context [match ?x with _ => _ end] => destruct x end; cbn; auto.
Qed.

Theorem step_lim s o : lim s -> lim (fst (step s o)).
Proof.
  unfold lim. intros H. destruct o; cbn.
  - destruct (on s && _); cbn; auto.
  - destruct (find_user n (users s)); cbn; auto. destruct (on s && _ && _); cbn; auto.
  - destruct (find_user n (users s)); cbn; auto. destruct (on s && _); cbn; auto.
    pose proof (filter_length_le (fun x => negb (suser x =? n)) (rem s)). lia.
  - destruct (auth s n p); cbn; auto. destruct (loc s); cbn; auto. destruct (suser s0 =? n); cbn; auto.
  - destruct (auth s n p && (Z.of_nat (length (rem s)) <? maxrem s)) eqn:E; cbn; auto. rewrite app_length. cbn. lia.
  - destruct (auth s n p && (Z.of_nat (length (rem s)) <? maxrem s)) eqn:E; cbn; auto. rewrite app_length. cbn. lia.
  - destruct (on s); cbn; auto. destruct (loc s); cbn; auto.
  - destruct (on s && _); cbn; auto. pose proof (filter_length_le (fun x => negb (Nat.eqb (sid x) i)) (rem s)). lia.
  - destruct (on s && _); cbn; auto. rewrite map_length. auto.
  - pose proof (filter_length_le (fun x => negb (slast x + tmo_r s <=? t)) (rem s)). lia.
  - auto.
  - auto.
Qed.

Theorem lim_reachable m tl tr ops : 0 <= m -> lim (run (init m tl tr) ops).
Proof.
  intros Hm. unfold run. assert (H : lim (init m tl tr)) by (unfold lim; cbn; lia). revert H. generalize (init m tl tr).
  induction ops as [|o ops IH]; cbn; intros s H; auto. apply IH. apply step_lim; auto.
Qed.

(* a remote command runs on the target only while its session is live (and the terminal holds its connection) and the
   node is on; a refused command changes nothing *)
Theorem command_requires_live_session s i :
  (snd (step s (Command i)) = true -> on s = true /\ exists x, In x (rem s) /\ sid x = i /\ sconn x = true) /\
  (snd (step s (Command i)) = false -> fst (step s (Command i)) = s).
Proof.
  cbn. destruct (on s && existsb (fun x => Nat.eqb (sid x) i && sconn x) (rem s)) eqn:E; cbn; split; auto; try discriminate.
  intros _. apply andb_true_iff in E. destruct E as [Ho E]. split; auto.
  apply existsb_exists in E. destruct E as (x & Hx & Hb). apply andb_true_iff in Hb. destruct Hb as [Hb Hc].
  exists x. repeat split; auto. apply Nat.eqb_eq; auto.
Qed.

(* ending a session ends the ability to run commands on it *)
Definition has_session (s : st) (i : nat) : Prop := exists x, In x (rem s) /\ sid x = i.

Theorem logout_ends_session s i : snd (step s (RemoteLogout i)) = true -> ~ has_session (fst (step s (RemoteLogout i))) i.
Proof.
  cbn. destruct (on s && _); cbn; [|discriminate]. intros _ (x & Hx & Hi). apply filter_In in Hx. destruct Hx as [_ Hx].
  subst i. rewrite Nat.eqb_refl in Hx. discriminate.
Qed.

Theorem password_change_ends_sessions s n c new : snd (step s (ChangePw n c new)) = true ->
  let s' := fst (step s (ChangePw n c new)) in
  (forall x, In x (rem s') -> suser x <> n) /\ (forall x, loc s' = Some x -> suser x <> n).
Proof.
  cbn. destruct (find_user n (users s)); cbn; [|discriminate]. destruct (on s && _); cbn; [|discriminate]. intros _. split.
  - intros x Hx. apply filter_In in Hx. destruct Hx as [_ Hx]. lia.
  - intros x. destruct (loc s) as [y|]; [|discriminate]. destruct (suser y =? n) eqn:E; [discriminate|]. intros H; inversion H; subst. lia.
Qed.

Theorem timeout_ends_sessions s t :
  let s' := fst (step s (Tick t)) in
  (forall x, In x (rem s') -> t < slast x + tmo_r s) /\ (forall x, loc s' = Some x -> t < slast x + tmo_l s) /\
  (forall x, In x (rem s) -> t < slast x + tmo_r s -> In x (rem s')).
Proof.
  cbn. split; [|split].
  - intros x Hx. apply filter_In in Hx. destruct Hx as [_ Hx]. lia.
  - intros x. destruct (loc s) as [y|]; [|discriminate]. destruct (slast y + tmo_l s <=? t) eqn:E; [discriminate|]. intros H; inversion H; subst. lia.
  - intros x Hx Ht. apply filter_In. split; auto. lia.
Qed.

(* ---- the last enabled administrator can never be disabled ------------------------------------------------------- *)
Arguments map_user : simpl never.
Definition cnt (l : list user) : nat := length (enabled_admins l).
Definition names (l : list user) := map uname l.

Lemma map_user_cons n f u l : map_user n f (u :: l) = (if uname u =? n then f u else u) :: map_user n f l.
Proof. reflexivity. Qed.

Lemma map_user_absent n f l : ~ In n (names l) -> map_user n f l = l.
Proof.
  induction l as [|u l IH]; intros H; auto. rewrite map_user_cons. cbn in H. destruct (uname u =? n) eqn:E.
  - exfalso. apply H. left. lia.
  - f_equal. apply IH. intro C. apply H. right; auto.
Qed.

Lemma names_map_user n f l : (forall u, uname (f u) = uname u) -> names (map_user n f l) = names l.
Proof. intros Hf. unfold names, map_user. rewrite map_map. apply map_ext. intros u. destruct (uname u =? n); auto. Qed.

Lemma cnt_disable n l : NoDup (names l) ->
  (cnt l <= S (cnt (map_user n (fun u => {| uname := uname u; upw := upw u; uadmin := uadmin u; udis := true |}) l)))%nat.
Proof.
  induction l as [|u l IH]; intros H; [cbn; lia|]. cbn in H. inversion H; subst. rewrite map_user_cons. destruct (uname u =? n) eqn:E.
  - rewrite map_user_absent; [|replace n with (uname u) by lia; auto].
    unfold cnt, enabled_admins; cbn. rewrite andb_false_r. destruct (uadmin u && negb (udis u)); cbn; lia.
  - specialize (IH H3). unfold cnt, enabled_admins in *; cbn. destruct (uadmin u && negb (udis u)); cbn; lia.
Qed.

Lemma cnt_pw n new l : cnt (map_user n (fun u => {| uname := uname u; upw := new; uadmin := uadmin u; udis := udis u |}) l) = cnt l.
Proof. unfold cnt, enabled_admins. induction l as [|u l IH]; auto. rewrite map_user_cons. cbn. destruct (uname u =? n); cbn; destruct (uadmin u && negb (udis u)); cbn; lia. Qed.

Lemma NoDup_snoc {A} (l : list A) x : NoDup l -> ~ In x l -> NoDup (l ++ [x]).
Proof. intros H Hn. apply (NoDup_Add (a:=x) (l:=l)). { rewrite <- (app_nil_r l) at 1. apply Add_app. } auto. Qed.

Definition AInv (s : st) : Prop := NoDup (names (users s)) /\ (1 <= cnt (users s))%nat.

Theorem step_admin s o : AInv s -> AInv (fst (step s o)).
Proof.
  intros [Hn Hc]. destruct o; cbn; try (split; assumption).
  - destruct (on s && negb _) eqn:E; cbn; [|split; auto].
    apply andb_true_iff in E. destruct E as [_ E]. destruct (find_user n (users s)) eqn:F; [discriminate|].
    split; cbn.
    + unfold names in *. rewrite map_app. cbn. apply NoDup_snoc; auto.
      intro C. unfold find_user in F. apply in_map_iff in C. destruct C as (u & Hu & Hin).
      pose proof (find_none _ _ F u Hin) as Q. cbn in Q. lia.
    + unfold cnt, enabled_admins in *. rewrite filter_app, app_length. lia.
  - destruct (find_user n (users s)) as [u|] eqn:F; cbn; [|split; auto].
    destruct (on s && negb (udis u) && negb (uadmin u && (Z.of_nat (length (enabled_admins (users s))) =? 1))) eqn:E; cbn; [|split; auto].
    split; cbn.
    + rewrite names_map_user; auto.
    + pose proof (cnt_disable n (users s) Hn) as Q.
      apply andb_true_iff in E. destruct E as [E1 E2]. apply andb_true_iff in E1. destruct E1 as [_ Ed].
      destruct (uadmin u) eqn:Ua.
      * rewrite andb_true_l in E2. unfold cnt, enabled_admins in *. lia.
      * (* not an admin: the count of enabled admins does not change *)
        apply find_user_some in F. destruct F as [Hin Hnm].
        assert (R : cnt (map_user n (fun u0 => {| uname := uname u0; upw := upw u0; uadmin := uadmin u0; udis := true |}) (users s)) = cnt (users s)).
        { clear - Hn Hin Hnm Ua. subst n. unfold cnt. induction (users s) as [|v l IH]; auto. cbn in Hn. inversion Hn; subst.
          rewrite map_user_cons. cbn. destruct (uname v =? uname u) eqn:E.
          - assert (v = u). { destruct Hin as [->|Hin]; auto. exfalso. apply H1. apply in_map_iff. exists u. split; auto. lia. }
            subst v. rewrite Ua. cbn. rewrite (map_user_absent (uname u)); auto.
          - destruct Hin as [->|Hin]; [lia|]. specialize (IH H2 Hin). unfold enabled_admins in *. destruct (uadmin v && negb (udis v)); cbn; lia. }
        unfold cnt, enabled_admins in *. lia.
  - destruct (find_user n (users s)) as [u|] eqn:F; cbn; [|split; auto].
    destruct (on s && (upw u =? cur)); cbn; [|split; auto]. split; cbn.
    + rewrite names_map_user; auto.
    + pose proof (cnt_pw n new (users s)) as Q. unfold cnt, enabled_admins in *. lia.
  - destruct (auth s n p); cbn; [|split; auto]. destruct (loc s); cbn; [destruct (suser s0 =? n); cbn|]; split; auto.
  - destruct (auth s n p && _); cbn; split; auto.
  - destruct (auth s n p && _); cbn; split; auto.
  - destruct (on s); cbn; [destruct (loc s); cbn|]; split; auto.
  - destruct (on s && _); cbn; split; auto.
  - destruct (on s && _); cbn; split; auto.
Qed.

Theorem admin_reachable m tl tr ops : AInv (run (init m tl tr) ops).
Proof.
  unfold run. assert (H : AInv (init m tl tr)).
  { split; cbn; [constructor; [intros []|constructor]|unfold cnt; cbn; lia]. }
  revert H. generalize (init m tl tr). induction ops as [|o ops IH]; cbn; intros s H; auto. apply IH. apply step_admin; auto.
Qed.

Corollary last_admin_kept m tl tr ops : exists u, In u (users (run (init m tl tr) ops)) /\ uadmin u = true /\ udis u = false.
Proof.
  destruct (admin_reachable m tl tr ops) as [_ H]. unfold cnt, enabled_admins in H.
  destruct (filter (fun u => uadmin u && negb (udis u)) (users (run (init m tl tr) ops))) as [|u l] eqn:E; [cbn in H; lia|].
  assert (Hin : In u (filter (fun u => uadmin u && negb (udis u)) (users (run (init m tl tr) ops)))) by (rewrite E; left; auto).
  apply filter_In in Hin. destruct Hin as [Hi Hb]. apply andb_true_iff in Hb. destruct Hb as [Ha Hd].
  exists u. repeat split; auto. destruct (udis u); auto; discriminate.
Qed.
