(* Proofs about the episode bookkeeping (C01). *)
From Coq Require Import ZArith List Bool Lia.
Import ListNotations.
From PV Require Import Base.Cases Model.Episode.
Open Scope Z_scope.

Definition steps_only (rs : list Z) : list eop := map Step rs.

(* k steps after a reset (or on a fresh environment): tick k, every agent has exactly k history items, the total is the sum *)
Lemma run_steps : forall rs e,
  let e' := run e (steps_only rs) in
  e_tick e' = e_tick e + Z.of_nat (length rs) /\ e_max e' = e_max e /\ e_episode e' = e_episode e /\
  e_hist e' = map (fun h => h + Z.of_nat (length rs)) (e_hist e) /\ e_total e' = e_total e + fold_right Z.add 0 rs.
Proof.
  induction rs as [|r t IH]; intros e; cbn [steps_only map run fold_left length fold_right].
  - repeat split; try lia. rewrite <- (map_id (e_hist e)) at 1. apply map_ext. intros; lia.
  - specialize (IH (step e r)). cbn zeta in IH. unfold run, steps_only in *. cbn [app_op]. destruct IH as (A & B & C & D & E).
    rewrite A, B, C, D, E. cbn [step e_tick e_max e_episode e_hist e_total]. repeat split; try lia.
    rewrite map_map. apply map_ext. intros; lia.
Qed.

Theorem after_k_steps : forall rs e0,
  let e := run (reset e0) (steps_only rs) in
  e_tick e = Z.of_nat (length rs) /\ Forall (fun h => h = Z.of_nat (length rs)) (e_hist e) /\ e_total e = fold_right Z.add 0 rs /\
  length (e_hist e) = length (e_hist e0).
Proof.
  intros rs e0. pose proof (run_steps rs (reset e0)) as H. cbn zeta in H. destruct H as (A & _ & _ & D & E).
  cbn zeta. rewrite A, D, E. cbn [reset e_tick e_hist e_total]. repeat split; try lia.
  - apply Forall_forall. intros h Hin. apply in_map_iff in Hin. destruct Hin as (x & Hx & Hin).
    apply in_map_iff in Hin. destruct Hin as (y & Hy & _). lia.
  - rewrite !map_length. reflexivity.
Qed.

(* truncated is reported exactly when the number of steps taken in the episode has reached the configured maximum *)
Theorem truncated_exactly_at_max : forall rs e0, 0 < e_max e0 ->
  truncated (run (reset e0) (steps_only rs)) = true <-> e_max e0 <= Z.of_nat (length rs).
Proof.
  intros rs e0 Hm. pose proof (run_steps rs (reset e0)) as H. cbn zeta in H. destruct H as (A & B & _).
  unfold truncated. rewrite A, B. cbn [reset e_tick e_max]. rewrite Z.leb_le. lia.
Qed.
Corollary first_truncation_is_at_max : forall rs e0, 0 < e_max e0 -> (Z.of_nat (length rs) <= e_max e0) ->
  (truncated (run (reset e0) (steps_only rs)) = true <-> Z.of_nat (length rs) = e_max e0).
Proof. intros rs e0 Hm Hle. rewrite truncated_exactly_at_max by auto. lia. Qed.

(* a reset always yields a new episode at tick 0 with no accumulated reward or history, whatever came before *)
Theorem reset_starts_a_clean_episode : forall e0 ops,
  let e := reset (run e0 ops) in
  e_tick e = 0 /\ e_total e = 0 /\ Forall (fun h => h = 0) (e_hist e) /\ truncated e = (e_max e <=? 0) /\ e_episode e = e_episode (run e0 ops) + 1.
Proof.
  intros e0 ops. cbn zeta. cbn [reset e_tick e_total e_hist e_episode]. repeat split; auto.
  apply Forall_forall. intros h Hin. apply in_map_iff in Hin. destruct Hin as (x & Hx & _). auto.
Qed.

(* each step advances time by exactly one tick and records exactly one item per agent *)
Theorem step_advances_one_tick : forall e r,
  e_tick (step e r) = e_tick e + 1 /\ e_hist (step e r) = map (fun h => h + 1) (e_hist e) /\ e_episode (step e r) = e_episode e.
Proof. intros; cbn; auto. Qed.

(* the maximum and the number of agents never change *)
Lemma run_frame : forall ops e, e_max (run e ops) = e_max e /\ length (e_hist (run e ops)) = length (e_hist e).
Proof.
  induction ops as [|o t IH]; intros e; cbn [run fold_left]; auto. fold (run (app_op e o) t).
  destruct (IH (app_op e o)) as [A B]. rewrite A, B. destruct o; cbn; rewrite map_length; auto.
Qed.
