From Coq Require Import ZArith List Bool Lia ZifyBool.
Import ListNotations.
From PV Require Import Model.Obs.
Open Scope Z_scope.
Ltac Zify.zify_post_hook ::= Z.to_euclidean_division_equations.

(* ---- leaf bounds: for every count, every traffic value, every load ---------------------------------------------------- *)
Theorem categorise_in_Discrete4 lo me hi c : 0 <= categorise lo me hi c < 4.
Proof. unfold categorise. destruct (c >? hi), (c >? me), (c >? lo); lia. Qed.

Theorem categorise_monotone lo me hi c c' : lo <= me <= hi -> c <= c' -> categorise lo me hi c <= categorise lo me hi c'.
Proof. intros H Hc. unfold categorise. destruct (c >? hi) eqn:A, (c >? me) eqn:B, (c >? lo) eqn:C, (c' >? hi) eqn:A', (c' >? me) eqn:B', (c' >? lo) eqn:C'; lia. Qed.

Theorem categorise_edges lo me hi c : lo <= me <= hi ->
  (categorise lo me hi c = 0 <-> c <= lo) /\ (categorise lo me hi c = 1 <-> lo < c <= me) /\
  (categorise lo me hi c = 2 <-> me < c <= hi) /\ (categorise lo me hi c = 3 <-> hi < c).
Proof. intros H. unfold categorise. destruct (c >? hi) eqn:A, (c >? me) eqn:B, (c >? lo) eqn:C; lia. Qed.

Theorem traffic_band_in_Discrete11 t s : 0 <= t -> 0 < s -> 0 <= traffic_band t s < 11.
Proof. intros Ht Hs. unfold traffic_band. destruct (t =? 0); [lia|]. assert (0 <= t * 9 / s) by (apply Z.div_pos; lia). lia. Qed.

Theorem link_band_in_Discrete11 l b : 0 <= l -> 0 < b -> 0 <= link_band l b < 11.
Proof. intros Hl Hb. unfold link_band. destruct (l =? 0); [lia|]. assert (0 <= l * 9 / b) by (apply Z.div_pos; lia). lia. Qed.

Theorem link_band_zero_iff l b : 0 <= l -> 0 < b -> (link_band l b = 0 <-> l = 0).
Proof. intros Hl Hb. unfold link_band. destruct (l =? 0) eqn:E; [lia|]. assert (0 <= l * 9 / b) by (apply Z.div_pos; lia). lia. Qed.

Theorem clamp3_in_Discrete4 c : 0 <= c -> 0 <= clamp3 c < 4.
Proof. unfold clamp3. lia. Qed.

(* ---- components --------------------------------------------------------------------------------------------------------- *)
(* value ranges of the simulator's enums: ServiceOperatingState 1..6, ApplicationOperatingState 1..3, SoftwareHealthState 0..4,
   FileSystemItemHealthStatus 0..5, NodeOperatingState 1..4 *)
Definition svc_valid (s : svc_state) := 1 <= s_op s <= 6 /\ 0 <= s_actual s <= 4 /\ 0 <= s_visible s <= 4.
Definition app_valid (s : app_state) := 1 <= a_op s <= 3 /\ 0 <= a_actual s <= 4 /\ 0 <= a_visible s <= 4.
Definition file_valid (s : file_state) := 0 <= f_health s <= 5 /\ 0 <= f_visible s <= 5.

Lemma svc_in_space rs st : (forall s, st = Some s -> svc_valid s) -> contains svc_space (svc_observe rs st) = true.
Proof.
  destruct st as [s|]; intros H; [|reflexivity]. destruct (H s eq_refl) as (A & B & C).
  cbn. destruct rs; repeat (apply andb_true_intro; split); try reflexivity; lia.
Qed.

Lemma app_in_space rs lo me hi st : (forall s, st = Some s -> app_valid s) -> contains app_space (app_observe rs lo me hi st) = true.
Proof.
  destruct st as [s|]; intros H; [|reflexivity]. destruct (H s eq_refl) as (A & B & C).
  pose proof (categorise_in_Discrete4 lo me hi (a_execs s)).
  cbn. destruct rs; repeat (apply andb_true_intro; split); try reflexivity; lia.
Qed.

Lemma file_in_space rs wa lo me hi st : (forall s, st = Some s -> file_valid s) ->
  contains (file_space wa) (file_observe rs wa lo me hi st) = true.
Proof.
  destruct st as [s|]; intros H; [|destruct wa; reflexivity]. destruct (H s eq_refl) as (A & B).
  pose proof (categorise_in_Discrete4 lo me hi (f_access s)).
  destruct wa, rs; cbn; repeat (apply andb_true_intro; split); try reflexivity; lia.
Qed.

Lemma nic_in_space lo me hi st : contains nic_space (nic_observe lo me hi st) = true.
Proof.
  destruct st as [s|]; [|reflexivity].
  pose proof (categorise_in_Discrete4 lo me hi (n_in s)). pose proof (categorise_in_Discrete4 lo me hi (n_out s)).
  cbn. destruct (n_enabled s); repeat (apply andb_true_intro; split); try reflexivity; lia.
Qed.

(* slot lists of any length: each slot in its component space => the whole {1: .., 2: ..} dictionary in its space *)
Lemma contains_enum : forall (ss : list space) (os : list obs) i,
  Forall2 (fun s o => contains s o = true) ss os ->
  contains (SDict (enum_from i ss)) (ODict (enum_from i os)) = true.
Proof.
  intros ss os i H. revert i. induction H as [|s o ss os Hso _ IH]; intro i; [reflexivity|].
  cbn [enum_from]. cbn. rewrite Z.eqb_refl, Hso. cbn. specialize (IH (i + 1)). cbn in IH. exact IH.
Qed.

Lemma slots_in_space {A} (sp : space) (f : A -> obs) (l : list A) : (forall a, contains sp (f a) = true) ->
  Forall2 (fun s o => contains s o = true) (map (fun _ => sp) l) (map f l).
Proof. intros H. induction l; cbn; constructor; auto. Qed.

Definition host_valid (h : host_state) :=
  1 <= h_power h <= 4 /\ (forall n s, h_services h n = Some s -> svc_valid s) /\ (forall n s, h_apps h n = Some s -> app_valid s).

(* a host observation with any number of configured and padded service and application slots, node on or off, is a member
   of its declared space *)
Theorem host_in_space c h : host_valid h -> contains (host_space c) (host_observe c h) = true.
Proof.
  intros (Hp & Hs & Ha). unfold host_space, host_observe. destruct (thr c) as [[lo me] hi].
  set (on := h_power h =? 1).
  assert (S1 : contains (SDict (enum_from 1 (map (fun _ => svc_space) (svc_slots c))))
                 (ODict (enum_from 1 (map (fun sl => svc_observe (svc_scan c) (if on then match sl with Some n => h_services h n | None => None end else None)) (svc_slots c)))) = true).
  { apply contains_enum. apply slots_in_space. intros sl. apply svc_in_space. intros s E. destruct on; [|discriminate]. destruct sl; [eauto|discriminate]. }
  assert (S2 : contains (SDict (enum_from 1 (map (fun _ => app_space) (app_slots c))))
                 (ODict (enum_from 1 (map (fun sl => app_observe (app_scan c) lo me hi (if on then match sl with Some n => h_apps h n | None => None end else None)) (app_slots c)))) = true).
  { apply contains_enum. apply slots_in_space. intros sl. apply app_in_space. intros s E. destruct on; [|discriminate]. destruct sl; [eauto|discriminate]. }
  cbn [contains key_eqb k_status k_services k_apps Nat.eqb]. cbn in S1, S2 |- *.
  replace (0 <=? h_power h) with true by lia. replace (h_power h <? 5) with true by lia. cbn [andb].
  rewrite S1, S2. reflexivity.
Qed.

(* components of a node that is not ON (and absent components) read as the zero / default encoding *)
Theorem host_off_reads_default c h : h_power h <> 1 ->
  host_observe c h = ODict [(k_status, OInt (h_power h));
                            (k_services, ODict (enum_from 1 (map (fun _ => svc_default) (svc_slots c))));
                            (k_apps, ODict (enum_from 1 (map (fun _ => app_default) (app_slots c))))].
Proof.
  intros H. unfold host_observe. destruct (thr c) as [[lo me] hi]. replace (h_power h =? 1) with false by lia. reflexivity.
Qed.

(* visible-versus-true selection *)
Theorem svc_health_selection rs s :
  svc_observe rs (Some s) = ODict [(k_op, OInt (s_op s)); (k_health, OInt (if rs then s_visible s else s_actual s))].
Proof. reflexivity. Qed.

(* slot i of the dictionary is the i-th configured component (positions are not shifted: the first is key 1) *)
Theorem slot_alignment {A} (l : list A) (i : nat) a : nth_error l i = Some a -> forall j, In (KInt (j + Z.of_nat i), a) (enum_from j l).
Proof.
  revert i. induction l as [|x t IH]; intros [|i] H j; try discriminate.
  - inversion H; subst. cbn [enum_from In]. left. f_equal. f_equal. cbn. lia.
  - cbn [enum_from In]. right. replace (j + Z.of_nat (S i)) with ((j + 1) + Z.of_nat i) by lia. apply IH. exact H.
Qed.
