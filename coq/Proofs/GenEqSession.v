(* Gen = Model: UserManager.authenticate_user, UserSessionManager.remote_session_limit_reached and
   Terminal._check_client_connection translated from the current source by translator/py2coq_imp.py against Model/Session.v:
   authentication is the model's `auth`; a remote login is admitted against the session limit as in `RemoteLogin`; a remote
   command passes the target's gate exactly when its identifier is a live session the terminal holds a connection for (the
   `Command` guard), and an identifier that is not a live session gets its connection torn down (event 1). *)
From Coq Require Import ZArith Bool List Lia.
Import ListNotations.
From PV Require Import Model.Session Gen.GenSession.
Open Scope Z_scope.

Theorem gen_authenticate_user : forall s n p,
  UserManager_authenticate_user (on s)
    (match find_user n (users s) with Some _ => true | None => false end)
    (match find_user n (users s) with Some u => udis u | None => false end)
    (match find_user n (users s) with Some u => upw u =? p | None => false end) = auth s n p.
Proof. intros s n p. unfold UserManager_authenticate_user, auth. destruct (on s), (find_user n (users s)) as [u|]; cbn; try reflexivity. destruct (udis u), (upw u =? p); reflexivity. Qed.

Theorem gen_remote_login_admission : forall s n p,
  snd (step s (RemoteLogin n p)) =
  auth s n p && negb (UserSessionManager_remote_session_limit_reached (Z.of_nat (length (rem s))) (maxrem s)).
Proof.
  intros s n p. unfold UserSessionManager_remote_session_limit_reached. cbn [step].
  rewrite Z.geb_leb. replace (negb (maxrem s <=? Z.of_nat (length (rem s)))) with (Z.of_nat (length (rem s)) <? maxrem s)
    by (rewrite Z.ltb_antisym; reflexivity).
  destruct (auth s n p && (Z.of_nat (length (rem s)) <? maxrem s)); reflexivity.
Qed.

(* the gate: with "live" = some remote session has this identifier and "known" = the terminal holds its connection *)
Theorem gen_command_gate : forall s i,
  let live := existsb (fun x => Nat.eqb (sid x) i) (rem s) in
  let known := existsb (fun x => Nat.eqb (sid x) i && sconn x) (rem s) in
  on s = true ->
  snd (step s (Command i)) = fst (Terminal_check_client_connection live [] known) /\
  (live = false -> snd (Terminal_check_client_connection live [] known) = [(1, [])]).
Proof.
  intros s i live known Hon. unfold Terminal_check_client_connection. cbn [step]. rewrite Hon. cbn [andb].
  assert (K : known = true -> live = true).
  { unfold known, live. rewrite !existsb_exists. intros [x [Hx Hk]]. exists x. split; [exact Hx|]. apply andb_true_iff in Hk. tauto. }
  destruct live eqn:L; cbn [negb].
  - split; [|discriminate]. fold known. destruct known; reflexivity.
  - split; [|reflexivity]. fold known. destruct known; [specialize (K eq_refl); discriminate|reflexivity].
Qed.
