From Coq Require Import ZArith List Bool Lia ZifyBool.
Import ListNotations.
From PV Require Import Model.Software.
Open Scope Z_scope.

Lemma sstate_eqb_eq a b : sstate_eqb a b = true <-> a = b.
Proof. destruct a, b; cbn; split; congruence. Qed.
Lemma astate_eqb_eq a b : astate_eqb a b = true <-> a = b.
Proof. destruct a, b; cbn; split; congruence. Qed.
Lemma health_eqb_eq a b : health_eqb a b = true <-> a = b.
Proof. destruct a, b; cbn; split; congruence. Qed.

(* ---- C13: the documented transition table of a service --------------------------------------------------------- *)
Definition svc_target (v : verb) (s : sstate) : sstate :=
  match v with
  | Start => S_RUNNING | Stop => S_STOPPED | Pause => S_PAUSED | Resume => S_RUNNING | Restart => S_RESTARTING
  | Disable => S_DISABLED | Enable => S_STOPPED | _ => s
  end.
Definition documented_source (v : verb) (s : sstate) : Prop :=
  match v with
  | Start => s = S_STOPPED | Stop => s = S_RUNNING | Pause => s = S_RUNNING | Resume => s = S_PAUSED | Restart => s = S_RUNNING
  | Disable => True | Enable => s = S_DISABLED | Fix => s = S_RUNNING | Scan => s = S_RUNNING | Compromise => True
  | Close | Execute => False
  end.

Lemma svc_guard_iff s v : svc_guard s v = true <-> documented_source v (so s).
Proof. unfold svc_guard, documented_source. destruct v, (so s); cbn; split; intros; try congruence; try tauto; try discriminate. Qed.

(* a request is accepted exactly in its documented source states on a powered-on node; then it makes the documented
   transition; otherwise it is refused (failure) and changes nothing *)
Theorem svc_request_spec on s v :
  (on = true /\ documented_source v (so s) ->
     so (snd (fst (svc_step (on, s) (Req v)))) = svc_target v (so s) /\ fst (fst (svc_step (on, s) (Req v))) = on) /\
  (~ (on = true /\ documented_source v (so s)) -> svc_step (on, s) (Req v) = ((on, s), 2)).
Proof.
  split.
  - intros [-> Hd]. apply svc_guard_iff in Hd as Hg. cbn. rewrite Hg. cbn.
    destruct v; cbn in Hd; try contradiction; unfold svc_do; try rewrite Hd; cbn; auto.
    + destruct (h_fix (sh s)); cbn; auto.
  - intros Hn. cbn. destruct on; cbn; auto. destruct (svc_guard s v) eqn:G; auto.
    exfalso. apply Hn. split; auto. apply svc_guard_iff; auto.
Qed.

(* every change of a service's operating state is one of the documented transitions *)
Definition svc_move_ok (o : op) (a b : sstate) : Prop :=
  a = b \/
  match o with
  | Req v => b = svc_target v a /\ documented_source v a
  | Tick | NodeScanTick => a = S_RESTARTING /\ b = S_RUNNING
  | NodeOff => (a = S_RUNNING \/ a = S_PAUSED) /\ b = S_STOPPED
  | NodeOn => a = S_STOPPED /\ b = S_RUNNING
  | _ => False
  end.

Theorem svc_moves_documented st o : svc_move_ok o (so (snd st)) (so (snd (fst (svc_step st o)))).
Proof.
  destruct st as [on s]. destruct s as [o0 r d h]. unfold svc_move_ok. destruct o as [v| | | | | |]; cbn [svc_step snd fst so].
  - destruct on; cbn; [|left; reflexivity].
    destruct v; destruct o0; cbn; try (left; reflexivity); try (right; repeat split; auto; fail);
    try (destruct (h_fix h); cbn; left; reflexivity).
  - destruct on; cbn; [|left; reflexivity]. unfold svc_tick; cbn.
    destruct o0; cbn; try (left; reflexivity). destruct (r <=? 0); cbn; [right; auto|left; reflexivity].
  - destruct on; cbn; [|left; reflexivity]. destruct o0; cbn; try (left; reflexivity); right; auto.
  - destruct on; cbn; [left; reflexivity|]. destruct o0; cbn; try (left; reflexivity); right; auto.
  - destruct on; cbn; left; reflexivity.
  - left; reflexivity.
  - destruct on; cbn; [|left; reflexivity]. unfold svc_tick; cbn.
    destruct o0; cbn; try (left; reflexivity). destruct (r <=? 0); cbn; [right; auto|left; reflexivity].
Qed.

(* ---- timing of the timed transitions ------------------------------------------------------------------------------ *)
Fixpoint svc_ticks (k : nat) (s : svc) : svc := match k with O => s | S j => svc_ticks j (svc_tick s) end.
Fixpoint app_ticks (k : nat) (a : app) : app := match k with O => a | S j => app_ticks j (app_tick a) end.

Lemma svc_tick_restarting s : so s = S_RESTARTING ->
  (0 < rcd s -> so (svc_tick s) = S_RESTARTING /\ rcd (svc_tick s) = rcd s - 1) /\
  (rcd s <= 0 -> so (svc_tick s) = S_RUNNING).
Proof.
  destruct s as [o r d h]; cbn; intros ->. unfold svc_tick; cbn. split; intros H.
  - replace (r <=? 0) with false by lia. cbn. auto.
  - replace (r <=? 0) with true by lia. cbn. auto.
Qed.

Lemma restarting_ticks k : forall s, so s = S_RESTARTING -> Z.of_nat k <= rcd s ->
  so (svc_ticks k s) = S_RESTARTING /\ rcd (svc_ticks k s) = rcd s - Z.of_nat k.
Proof.
  induction k as [|k IH]; intros s Hs Hk; cbn [svc_ticks].
  - split; auto; lia.
  - destruct (svc_tick_restarting s Hs) as [A _]. destruct (A ltac:(lia)) as [A1 A2].
    destruct (IH (svc_tick s) A1 ltac:(lia)) as [B1 B2]. split; auto; lia.
Qed.

(* a restart lasts the configured duration: RESTARTING is observed for d ticks, RUNNING from tick d+1 *)
Theorem restart_time s : so s = S_RUNNING -> 0 <= rdur s ->
  let s0 := fst (svc_do s Restart) in
  (forall k, Z.of_nat k <= rdur s -> so (svc_ticks k s0) = S_RESTARTING) /\
  so (svc_ticks (S (Z.to_nat (rdur s))) s0) = S_RUNNING.
Proof.
  intros Hs Hd s0.
  assert (E0 : s0 = {| so := S_RESTARTING; rcd := rdur s; rdur := rdur s; sh := sh s |}).
  { unfold s0. cbn. rewrite Hs. reflexivity. }
  assert (S0 : so s0 = S_RESTARTING) by (rewrite E0; reflexivity).
  assert (R0 : rcd s0 = rdur s) by (rewrite E0; reflexivity).
  assert (E : forall k x, svc_ticks (S k) x = svc_tick (svc_ticks k x)).
  { induction k as [|k IHk]; intros x; cbn [svc_ticks]; auto. rewrite <- IHk. reflexivity. }
  split.
  - intros k Hk. apply restarting_ticks; auto; lia.
  - destruct (restarting_ticks (Z.to_nat (rdur s)) s0 S0 ltac:(lia)) as [A B].
    rewrite E. apply svc_tick_restarting; auto; lia.
Qed.

Lemma app_tick_installing a : ao a = A_INSTALLING ->
  (1 < icd a -> ao (app_tick a) = A_INSTALLING /\ icd (app_tick a) = icd a - 1) /\
  (icd a <= 1 -> ao (app_tick a) = A_RUNNING /\ ha (ah (app_tick a)) = GOOD).
Proof.
  destruct a as [o c d h]; cbn; intros ->. unfold app_tick; cbn. split; intros H.
  - replace (c - 1 <=? 0) with false by lia. cbn. auto.
  - replace (c - 1 <=? 0) with true by lia. cbn. auto.
Qed.

Lemma installing_ticks k : forall a, ao a = A_INSTALLING -> Z.of_nat k < icd a ->
  ao (app_ticks k a) = A_INSTALLING /\ icd (app_ticks k a) = icd a - Z.of_nat k.
Proof.
  induction k as [|k IH]; intros a Ha Hk; cbn [app_ticks].
  - split; auto; lia.
  - destruct (app_tick_installing a Ha) as [A _]. destruct (A ltac:(lia)) as [A1 A2].
    destruct (IH (app_tick a) A1 ltac:(lia)) as [B1 B2]. split; auto; lia.
Qed.

(* an installation lasts max(d, 1) ticks and ends RUNNING with good health *)
Theorem install_time a : ao a = A_CLOSED ->
  let a0 := snd (fst (app_step (true, a) Install)) in
  let n := Z.to_nat (Z.max (idur a) 1) in
  (forall k, (k < n)%nat -> ao (app_ticks k a0) = A_INSTALLING) /\
  ao (app_ticks n a0) = A_RUNNING /\ ha (ah (app_ticks n a0)) = GOOD.
Proof.
  intros Ha a0 n.
  assert (E0 : a0 = {| ao := A_INSTALLING; icd := idur a; idur := idur a; ah := ah a |}).
  { unfold a0. cbn. rewrite Ha. reflexivity. }
  assert (S0 : ao a0 = A_INSTALLING) by (rewrite E0; reflexivity).
  assert (R0 : icd a0 = idur a) by (rewrite E0; reflexivity).
  assert (E : forall k x, app_ticks (S k) x = app_tick (app_ticks k x)).
  { induction k as [|k IHk]; intros x; cbn [app_ticks]; auto. rewrite <- IHk. reflexivity. }
  destruct (Z_le_gt_dec (idur a) 1) as [Hd|Hd].
  - (* duration 0 or 1: one tick *)
    assert (N : n = 1%nat) by (unfold n; lia). rewrite N. split.
    + intros k Hk. assert (k = O) by lia. subst. exact S0.
    + change (app_ticks 1 a0) with (app_tick a0). apply app_tick_installing; auto; lia.
  - assert (N : n = S (Z.to_nat (idur a - 1))) by (unfold n; lia). rewrite N. split.
    + intros k Hk. apply installing_ticks; auto; lia.
    + destruct (installing_ticks (Z.to_nat (idur a - 1)) a0 S0 ltac:(lia)) as [A B].
      rewrite E. apply app_tick_installing; auto; lia.
Qed.

(* ---- application requests ----------------------------------------------------------------------------------------- *)
Theorem app_request_spec on a v :
  (v = Scan \/ v = Close \/ v = Fix) ->
  (on = true /\ ao a = A_RUNNING -> fst (fst (app_step (on, a) (Req v))) = on /\
       ao (snd (fst (app_step (on, a) (Req v)))) = match v with Close => A_CLOSED | _ => A_RUNNING end) /\
  (~ (on = true /\ ao a = A_RUNNING) -> app_step (on, a) (Req v) = ((on, a), 2)).
Proof.
  intros Hv. split.
  - intros [-> Hr]. destruct Hv as [-> | [-> | ->]]; cbn; rewrite Hr; cbn; auto. destruct (h_fix (ah a)); cbn; rewrite ?Hr; auto.
  - intros Hn. cbn. destruct on; cbn; auto. destruct Hv as [-> | [-> | ->]]; cbn; destruct (ao a) eqn:E; cbn; auto;
    exfalso; apply Hn; auto.
Qed.

(* ---- C14: health ---------------------------------------------------------------------------------------------------- *)
(* the visible health changes only when a scan covering the software completes, and then equals the true health
   at that moment *)
Definition scan_op (o : op) : Prop := o = Req Scan \/ o = NodeScanDone \/ o = NodeScanTick.

Theorem svc_visible_changes_only_by_scan st o :
  let st' := fst (svc_step st o) in
  hv (sh (snd st')) <> hv (sh (snd st)) -> scan_op o /\ hv (sh (snd st')) = ha (sh (snd st)).
Proof.
  destruct st as [on s]. destruct s as [o0 r d h]. destruct h as [a v c fd g]. unfold scan_op.
  destruct o as [vb| | | | | |]; cbn.
  - destruct on; cbn; [|congruence].
    destruct vb; destruct o0; cbn; try congruence; try (intros; split; auto; fail);
    try (unfold h_fix; cbn; destruct (health_eqb a COMPROMISED || health_eqb a GOOD); cbn; congruence);
    try (unfold h_used; cbn; destruct (health_eqb a UNUSED); cbn; congruence).
  - destruct on; cbn; [|congruence]. unfold svc_tick, h_tick; cbn.
    destruct (health_eqb a FIXING); cbn; [destruct (c - 1 <=? 0); cbn|]; destruct o0; cbn; try congruence;
    destruct (r <=? 0); cbn; congruence.
  - destruct on; cbn; [|congruence]. destruct o0; cbn; congruence.
  - destruct on; cbn; [congruence|]. destruct o0; cbn; try congruence. unfold h_used; cbn. destruct (health_eqb a UNUSED); cbn; congruence.
  - destruct on; cbn; [|congruence]. intros; split; auto.
  - congruence.
  - destruct on; cbn; [|congruence]. unfold svc_tick, h_tick; cbn. intros H. split; auto.
    destruct (health_eqb a FIXING); cbn; [destruct (c - 1 <=? 0); cbn|]; destruct o0; cbn; auto; destruct (r <=? 0); cbn; auto.
Qed.

(* ghost field: visible health = true health at the last completed scan, in every reachable state *)
Theorem svc_visible_is_last_scan ops : forall st, hv (sh (snd st)) = ghost (sh (snd st)) ->
  let st' := fold_left (fun x o => fst (svc_step x o)) ops st in hv (sh (snd st')) = ghost (sh (snd st')).
Proof.
  induction ops as [|o ops IH]; cbn; intros st H; auto. apply IH.
  destruct st as [on s]. destruct s as [o0 r d h]. destruct h as [a v c fd g]. cbn in H. subst g.
  destruct o as [vb| | | | | |]; cbn.
  - destruct on; cbn; auto. destruct vb; destruct o0; cbn; auto;
    try (unfold h_fix; cbn; destruct (health_eqb a COMPROMISED || health_eqb a GOOD); cbn; auto);
    try (unfold h_used; cbn; destruct (health_eqb a UNUSED); cbn; auto).
  - destruct on; cbn; auto. unfold svc_tick, h_tick; cbn.
    destruct (health_eqb a FIXING); cbn; [destruct (c - 1 <=? 0); cbn|]; destruct o0; cbn; auto; destruct (r <=? 0); cbn; auto.
  - destruct on; cbn; auto. destruct o0; cbn; auto.
  - destruct on; cbn; auto. destruct o0; cbn; auto. unfold h_used; cbn. destruct (health_eqb a UNUSED); cbn; auto.
  - destruct on; cbn; auto.
  - auto.
  - destruct on; cbn; auto. unfold svc_tick, h_tick; cbn.
    destruct (health_eqb a FIXING); cbn; [destruct (c - 1 <=? 0); cbn|]; destruct o0; cbn; auto; destruct (r <=? 0); cbn; auto.
Qed.

(* the true health changes only through explicit events: compromise, an accepted fix, the timed completion of a fix,
   and first use (start) *)
Definition health_event (o : op) (a b : health) : Prop :=
  match o with
  | Req Compromise => b = COMPROMISED
  | Req Fix => (a = COMPROMISED \/ a = GOOD) /\ b = FIXING
  | Tick | NodeScanTick => a = FIXING /\ b = GOOD
  | Req Start | NodeOn => a = UNUSED /\ b = GOOD
  | _ => False
  end.

Theorem svc_actual_changes_only_by_events st o :
  let st' := fst (svc_step st o) in
  ha (sh (snd st')) <> ha (sh (snd st)) -> health_event o (ha (sh (snd st))) (ha (sh (snd st'))).
Proof.
  destruct st as [on s]. destruct s as [o0 r d h]. destruct h as [a v c fd g].
  destruct o as [vb| | | | | |]; cbn.
  - destruct on; cbn; [|congruence].
    destruct vb; destruct o0; cbn; try congruence; auto;
    try (unfold h_fix; cbn; destruct a; cbn; try congruence; auto);
    try (unfold h_used; cbn; destruct a; cbn; try congruence; auto).
  - destruct on; cbn; [|congruence]. unfold svc_tick, h_tick; cbn.
    destruct a; cbn; try (destruct o0; cbn; try congruence; destruct (r <=? 0); cbn; congruence).
    destruct (c - 1 <=? 0); cbn; destruct o0; cbn; try congruence; auto; destruct (r <=? 0); cbn; try congruence; auto.
  - destruct on; cbn; [|congruence]. destruct o0; cbn; congruence.
  - destruct on; cbn; [congruence|]. destruct o0; cbn; try congruence. unfold h_used; cbn. destruct a; cbn; try congruence; auto.
  - destruct on; cbn; congruence.
  - congruence.
  - destruct on; cbn; [|congruence]. unfold svc_tick, h_tick; cbn.
    destruct a; cbn; try (destruct o0; cbn; try congruence; destruct (r <=? 0); cbn; congruence).
    destruct (c - 1 <=? 0); cbn; destruct o0; cbn; try congruence; auto; destruct (r <=? 0); cbn; try congruence; auto.
Qed.

(* a fix returns the software to good health after exactly max(fixing duration, 1) ticks *)
Fixpoint h_ticks (k : nat) (h : hstate) : hstate := match k with O => h | S j => h_ticks j (h_tick h) end.

Lemma h_tick_fixing h : ha h = FIXING ->
  (1 < fcd h -> ha (h_tick h) = FIXING /\ fcd (h_tick h) = fcd h - 1) /\ (fcd h <= 1 -> ha (h_tick h) = GOOD).
Proof.
  destruct h as [a v c fd g]; cbn; intros ->. unfold h_tick; cbn. split; intros H.
  - replace (c - 1 <=? 0) with false by lia. cbn. auto.
  - replace (c - 1 <=? 0) with true by lia. cbn. auto.
Qed.
Lemma fixing_ticks k : forall h, ha h = FIXING -> Z.of_nat k < fcd h ->
  ha (h_ticks k h) = FIXING /\ fcd (h_ticks k h) = fcd h - Z.of_nat k.
Proof.
  induction k as [|k IH]; intros h Hh Hk; cbn [h_ticks].
  - split; auto; lia.
  - destruct (h_tick_fixing h Hh) as [A _]. destruct (A ltac:(lia)) as [A1 A2].
    destruct (IH (h_tick h) A1 ltac:(lia)) as [B1 B2]. split; auto; lia.
Qed.

Theorem fix_time h : ha h = COMPROMISED \/ ha h = GOOD ->
  let h0 := fst (h_fix h) in let n := Z.to_nat (Z.max (fdur h) 1) in
  snd (h_fix h) = true /\ (forall k, (k < n)%nat -> ha (h_ticks k h0) = FIXING) /\ ha (h_ticks n h0) = GOOD.
Proof.
  intros Hh h0 n.
  assert (G : health_eqb (ha h) COMPROMISED || health_eqb (ha h) GOOD = true) by (destruct Hh as [-> | ->]; reflexivity).
  assert (E0 : h0 = {| ha := FIXING; hv := hv h; fcd := fdur h; fdur := fdur h; ghost := ghost h |}).
  { unfold h0, h_fix. rewrite G. reflexivity. }
  assert (S0 : ha h0 = FIXING) by (rewrite E0; reflexivity).
  assert (R0 : fcd h0 = fdur h) by (rewrite E0; reflexivity).
  assert (E : forall k x, h_ticks (S k) x = h_tick (h_ticks k x)).
  { induction k as [|k IHk]; intros x; cbn [h_ticks]; auto. rewrite <- IHk. reflexivity. }
  split; [unfold h_fix; rewrite G; reflexivity|].
  destruct (Z_le_gt_dec (fdur h) 1) as [Hd|Hd].
  - assert (N : n = 1%nat) by (unfold n; lia). rewrite N. split.
    + intros k Hk. assert (k = O) by lia. subst. exact S0.
    + change (h_ticks 1 h0) with (h_tick h0). apply h_tick_fixing; auto; lia.
  - assert (N : n = S (Z.to_nat (fdur h - 1))) by (unfold n; lia). rewrite N. split.
    + intros k Hk. apply fixing_ticks; auto; lia.
    + destruct (fixing_ticks (Z.to_nat (fdur h - 1)) h0 S0 ltac:(lia)) as [A B].
      rewrite E. apply h_tick_fixing; auto; lia.
Qed.
