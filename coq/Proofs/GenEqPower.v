(* Gen = Model: Node.power_on / power_off / reset and the power part of Node.apply_timestep, translated from the current
   source by translator/py2coq_imp.py, are the transitions of Model/Power.v.  The translated methods change the scalars
   (operating state, the two countdowns, the resetting flag) and emit, in order, the events whose effect lies in other
   objects: 1 = _start_up_actions, 2 = _shut_down_actions, 3 = enable every interface, 4 = disable every interface (1 and 3
   carry the operating state at that moment, which Service.start / Application.run / NIC.enable read). *)
From Coq Require Import ZArith Bool List Lia.
Import ListNotations.
From PV Require Import Model.Power Gen.GenPower.
Open Scope Z_scope.

Definition ps_of_Z (z : Z) : ps := match z with 1 => ON | 2 => OFF | 3 => BOOTING | _ => SHUTTING_DOWN end.
Lemma ps_of_to : forall s, ps_of_Z (ps_to_Z s) = s. Proof. destruct s; reflexivity. Qed.

Definition ev_apply (n : node) (e : Z * list Z) : node :=
  match e with
  | (1, [s]) => set_sw n (map (svc_start (ps_of_Z s)) (svcs n)) (map (app_run (ps_of_Z s)) (apps n))
  | (2, _) => shut_down_actions n
  | (3, [s]) => set_nics n (map (nic_enable (ps_of_Z s)) (nics n))
  | (4, _) => disable_all n
  | _ => n
  end.
Definition with_scalars (n : node) (s : Z) (u d : Z) (r : bool) : node :=
  {| st := ps_of_Z s; up_cd := u; down_cd := d; resetting := r; nics := nics n; svcs := svcs n; apps := apps n |}.

(* an interface attached to a node: enable succeeds exactly when it ends enabled; disable always does *)
Theorem gen_nic_enable : forall s i,
  WiredNetworkInterface_enable (enabled i) true (ps_to_Z s) (linked i) = (enabled (nic_enable s i), enabled (nic_enable s i)).
Proof. intros s [l e]; destruct s, l, e; reflexivity. Qed.
Theorem gen_nic_disable : forall i hn, WiredNetworkInterface_disable (enabled i) hn (linked i) = (true, enabled (nic_disable i)).
Proof. intros [l e] hn; destruct e; reflexivity. Qed.

Theorem gen_power_on : forall c n,
  let '(_, (s, evs, u)) := Node_power_on (up_d c) (ps_to_Z (st n)) [] (up_cd n) in
  power_on c n = with_scalars (fold_left ev_apply evs n) s u (down_cd n) (resetting n).
Proof.
  intros [ud dd] [s u d r ni sv ap]. unfold Node_power_on, power_on. cbn [up_d st up_cd down_cd resetting].
  destruct (ud <=? 0); [reflexivity|]. destruct s; reflexivity.
Qed.

Theorem gen_power_off : forall c n,
  let '(_, (evs, s, r, u, d)) := Node_power_off (down_d c) [] (ps_to_Z (st n)) (resetting n) (up_d c) (up_cd n) (down_cd n) in
  power_off c n = with_scalars (fold_left ev_apply evs n) s u d r.
Proof.
  intros [ud dd] [s u d r ni sv ap]. unfold Node_power_off, Node_power_on, power_off, power_on.
  cbn [up_d down_d st up_cd down_cd resetting].
  destruct (dd <=? 0).
  - destruct r; cbn; [|reflexivity]. destruct (ud <=? 0); reflexivity.
  - destruct s; reflexivity.
Qed.

Theorem gen_reset : forall c n,
  let '(_, (r, evs, s, u, d)) := Node_reset (resetting n) (down_d c) [] (ps_to_Z (st n)) (up_d c) (up_cd n) (down_cd n) in
  reset c n = with_scalars (fold_left ev_apply evs n) s u d r.
Proof.
  intros [ud dd] [s u d r ni sv ap]. unfold Node_reset, Node_power_off, Node_power_on, reset, power_off, power_on.
  cbn [up_d down_d st up_cd down_cd resetting set_reset].
  destruct (dd <=? 0).
  - cbn. destruct (ud <=? 0); reflexivity.
  - destruct s; reflexivity.
Qed.

Theorem gen_tick : forall c n,
  let '(_, (u, s, evs, d, r)) := Node_apply_timestep_power (up_cd n) (down_cd n) (ps_to_Z (st n)) [] (resetting n) (up_d c) in
  tick c n = with_scalars (fold_left ev_apply evs n) s u d r.
Proof.
  intros [ud dd] [s u d r ni sv ap]. unfold Node_apply_timestep_power, Node_power_on, tick, power_on.
  cbn [up_d down_d st up_cd down_cd resetting].
  rewrite !Z.gtb_ltb.
  destruct s, r;
    repeat (cbn [down_cd up_cd st resetting nics svcs apps set_up set_down set_st set_reset set_nics set_sw start_up_actions enable_all
                 shut_down_actions disable_all ps_eqb ps_to_Z Z.eqb Pos.eqb up_d];
            match goal with |- context [if ?b then _ else _] => destruct b eqn:? end);
    reflexivity.
Qed.

(* ---- transfer: the model's invariants, stated about the functions translated from the current source ----------------- *)
From PV Require Import Proofs.PowerProofs.

(* whatever the durations: after the translated power_on / power_off / reset / tick (their events applied to the node's
   interfaces, services and applications) a node that is not ON has every interface disabled (Inv1) and a node that is OFF
   runs no service and has no application open (Inv2), provided that held before *)
Theorem source_power_off_keeps_invariants : forall c n, Inv1 n -> Inv2 n ->
  let '(_, (evs, s, r, u, d)) := Node_power_off (down_d c) [] (ps_to_Z (st n)) (resetting n) (up_d c) (up_cd n) (down_cd n) in
  Inv1 (with_scalars (fold_left ev_apply evs n) s u d r) /\ Inv2 (with_scalars (fold_left ev_apply evs n) s u d r).
Proof.
  intros c n H1 H2. pose proof (gen_power_off c n) as G.
  destruct (Node_power_off (down_d c) [] (ps_to_Z (st n)) (resetting n) (up_d c) (up_cd n) (down_cd n)) as [ret [[[[evs s] r] u] d]].
  rewrite <- G. split; [apply inv1_power_off|apply inv2_power_off]; assumption.
Qed.
Theorem source_power_on_keeps_invariants : forall c n, Inv1 n -> Inv2 n ->
  let '(_, (s, evs, u)) := Node_power_on (up_d c) (ps_to_Z (st n)) [] (up_cd n) in
  Inv1 (with_scalars (fold_left ev_apply evs n) s u (down_cd n) (resetting n)) /\
  Inv2 (with_scalars (fold_left ev_apply evs n) s u (down_cd n) (resetting n)).
Proof.
  intros c n H1 H2. pose proof (gen_power_on c n) as G.
  destruct (Node_power_on (up_d c) (ps_to_Z (st n)) [] (up_cd n)) as [ret [[s evs] u]].
  rewrite <- G. split; [apply inv1_power_on|apply inv2_power_on]; assumption.
Qed.
Theorem source_tick_keeps_invariants : forall c n, Inv1 n -> Inv2 n ->
  let '(_, (u, s, evs, d, r)) := Node_apply_timestep_power (up_cd n) (down_cd n) (ps_to_Z (st n)) [] (resetting n) (up_d c) in
  Inv1 (with_scalars (fold_left ev_apply evs n) s u d r) /\ Inv2 (with_scalars (fold_left ev_apply evs n) s u d r).
Proof.
  intros c n H1 H2. pose proof (gen_tick c n) as G.
  destruct (Node_apply_timestep_power (up_cd n) (down_cd n) (ps_to_Z (st n)) [] (resetting n) (up_d c)) as [ret [[[[u s] evs] d] r]].
  rewrite <- G. split; [apply inv1_tick|apply inv2_tick]; assumption.
Qed.
