(* Gen = Model: PeriodicAgent._set_next_execution_timestep / get_action and DataManipulationAgent.get_action translated from
   the current source by translator/py2coq_imp.py are Model.Scripted.p_step; random.randint's result is a parameter of the
   translation and the next element of the model's draw stream (an exhausted stream reads 0). *)
From Coq Require Import ZArith Bool List Lia.
Import ListNotations.
From PV Require Import Model.Scripted Gen.GenPeriodic.
Open Scope Z_scope.

Theorem gen_periodic_get_action : forall c s t, p_dm c = false ->
  PeriodicAgent_get_action (p_next s) (p_num s) (p_max c) (p_freq c) (p_var c) (fst (take_draw s)) t =
  (snd (p_step c s t), (p_num (fst (p_step c s t)), p_next (fst (p_step c s t)))).
Proof.
  intros c [nx nm ds] t Hdm. unfold PeriodicAgent_get_action, PeriodicAgent_set_next_execution_timestep, p_step. rewrite Hdm. cbn [p_next p_num].
  destruct ((t =? nx) && (nm <? p_max c)); [|reflexivity].
  unfold take_draw. cbn [p_draws p_next p_num]. destruct ds; reflexivity.
Qed.
Theorem gen_data_manipulation_get_action : forall c s t, p_dm c = true ->
  DataManipulationAgent_get_action (p_next s) (p_freq c) (p_var c) (fst (take_draw s)) t =
  (snd (p_step c s t), p_next (fst (p_step c s t))).
Proof.
  intros c [nx nm ds] t Hdm. unfold DataManipulationAgent_get_action, PeriodicAgent_set_next_execution_timestep, p_step. rewrite Hdm. cbn [p_next p_num].
  destruct (t <? nx); [reflexivity|].
  unfold take_draw. cbn [p_draws p_next p_num]. destruct ds; reflexivity.
Qed.
(* the initial schedule: start step plus the first draw, never before step 0 *)
Theorem gen_initial_schedule : forall c draws, p_dm c = false ->
  PeriodicAgent_set_next_execution_timestep (fst (take_draw {| p_next := 0; p_num := 0; p_draws := draws |})) 0 (p_start c) (p_svar c) =
  (tt, p_next (p_init c draws)).
Proof.
  intros c draws Hdm. unfold PeriodicAgent_set_next_execution_timestep, p_init. rewrite Hdm. unfold take_draw. cbn [p_draws]. destruct draws; reflexivity.
Qed.

(* ---- transfer: the model's schedule theorem, stated about the functions translated from the current source ------------ *)
From PV Require Import Proofs.ScriptedProofs.

(* the agent driven by the translated get_action: state = (next execution step, executions so far, remaining draws) *)
Definition src_step (c : pcfg) (s : pst) (t : Z) : pst * bool :=
  let d := fst (take_draw s) in
  if p_dm c then
    let '(acts, nx) := DataManipulationAgent_get_action (p_next s) (p_freq c) (p_var c) d t in
    ({| p_next := nx; p_num := p_num s; p_draws := if acts then p_draws (snd (take_draw s)) else p_draws s |}, acts)
  else
    let '(acts, (nm, nx)) := PeriodicAgent_get_action (p_next s) (p_num s) (p_max c) (p_freq c) (p_var c) d t in
    ({| p_next := nx; p_num := nm; p_draws := if acts then p_draws (snd (take_draw s)) else p_draws s |}, acts).
Fixpoint src_run (c : pcfg) (s : pst) (t : Z) (n : nat) : list Z :=
  match n with
  | O => []
  | S k => let '(s', b) := src_step c s t in (if b then [t] else []) ++ src_run c s' (t + 1) k
  end.

Lemma src_step_eq : forall c s t, src_step c s t = p_step c s t.
Proof.
  intros c [nx nm ds] t. unfold src_step. destruct (p_dm c) eqn:Hdm.
  - rewrite (gen_data_manipulation_get_action c _ t Hdm). unfold p_step. rewrite Hdm. cbn [p_next p_num p_draws].
    destruct (t <? nx); [reflexivity|]. unfold take_draw. cbn [p_draws p_next p_num]. destruct ds; reflexivity.
  - rewrite (gen_periodic_get_action c _ t Hdm). unfold p_step. rewrite Hdm. cbn [p_next p_num p_draws].
    destruct ((t =? nx) && (nm <? p_max c)); [|reflexivity]. unfold take_draw. cbn [p_draws p_next p_num]. destruct ds; reflexivity.
Qed.
Lemma src_run_eq : forall c n s t, src_run c s t n = p_run c s t n.
Proof. intros c n. induction n as [|k IH]; intros s t; cbn [src_run p_run]; [reflexivity|]. rewrite src_step_eq. destruct (p_step c s t). rewrite IH. reflexivity. Qed.

(* for every draw stream satisfying randint's contract, the steps at which the translated agent acts keep the start window,
   the frequency +- variance gaps and the execution cap *)
Theorem source_periodic_schedule : forall c draws n,
  0 <= p_svar c -> 0 <= p_var c < p_freq c ->
  draws_ok (p_svar c) (firstn 1 draws) -> draws_ok (p_var c) (skipn (if p_dm c then 2 else 1) draws) ->
  let ts := src_run c (p_init c draws) 0 n in
  gaps_ok (p_freq c) (p_var c) ts /\
  (forall x, hd_error ts = Some x ->
     if p_dm c then x = Z.max 0 (p_start c) else Z.max 0 (p_start c - p_svar c) <= x <= Z.max 0 (p_start c + p_svar c)) /\
  (p_dm c = false -> 0 <= p_max c -> Z.of_nat (length ts) <= p_max c).
Proof. intros c draws n. rewrite src_run_eq. exact (periodic_schedule c draws n). Qed.
