(* Gen = Model: RouteTable.find_best_route translated from the current source by translator/py2coq_imp.py (its loop as a
   fold over records holding, per route, prefix length / "covers the destination" / metric / an identifier) selects the same
   entry of the table as Model/Route.v's find_best, or both fall back to the default route. *)
From Coq Require Import ZArith Bool List Lia.
Import ListNotations.
From PV Require Import Model.Route Gen.GenRoute.
Open Scope Z_scope.

Fixpoint number (k : Z) (l : list route) : list (Z * route) :=
  match l with [] => [] | r :: t => (k, r) :: number (k + 1) t end.
Lemma map_snd_number : forall l k, map snd (number k l) = l.
Proof. induction l as [|r t IH]; intros k; cbn; [reflexivity|]. rewrite IH. reflexivity. Qed.

Definition item (d : Z) (p : Z * route) : Z * bool * Z * Z := (r_plen (snd p), covers (snd p) d, r_metric (snd p), fst p).
Definition pst := (option (Z * route) * Z * option Z)%type.
Definition pstep (d : Z) (s : pst) (p : Z * route) : pst :=
  let '(_, lp, lm) := s in
  if covers (snd p) d
  then (if (r_plen (snd p) >? lp) || ((r_plen (snd p) =? lp) && match lm with None => true | Some m => r_metric (snd p) <? m end)
        then (Some p, r_plen (snd p), Some (r_metric (snd p))) else s)
  else s.

Lemma model_fold : forall d ps b lp lm,
  fold_left (step d) (map snd ps) (option_map snd b, lp, lm) =
  (let '(b', lp', lm') := fold_left (pstep d) ps (b, lp, lm) in (option_map snd b', lp', lm')).
Proof.
  intros d ps. induction ps as [|p t IH]; intros b lp lm; cbn [fold_left map]; [reflexivity|].
  unfold step at 2, pstep at 2, better. cbn [fst snd].
  destruct (covers (snd p) d); [|apply IH].
  destruct ((r_plen (snd p) >? lp) || ((r_plen (snd p) =? lp) && match lm with None => true | Some m => r_metric (snd p) <? m end)).
  - apply (IH (Some p)).
  - apply IH.
Qed.

Theorem gen_find_best_route : forall routes dflt dflt_id d flag,
  let res := fold_left (pstep d) (number 0 routes) (None, -1, None) in
  RouteTable_find_best_route flag (map (item d) (number 0 routes)) dflt_id
    = match fst (fst res) with Some p => Some (fst p) | None => dflt_id end
  /\ find_best routes dflt d = match fst (fst res) with Some p => Some (snd p) | None => dflt end.
Proof.
  intros routes dflt dflt_id d flag res. split.
  - unfold RouteTable_find_best_route.
    match goal with |- context [fold_left ?f _ _] => set (F := f) end.
    assert (H : forall ps b lp lm,
      fold_left F (map (item d) ps) (option_map fst b, lp, lm) =
      (let '(b', lp', lm') := fold_left (pstep d) ps (b, lp, lm) in (option_map fst b', lp', lm'))).
    { induction ps as [|p t IH]; intros b lp lm; cbn [fold_left map]; [reflexivity|].
      unfold F at 2, item, pstep at 2. cbn [fst snd].
      destruct (covers (snd p) d); [|apply IH].
      destruct ((r_plen (snd p) >? lp) || ((r_plen (snd p) =? lp) && match lm with None => true | Some m => r_metric (snd p) <? m end)).
      - apply (IH (Some p)).
      - apply IH. }
    specialize (H (number 0 routes) None (-1) None). cbn [option_map] in H. rewrite H. subst res.
    destruct (fold_left (pstep d) (number 0 routes) (None, -1, None)) as [[b' lp'] lm']. cbn [fst].
    destruct b' as [p|]; cbn [option_map]; [reflexivity|]. destruct dflt_id; reflexivity.
  - unfold find_best. rewrite <- (map_snd_number routes 0) at 1.
    pose proof (model_fold d (number 0 routes) None (-1) None) as H. cbn [option_map] in H. rewrite H. subst res.
    destruct (fold_left (pstep d) (number 0 routes) (None, -1, None)) as [[b' lp'] lm']. cbn [fst].
    destruct b'; reflexivity.
Qed.

(* ---- transfer: the model's theorem, stated about the function translated from the current source --------------------- *)
From PV Require Import Proofs.RouteProofs.

Lemma fold_pstep_in : forall d ps b lp lm p,
  fst (fst (fold_left (pstep d) ps (b, lp, lm))) = Some p -> b = Some p \/ In p ps.
Proof.
  intros d ps. induction ps as [|q t IH]; intros b lp lm p H; cbn [fold_left] in H; [left; exact H|].
  unfold pstep at 2 in H.
  destruct (covers (snd q) d).
  - destruct ((r_plen (snd q) >? lp) || ((r_plen (snd q) =? lp) && match lm with None => true | Some m => r_metric (snd q) <? m end)).
    + apply IH in H. destruct H as [H|H]; [right; left; congruence|right; right; exact H].
    + apply IH in H. destruct H as [H|H]; [left; exact H|right; right; exact H].
  - apply IH in H. destruct H as [H|H]; [left; exact H|right; right; exact H].
Qed.

Lemma number_nth : forall l k i r, In (i, r) (number k l) -> k <= i /\ nth_error l (Z.to_nat (i - k)) = Some r.
Proof.
  induction l as [|x t IH]; intros k i r H; cbn [number] in H; [destruct H|].
  destruct H as [H|H].
  - inversion H; subst. split; [lia|]. replace (i - i) with 0 by lia. reflexivity.
  - apply IH in H. destruct H as [Hk Hn]. split; [lia|].
    replace (Z.to_nat (i - k)) with (S (Z.to_nat (i - (k + 1)))) by lia. exact Hn.
Qed.

Theorem source_find_best_route_is_longest_prefix_then_lowest_metric :
  (forall r : route, 0 <= r_plen r) -> forall routes d flag,
  match RouteTable_find_best_route flag (map (item d) (number 0 routes)) None with
  | Some i => exists r, nth_error routes (Z.to_nat i) = Some r /\ covers r d = true /\
                        forall r', In r' routes -> covers r' d = true -> beats r r'
  | None => forall r', In r' routes -> covers r' d = false
  end.
Proof.
  intros Hp routes d flag.
  destruct (gen_find_best_route routes None None d flag) as [Hg Hm].
  pose proof (best_route_spec Hp routes None d) as Hs.
  rewrite Hg. rewrite Hm in Hs.
  destruct (fst (fst (fold_left (pstep d) (number 0 routes) (None, -1, None)))) as [[i r]|] eqn:E.
  - cbn [fst snd] in *. apply fold_pstep_in in E. destruct E as [E|E]; [discriminate|].
    apply number_nth in E. destruct E as [_ E]. replace (i - 0) with i in E by lia.
    exists r. split; [exact E|]. destruct Hs as [(_ & Hc & Hb)|(Hd & _)]; [auto|discriminate].
  - destruct Hs as [_ Hn]. exact Hn.
Qed.
