(* Gen = Model: the kill-chain bookkeeping methods of AbstractTAP / TAP001 / TAP003, translated from the current source by
   translator/py2coq_imp.py, are the operations of Model.Scripted.k_step (stages coded by their integer values, response
   status strings coded success=1 failure=2 unreachable=3 pending=4; chosen_action is not modelled). *)
From Coq Require Import ZArith Bool Lia.
From PV Require Import Model.Scripted Gen.GenKillChain.
Open Scope Z_scope.

(* _tap_return_handler on a step that has a history entry *)
Theorem gen_tap_return_handler : forall last s hl status rs t, 0 <= t < hl ->
  AbstractTAP_tap_return_handler hl status rs (k_cur s) t =
  ((status =? 1), k_cur (k_step last s (KReturn (status =? 1) rs))).
Proof.
  intros last [c n d pg] hl status rs t H. unfold AbstractTAP_tap_return_handler. cbn.
  replace (t >=? hl) with false by lia.
  destruct (status =? 1); destruct rs; reflexivity.
Qed.
(* ... and before anything was requested: nothing can have failed *)
Theorem gen_tap_return_handler_no_history : forall cur hl status rs t, hl <= t ->
  AbstractTAP_tap_return_handler hl status rs cur t = (true, cur).
Proof. intros cur hl status rs t H. unfold AbstractTAP_tap_return_handler. replace (t >=? hl) with true by lia. reflexivity. Qed.

Theorem gen_tap_start : forall last s,
  AbstractTAP_tap_start (k_cur s) (k_next s) = (tt, (k_cur (k_step last s KStart), k_next (k_step last s KStart))).
Proof. intros last [c n d pg]. unfold AbstractTAP_tap_start, k_step, NOT_STARTED. cbn. destruct (c =? 100); reflexivity. Qed.

(* the stage progress is re-armed (PENDING = 0) exactly when the chain restarts, and untouched otherwise *)
Theorem gen_tap_outcome_handler : forall last s rep,
  AbstractTAP_tap_outcome_handler (k_cur s) (k_done s) rep (k_next s) (k_prog s) =
  (tt, (k_cur (k_step last s (KOutcome rep)), k_next (k_step last s (KOutcome rep)), k_prog (k_step last s (KOutcome rep)),
        k_done (k_step last s (KOutcome rep)))).
Proof.
  intros last [c n d pg] rep. unfold AbstractTAP_tap_outcome_handler, k_step, SUCCEEDED, FAILED, NOT_STARTED. cbn.
  destruct ((c =? 200) || (c =? 300)); [|reflexivity]. destruct d; [reflexivity|]. destruct rep; reflexivity.
Qed.

(* _progress_kill_chain: TAP001's last stage is PAYLOAD = 6, TAP003's is EXPLOIT = 5 *)
Theorem gen_tap001_progress : forall s p,
  TAP001_progress_kill_chain (k_next s) (k_cur s) p = (tt, (k_cur (k_step 6 s KProgress), k_next (k_step 6 s KProgress), k_prog (k_step 6 s KProgress))).
Proof.
  intros [c n d pg] p. unfold TAP001_progress_kill_chain, k_step, SUCCEEDED, NOT_STARTED. cbn.
  destruct (n =? 6); [reflexivity|]. destruct (n =? 200); reflexivity.
Qed.
Theorem gen_tap003_progress : forall s p,
  TAP003_progress_kill_chain (k_next s) (k_cur s) p = (tt, (k_cur (k_step 5 s KProgress), k_next (k_step 5 s KProgress), k_prog (k_step 5 s KProgress))).
Proof.
  intros [c n d pg] p. unfold TAP003_progress_kill_chain, k_step, SUCCEEDED, NOT_STARTED. cbn.
  destruct (n =? 5); [reflexivity|]. destruct (n =? 200); reflexivity.
Qed.

(* ---- transfer ---------------------------------------------------------------------------------------------------------- *)
From PV Require Import Proofs.ScriptedProofs.

(* whatever answer other than "success" the previous request got (failure, unreachable, pending), the translated
   _tap_return_handler reports it and leaves the stage where it was (stages repeated) or fails the chain -- never forwards *)
Theorem source_unsuccessful_response_never_advances : forall hl status rs cur t, 0 <= t < hl -> status <> 1 ->
  AbstractTAP_tap_return_handler hl status rs cur t = (false, if rs then cur else 300).
Proof.
  intros hl status rs cur t Ht Hs. unfold AbstractTAP_tap_return_handler.
  replace (t >=? hl) with false by lia. replace (status =? 1) with false by (symmetry; apply Z.eqb_neq; exact Hs).
  destruct rs; reflexivity.
Qed.
(* the translated _progress_kill_chain of both threat actors moves a well-formed chain only to the next stage, or from the last
   stage to SUCCEEDED, and keeps it well formed *)
Theorem source_progress_is_in_stage_order : forall s p, kwf 6 s -> k_cur s <> FAILED -> k_cur s <> SUCCEEDED ->
  let '(_, (c, n, _)) := TAP001_progress_kill_chain (k_next s) (k_cur s) p in
  kmove 6 (k_cur s) c /\ kwf 6 {| k_cur := c; k_next := n; k_done := k_done s; k_prog := 0 |}.
Proof.
  intros s p W H1 H2. rewrite gen_tap001_progress.
  assert (Hl : 2 <= 6 < NOT_STARTED) by (unfold NOT_STARTED; lia).
  assert (Hk : k_cur s = FAILED \/ k_cur s = SUCCEEDED -> KProgress <> KProgress) by (intros [A|A]; contradiction).
  destruct (kill_chain_order 6 s KProgress Hl W Hk) as [M K].
  split; [exact M|]. specialize (K ltac:(discriminate) H1).
  destruct (k_step 6 s KProgress) as [c n d pg] eqn:E. cbn [k_cur k_next] in *.
  unfold kwf in *. cbn [k_cur k_next] in *. exact K.
Qed.
