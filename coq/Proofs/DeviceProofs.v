(* Proofs about the device models (C06): a router / firewall that decides to deny a frame emits nothing and hands nothing to
   its own software; a forwarded frame was permitted by every list consulted; handling a frame never changes the
   blocking-relevant state (power, enabled flags, rule lists minus hit counters, routes, addresses); the device models
   satisfy the `handle_sound` obligation of the generic propagation theory, so that a delivery implies an open path and a
   separator (closed devices on every way out) implies no delivery. *)
From Coq Require Import ZArith List Bool Lia.
Import ListNotations.
From PV Require Import Base.Cases Model.Acl Model.Device Proofs.AclProofs Proofs.Propagate.
From PV Require Model.Route.
Open Scope Z_scope.

Ltac dead := let H := fresh in intros H; inversion H; subst; repeat match goal with |- _ /\ _ => split end; auto; try (intros ? ? []); try (intros; discriminate).

(* ---- rule lists modulo hit counters ------------------------------------------------------------------------------- *)
Definition strip_rule (r : rule) : rule :=
  {| r_action := r_action r; r_proto := r_proto r; r_src := r_src r; r_srcw := r_srcw r; r_dst := r_dst r;
     r_dstw := r_dstw r; r_sport := r_sport r; r_dport := r_dport r; r_count := 0 |}.
Definition zero_acl (a : acl_state) : acl_state :=
  {| a_rules := map (option_map strip_rule) (a_rules a); a_implicit := strip_rule (a_implicit a); a_max := a_max a |}.
Definition verdict (a : acl_state) (p : pkt) : bool := fst (fst (is_permitted a p)).

Lemma matches_strip r p : matches (strip_rule r) p = matches r p.
Proof. reflexivity. Qed.

Lemma scan_strip l p :
  scan (map (option_map strip_rule) l) p = option_map (fun ir => (fst ir, strip_rule (snd ir))) (scan l p).
Proof.
  induction l as [|[r|] t IH]; cbn [map option_map scan]; auto.
  - rewrite matches_strip. destruct (matches r p); auto. rewrite IH. destruct (scan t p) as [[i r0]|]; reflexivity.
  - rewrite IH. destruct (scan t p) as [[i r0]|]; reflexivity.
Qed.

Lemma verdict_zero a p : verdict (zero_acl a) p = verdict a p.
Proof.
  unfold verdict, is_permitted, zero_acl; cbn [a_rules a_implicit]. rewrite scan_strip.
  destruct (scan (a_rules a) p) as [[i r]|]; reflexivity.
Qed.

Lemma nth_split {A} (l : list A) i x : nth_error l i = Some x -> l = firstn i l ++ x :: skipn (S i) l.
Proof.
  revert i; induction l as [|a l IH]; intros [|i] H; cbn in *; try discriminate.
  - inversion H; reflexivity.
  - f_equal. apply IH; auto.
Qed.

Lemma strip_bump r : strip_rule (bump r) = strip_rule r.
Proof. reflexivity. Qed.

Lemma zero_is_permitted a p : zero_acl (snd (is_permitted a p)) = zero_acl a.
Proof.
  unfold is_permitted. pose proof (scan_spec (a_rules a) p) as S.
  destruct (scan (a_rules a) p) as [[i r]|]; cbn [snd]; unfold zero_acl; cbn [a_rules a_implicit a_max].
  - destruct S as (Hn & _ & _). f_equal. unfold set_nth. rewrite map_app. cbn [map option_map]. rewrite strip_bump.
    rewrite (nth_split _ _ _ Hn) at 3. rewrite map_app. reflexivity.
  - rewrite strip_bump. reflexivity.
Qed.

Lemma verdict_eq a a' p : zero_acl a = zero_acl a' -> verdict a p = verdict a' p.
Proof. intros H. rewrite <- (verdict_zero a), <- (verdict_zero a'), H. reflexivity. Qed.

(* ---- frames: forwarding rewrites MACs and TTL only ------------------------------------------------------------------ *)
Definition key (f : frame) : pkt * bool * bool := (f_pkt f, f_arp f, f_arpp f).
Definition kpkt (k : pkt * bool * bool) : pkt := fst (fst k).

Lemma rx_ttl_key up f f1 : rx_ttl up f = Some f1 -> key f1 = key f /\ up = true /\ f_ttl f1 = f_ttl f - 1 /\ 1 <= f_ttl f1.
Proof.
  unfold rx_ttl. destruct up; [|discriminate]. destruct (f_ttl f - 1 <? 1) eqn:E; [discriminate|].
  intros H; inversion H; subst; cbn. repeat split; auto. apply Z.ltb_ge in E. exact E.
Qed.

Lemma emit_key r q mac f q' f' : In (q', f') (emit r q mac f) -> q' = q /\ key f' = key f /\ f_ttl f' = f_ttl f - 1 /\ 1 <= f_ttl f'.
Proof.
  unfold emit. destruct (f_ttl f - 1 <? 1) eqn:E; cbn; [tauto|]. intros [H|[]]. inversion H; subst; cbn.
  apply Z.ltb_ge in E. repeat split; auto.
Qed.

Lemma route_frame_key r f q f' : In (q, f') (route_frame r f) -> key f' = key f /\ if_up r q = true /\ f_ttl f' = f_ttl f - 1.
Proof.
  unfold route_frame. destruct (Route.find_best _ _ _) as [rt|]; [|intros []].
  destruct (arp_port r (Route.r_hop rt)) as [q0|]; [|destruct (arp_mac r (Route.r_hop rt)); intros []].
  destruct (arp_mac r (Route.r_hop rt)) as [mac|]; destruct (if_up r q0) eqn:U; try (intros []);
    intros H; apply emit_key in H; destruct H as (-> & K & T & _); auto.
Qed.

Lemma process_frame_key r f q f' : In (q, f') (process_frame r f) -> key f' = key f /\ if_up r q = true /\ f_ttl f' = f_ttl f - 1.
Proof.
  unfold process_frame. destruct (f_arpp f); [intros []|]. destruct (is_own_ip r (p_dst (f_pkt f))); [intros []|].
  destruct (arp_mac r (p_dst (f_pkt f))) as [mac|]; [|intros []].
  destruct (arp_port r (p_dst (f_pkt f))) as [q0|]; [|intros []].
  destruct (if_up r q0) eqn:U; cbn [negb]; [|intros []].
  destruct (if_in_net r q0 (p_dst (f_pkt f))).
  - intros H; apply emit_key in H; destruct H as (-> & K & T & _); auto.
  - apply route_frame_key.
Qed.

(* ---- the router ----------------------------------------------------------------------------------------------------- *)
(* what "blocked" means for a router: power, interfaces, rules minus counters, routes -- not the ARP cache *)
Definition strip_router (r : router) : router :=
  {| r_on := r_on r; r_acl := zero_acl (r_acl r); r_ifs := r_ifs r; r_open := r_open r; r_arp := [];
     r_routes := r_routes r; r_dflt := r_dflt r |}.

Lemma strip_arp_learn r ip mac p : strip_router (arp_learn r ip mac p) = strip_router r.
Proof.
  unfold arp_learn. destruct (existsb _ _); auto. destruct (assoc ip (r_arp r)); auto.
Qed.
Lemma arp_learn_fields r ip mac p : r_on (arp_learn r ip mac p) = r_on r /\ r_ifs (arp_learn r ip mac p) = r_ifs r /\ r_acl (arp_learn r ip mac p) = r_acl r.
Proof. unfold arp_learn. destruct (existsb _ _); auto. destruct (assoc ip (r_arp r)); auto. Qed.
Lemma if_up_learn r ip mac p q : if_up (arp_learn r ip mac p) q = if_up r q.
Proof. unfold if_up. destruct (arp_learn_fields r ip mac p) as (_ & -> & _). reflexivity. Qed.

(* the router's verdict on a frame: exempt (ARP for the router itself) or the rule list's verdict *)
Definition router_permits (r : router) (f : frame) : bool :=
  if subject_to_acl r f then verdict (r_acl r) (f_pkt f) else true.

Lemma subject_strip r f : subject_to_acl (strip_router r) f = subject_to_acl r f.
Proof. reflexivity. Qed.
Lemma router_permits_strip r f : router_permits (strip_router r) f = router_permits r f.
Proof. unfold router_permits. rewrite subject_strip. cbn [strip_router r_acl]. rewrite verdict_zero. reflexivity. Qed.

(* the local half of the property: a router that decides to deny emits nothing, hands nothing to its own software, and
   changes nothing but the deciding rule's hit counter *)
Theorem router_deny_silent : forall r p f r' outs d,
    router_step r p f = (r', outs, d, Denied) ->
    outs = [] /\ d = false /\ strip_router r' = strip_router r /\ r_arp r' = r_arp r.
Proof.
  intros r p f r' outs d. unfold router_step.
  destruct (nth_error (r_ifs r) p) as [i|]; [|intros H; inversion H].
  destruct (router_nic_rx i f) as [f1|]; [|intros H; inversion H].
  unfold router_core. destruct (r_on r) eqn:On; cbn [negb]; [|intros H; inversion H].
  destruct (subject_to_acl r f1) eqn:Sub.
  - destruct (is_permitted (r_acl r) (f_pkt f1)) as [[b oi] a'] eqn:E.
    destruct b; cbn [negb].
    + destruct (to_session_manager _ f1); [intros H; inversion H|].
      destruct (process_frame _ f1) as [|[q f2] t]; intros H; inversion H.
    + intros H; inversion H; subst. repeat split; auto.
      unfold strip_router, with_acl; cbn. f_equal.
      change a' with (@snd (bool * option nat) acl_state (false, oi, a')). rewrite <- E. apply zero_is_permitted.
  - cbn [negb]. destruct (to_session_manager _ f1); [intros H; inversion H|].
    destruct (process_frame _ f1) as [|[q f2] t]; intros H; inversion H.
Qed.

(* and conversely: whenever the verdict on a frame that reached the powered-on router is deny, that is the decision *)
Theorem router_denies : forall r p f i f1,
    nth_error (r_ifs r) p = Some i -> router_nic_rx i f = Some f1 -> r_on r = true -> router_permits r f1 = false ->
    exists r', router_step r p f = (r', [], false, Denied).
Proof.
  intros r p f i f1 Hi Hrx On Hp. unfold router_step. rewrite Hi, Hrx. unfold router_core. rewrite On. cbn [negb].
  unfold router_permits, verdict in Hp. destruct (subject_to_acl r f1); [|discriminate].
  destruct (is_permitted (r_acl r) (f_pkt f1)) as [[b oi] a']. cbn in Hp. subst b. cbn [negb]. eauto.
Qed.

(* every step of a router: blocking state kept; whatever is emitted or handed up was permitted, arrived on an enabled
   interface of a powered-on router, and leaves through an enabled interface with the same key and a lower TTL *)
Lemma router_step_sound : forall r p f r' outs d dc,
    router_step r p f = (r', outs, d, dc) ->
    strip_router r' = strip_router r /\
    (forall q f', In (q, f') outs ->
        key f' = key f /\ (f_ttl f' < f_ttl f /\ 1 < f_ttl f) /\ r_on r = true /\ if_up r p = true /\ if_up r q = true /\
        exists f1, key f1 = key f /\ router_permits r f1 = true) /\
    (d = true -> r_on r = true /\ if_up r p = true /\ exists f1, key f1 = key f /\ router_permits r f1 = true).
Proof.
  intros r p f r' outs d dc. unfold router_step.
  destruct (nth_error (r_ifs r) p) as [i|] eqn:Hi; [|dead].
  unfold router_nic_rx. destruct (rx_ttl (n_up i) f) as [f0|] eqn:Hrx;
    [|dead].
  destruct (rx_ttl_key _ _ _ Hrx) as (K0 & Up & T0 & T1).
  assert (Hup : if_up r p = true) by (unfold if_up; rewrite Hi; exact Up).
  destruct ((f_dmac f0 =? n_mac i) || (f_dmac f0 =? BCAST)); [|dead].
  unfold router_core. destruct (r_on r) eqn:On; cbn [negb]; [|dead].
  assert (G : forall b a', (if subject_to_acl r f0 then (let '(b0, _, a0) := is_permitted (r_acl r) (f_pkt f0) in (b0, a0)) else (true, r_acl r)) = (b, a') ->
              b = router_permits r f0 /\ zero_acl a' = zero_acl (r_acl r)).
  { intros b a'. unfold router_permits, verdict. destruct (subject_to_acl r f0).
    - destruct (is_permitted (r_acl r) (f_pkt f0)) as [[b0 oi] a0] eqn:E. intros H; inversion H; subst. split; auto.
      change a' with (@snd (bool * option nat) acl_state (b, oi, a')). rewrite <- E. apply zero_is_permitted.
    - intros H; inversion H; subst; auto. }
  destruct (if subject_to_acl r f0 then _ else _) as [b a'] eqn:E. destruct (G b a' eq_refl) as [Hb Ha].
  assert (S0 : strip_router (with_acl r a') = strip_router r) by (unfold strip_router, with_acl; cbn; rewrite Ha; reflexivity).
  destruct b; cbn [negb].
  - set (r1 := arp_learn (with_acl r a') (p_src (f_pkt f0)) (f_smac f0) p).
    assert (S1 : strip_router r1 = strip_router r) by (unfold r1; rewrite strip_arp_learn; exact S0).
    destruct (to_session_manager r1 f0).
    + intros H; inversion H; subst. split; [exact S1|]. split; [intros q f' []|]. intros _. repeat split; auto. exists f0; auto.
    + destruct (process_frame r1 f0) as [|[q f2] t] eqn:Ep; intros H; inversion H; subst.
      * split; [exact S1|]. split; [intros q f' []|discriminate].
      * split; [exact S1|]. split; [|discriminate]. intros q' f' Hin. rewrite <- Ep in Hin.
        apply process_frame_key in Hin. destruct Hin as (K & U & T).
        split; [congruence|]. split; [lia|]. split; [auto|]. split; [auto|]. split.
        { unfold r1 in U. rewrite if_up_learn in U. exact U. }
        exists f0; auto.
  - intros H; inversion H; subst. split; [exact S0|]. split; [intros q f' []|discriminate].
Qed.

(* ---- the firewall --------------------------------------------------------------------------------------------------- *)
Definition strip_fw (w : firewall) : firewall :=
  {| w_base := strip_router (w_base w); w_ext_in := zero_acl (w_ext_in w); w_ext_out := zero_acl (w_ext_out w);
     w_int_in := zero_acl (w_int_in w); w_int_out := zero_acl (w_int_out w); w_dmz_in := zero_acl (w_dmz_in w);
     w_dmz_out := zero_acl (w_dmz_out w) |}.
Definition fw_verdict (w : firewall) (z : zlist) (f : frame) : bool := verdict (get_list w z) (f_pkt f).

Lemma consult_spec w z f b w' : consult w z f = (b, w') ->
  b = fw_verdict w z f /\ strip_fw w' = strip_fw w /\ w_base w' = w_base w /\
  forall z' f', fw_verdict w' z' f' = fw_verdict w z' f'.
Proof.
  unfold consult, fw_verdict, verdict. destruct (is_permitted (get_list w z) (f_pkt f)) as [[b0 oi] a] eqn:E.
  intros H; inversion H; subst.
  assert (Z : zero_acl a = zero_acl (get_list w z)).
  { change a with (@snd (bool * option nat) acl_state (b, oi, a)). rewrite <- E. apply zero_is_permitted. }
  split; auto. split; [|split; [destruct z; reflexivity|]].
  - unfold strip_fw. destruct z; cbn; rewrite Z; reflexivity.
  - intros z' f'. fold (verdict (get_list (set_list w z a) z') (f_pkt f')). fold (verdict (get_list w z') (f_pkt f')).
    apply verdict_eq. destruct z, z'; cbn; auto.
Qed.

Lemma strip_set_base w b : strip_router b = strip_router (w_base w) -> strip_fw (set_base w b) = strip_fw w.
Proof. intros H. unfold strip_fw, set_base; cbn. rewrite H. reflexivity. Qed.
Lemma fw_verdict_set_base w b z f : fw_verdict (set_base w b) z f = fw_verdict w z f.
Proof. destruct z; reflexivity. Qed.

(* a firewall that decides to deny -- at the first or at the second list -- emits nothing and hands nothing up *)
Theorem firewall_deny_silent : forall w p f w' outs d ls,
    fw_step w p f = (w', outs, d, Denied, ls) -> outs = [] /\ d = false /\ strip_fw w' = strip_fw w.
Proof.
  intros w p f w' outs d ls. unfold fw_step.
  destruct (nth_error (r_ifs (w_base w)) p) as [i|]; [|intros H; inversion H].
  destruct (router_nic_rx i f) as [f1|]; [|intros H; inversion H].
  unfold fw_core. destruct (first_list p) as [z1|]; [|intros H; inversion H].
  destruct (consult w z1 f1) as [ok1 w1] eqn:C1. destruct (consult_spec _ _ _ _ _ C1) as (_ & S1 & B1 & _).
  destruct ok1; cbn [negb]; [|intros H; inversion H; subst; auto].
  set (b1 := arp_learn (w_base w1) (p_src (f_pkt f1)) (f_smac f1) p).
  assert (S2 : strip_fw (set_base w1 b1) = strip_fw w).
  { rewrite strip_set_base; auto. unfold b1. apply strip_arp_learn. }
  destruct (to_session_manager b1 f1); [intros H; inversion H|].
  destruct (second_list b1 p f1) as [z2|]; [|intros H; inversion H].
  destruct (consult (set_base w1 b1) z2 f1) as [ok2 w3] eqn:C2. destruct (consult_spec _ _ _ _ _ C2) as (_ & S3 & _ & _).
  destruct ok2; cbn [negb].
  - destruct (process_frame b1 f1) as [|[q f2] t]; intros H; inversion H.
  - intros H; inversion H; subst. repeat split; auto. congruence.
Qed.

(* a frame a firewall forwards was permitted by the list of its arrival zone AND by the second list consulted; a frame
   handed to the firewall's own software was permitted by the list of its arrival zone *)
Lemma fw_step_sound : forall w p f w' outs d dc ls,
    fw_step w p f = (w', outs, d, dc, ls) ->
    strip_fw w' = strip_fw w /\
    (forall q f', In (q, f') outs ->
        key f' = key f /\ (f_ttl f' < f_ttl f /\ 1 < f_ttl f) /\ if_up (w_base w) p = true /\ if_up (w_base w) q = true /\
        exists f1 z1 z2, key f1 = key f /\ first_list p = Some z1 /\ fw_verdict w z1 f1 = true /\ fw_verdict w z2 f1 = true /\
                         ls = [zl_code z1; zl_code z2]) /\
    (d = true -> if_up (w_base w) p = true /\ exists f1 z1, key f1 = key f /\ first_list p = Some z1 /\ fw_verdict w z1 f1 = true).
Proof.
  intros w p f w' outs d dc ls. unfold fw_step.
  destruct (nth_error (r_ifs (w_base w)) p) as [i|] eqn:Hi; [|dead].
  unfold router_nic_rx. destruct (rx_ttl (n_up i) f) as [f0|] eqn:Hrx;
    [|dead].
  destruct (rx_ttl_key _ _ _ Hrx) as (K0 & Up & T0 & T1).
  assert (Hup : if_up (w_base w) p = true) by (unfold if_up; rewrite Hi; exact Up).
  destruct ((f_dmac f0 =? n_mac i) || (f_dmac f0 =? BCAST)); [|dead].
  unfold fw_core. destruct (first_list p) as [z1|] eqn:F1; [|dead].
  destruct (consult w z1 f0) as [ok1 w1] eqn:C1. destruct (consult_spec _ _ _ _ _ C1) as (V1 & S1 & B1 & Vk1).
  destruct ok1; cbn [negb]; [|dead].
  set (b1 := arp_learn (w_base w1) (p_src (f_pkt f0)) (f_smac f0) p).
  assert (S2 : strip_fw (set_base w1 b1) = strip_fw w).
  { rewrite strip_set_base; auto. unfold b1. apply strip_arp_learn. }
  destruct (to_session_manager b1 f0).
  { intros H; inversion H; subst. split; [exact S2|]. split; [intros q f' []|]. intros _. split; auto. exists f0, z1; auto. }
  destruct (second_list b1 p f0) as [z2|]; [|intros H; inversion H; subst; split; [exact S2|]; split; [intros q f' []|discriminate]].
  destruct (consult (set_base w1 b1) z2 f0) as [ok2 w3] eqn:C2. destruct (consult_spec _ _ _ _ _ C2) as (V2 & S3 & _ & _).
  assert (S4 : strip_fw w3 = strip_fw w) by congruence.
  destruct ok2; cbn [negb]; [|intros H; inversion H; subst; split; [exact S4|]; split; [intros q f' []|discriminate]].
  destruct (process_frame b1 f0) as [|[q f2] t] eqn:Ep; intros H; inversion H; subst.
  - split; [exact S4|]. split; [intros q f' []|discriminate].
  - split; [exact S4|]. split; [|discriminate]. intros q' f' Hin. rewrite <- Ep in Hin.
    apply process_frame_key in Hin. destruct Hin as (K & U & T).
    split; [congruence|]. split; [lia|]. split; [auto|]. split.
    { unfold b1 in U. rewrite if_up_learn, B1 in U. exact U. }
    exists f0, z1, z2. repeat split; auto.
    rewrite fw_verdict_set_base, Vk1 in V2. auto.
Qed.

Theorem firewall_forward_permitted_twice : forall w p f w' outs d dc ls q f',
    fw_step w p f = (w', outs, d, dc, ls) -> In (q, f') outs ->
    exists f1 z1 z2, key f1 = key f /\ first_list p = Some z1 /\ fw_verdict w z1 f1 = true /\ fw_verdict w z2 f1 = true /\
                     ls = [zl_code z1; zl_code z2].
Proof.
  intros w p f w' outs d dc ls q f' E Hin. destruct (fw_step_sound _ _ _ _ _ _ _ _ E) as (_ & Ho & _).
  destruct (Ho _ _ Hin) as (_ & _ & _ & _ & f1 & z1 & z2 & H). exists f1, z1, z2. exact H.
Qed.

(* ---- hosts and switches ---------------------------------------------------------------------------------------------- *)
Definition strip_switch (s : switch) : switch := {| s_up := s_up s; s_table := [] |}.

Lemma host_handle_sound h p f h' outs d : host_handle h p f = (h', outs, d) ->
  h' = h /\ outs = [] /\ (d = true -> exists i, nth_error (h_nics h) p = Some i /\ n_up i = true).
Proof.
  unfold host_handle. destruct (nth_error (h_nics h) p) as [i|]; [|dead].
  destruct (rx_ttl (n_up i) f) as [f1|] eqn:E; [|dead].
  destruct (rx_ttl_key _ _ _ E) as (_ & U & _). intros H; inversion H; subst. repeat split; auto. intros _. eauto.
Qed.

(* power-off disables every interface (Node.power_off); a host in that condition accepts nothing *)
Definition wf_host (h : host) : Prop := h_on h = false -> forall i, In i (h_nics h) -> n_up i = false.
Theorem host_off_accepts_nothing h p f : wf_host h -> h_on h = false -> host_handle h p f = (h, [], false).
Proof.
  intros W Off. unfold host_handle. destruct (nth_error (h_nics h) p) as [i|] eqn:E; auto.
  rewrite (W Off i (nth_error_In _ _ E)). reflexivity.
Qed.
Theorem host_interface_down_accepts_nothing h p f i : nth_error (h_nics h) p = Some i -> n_up i = false -> host_handle h p f = (h, [], false).
Proof. intros E U. unfold host_handle. rewrite E, U. reflexivity. Qed.

Lemma switch_handle_sound s p f s' outs d : switch_handle s p f = (s', outs, d) ->
  strip_switch s' = strip_switch s /\ d = false /\
  forall q f', In (q, f') outs -> key f' = key f /\ (f_ttl f' < f_ttl f /\ 1 < f_ttl f) /\ port_up (s_up s) p = true /\ port_up (s_up s) q = true.
Proof.
  unfold switch_handle. destruct (rx_ttl (port_up (s_up s) p) f) as [f1|] eqn:E;
    [|dead].
  destruct (rx_ttl_key _ _ _ E) as (K & U & T & T1).
  assert (Flood : forall q f', In (q, f') (map (fun q0 => (q0, f1)) (filter (fun q0 => port_up (s_up s) q0 && negb (Nat.eqb q0 p)) (seq 0 (length (s_up s))))) ->
                  key f' = key f /\ (f_ttl f' < f_ttl f /\ 1 < f_ttl f) /\ port_up (s_up s) p = true /\ port_up (s_up s) q = true).
  { intros q f' Hin. apply in_map_iff in Hin. destruct Hin as (q0 & Eq & Hf). inversion Eq; subst.
    apply filter_In in Hf. destruct Hf as [_ Hf]. apply andb_true_iff in Hf. destruct Hf as [Hq _]. repeat split; auto; lia. }
  cbn [s_table s_up]. destruct (assoc (f_dmac f1) _) as [q0|].
  - destruct (negb (f_dmac f1 =? BCAST)).
    + intros H; inversion H; subst. split; [reflexivity|]. split; [reflexivity|]. intros q f' Hin.
      destruct (port_up (s_up s) q0) eqn:Uq; [|destruct Hin]. destruct Hin as [Hin|[]]. inversion Hin; subst. repeat split; auto; lia.
    + intros H; inversion H; subst. split; [reflexivity|]. split; [reflexivity|]. exact Flood.
  - intros H; inversion H; subst. split; [reflexivity|]. split; [reflexivity|]. exact Flood.
Qed.

(* ---- a network of devices: the obligations of the propagation theory ----------------------------------------------------- *)
Definition strip_dev (d : dev) : dev :=
  match d with DHost h => DHost h | DSwitch s => DSwitch (strip_switch s) | DRouter r => DRouter (strip_router r) | DFirewall w => DFirewall (strip_fw w) end.

Definition net := list dev.
Definition net_handle (s : net) (n p : nat) (f : frame) : net * list (nat * frame) * bool :=
  match nth_error s n with
  | Some d => let '(d', outs, b) := dev_handle d p f in (set_nth s n d', outs, b)
  | None => (s, [], false)
  end.
Definition bstate (s : net) : list dev := map strip_dev s.

(* may device d (blocking state) pass key k from port p to port q / hand it to its own software? *)
Definition dev_open (d : dev) (p q : nat) (k : pkt * bool * bool) : Prop :=
  match d with
  | DHost _ => False
  | DSwitch s => port_up (s_up s) p = true /\ port_up (s_up s) q = true
  | DRouter r => r_on r = true /\ if_up r p = true /\ if_up r q = true /\ exists f1, key f1 = k /\ router_permits r f1 = true
  | DFirewall w => if_up (w_base w) p = true /\ if_up (w_base w) q = true /\
                   exists f1 z1 z2, key f1 = k /\ first_list p = Some z1 /\ fw_verdict w z1 f1 = true /\ fw_verdict w z2 f1 = true
  end.
Definition dev_accepts (d : dev) (p : nat) (k : pkt * bool * bool) : Prop :=
  match d with
  | DHost h => exists i, nth_error (h_nics h) p = Some i /\ n_up i = true
  | DSwitch _ => False
  | DRouter r => r_on r = true /\ if_up r p = true /\ exists f1, key f1 = k /\ router_permits r f1 = true
  | DFirewall w => if_up (w_base w) p = true /\ exists f1 z1, key f1 = k /\ first_list p = Some z1 /\ fw_verdict w z1 f1 = true
  end.
Definition open_hop (b : list dev) (n p q : nat) (k : pkt * bool * bool) : Prop :=
  exists d, nth_error b n = Some d /\ dev_open d p q k.
Definition accepts (b : list dev) (n p : nat) (k : pkt * bool * bool) : Prop :=
  exists d, nth_error b n = Some d /\ dev_accepts d p k.

Lemma map_set_nth {A B} (g : A -> B) l i x y : nth_error l i = Some y -> g x = g y -> map g (set_nth l i x) = map g l.
Proof.
  intros Hn Hg. unfold set_nth. rewrite map_app. cbn [map]. rewrite Hg. rewrite (nth_split _ _ _ Hn) at 3. rewrite map_app. reflexivity.
Qed.

Lemma fw_verdict_strip w z f : fw_verdict (strip_fw w) z f = fw_verdict w z f.
Proof. unfold fw_verdict. destruct z; cbn; apply verdict_zero. Qed.

Theorem net_handle_sound : forall s n p f s' outs d, net_handle s n p f = (s', outs, d) ->
    bstate s' = bstate s /\
    (forall q f', In (q, f') outs -> key f' = key f /\ open_hop (bstate s) n p q (key f)) /\
    (d = true -> accepts (bstate s) n p (key f)).
Proof.
  intros s n p f s' outs d. unfold net_handle. destruct (nth_error s n) as [dv|] eqn:Hn;
    [|dead].
  assert (Hb : nth_error (bstate s) n = Some (strip_dev dv)) by (unfold bstate; rewrite nth_error_map, Hn; reflexivity).
  destruct dv as [h|sw|r|w]; cbn [dev_handle].
  - destruct (host_handle h p f) as [[h' o] b] eqn:E. destruct (host_handle_sound _ _ _ _ _ _ E) as (-> & -> & Hd).
    intros H; inversion H; subst. split; [apply (map_set_nth strip_dev _ _ _ _ Hn); reflexivity|]. split; [intros q f' []|].
    intros D. exists (DHost h). split; auto. cbn. auto.
  - destruct (switch_handle sw p f) as [[s1 o] b] eqn:E. destruct (switch_handle_sound _ _ _ _ _ _ E) as (S1 & -> & Ho).
    intros H; inversion H; subst. split; [apply (map_set_nth strip_dev _ _ _ _ Hn); cbn; rewrite S1; reflexivity|]. split; [|discriminate].
    intros q f' Hin. destruct (Ho _ _ Hin) as (K & _ & U1 & U2). split; auto. exists (DSwitch (strip_switch sw)). split; auto. cbn. auto.
  - unfold router_handle. destruct (router_step r p f) as [[[r1 o] b] dc] eqn:E. cbn [fst].
    destruct (router_step_sound _ _ _ _ _ _ _ E) as (S1 & Ho & Hd).
    intros H; inversion H; subst. split; [apply (map_set_nth strip_dev _ _ _ _ Hn); cbn; rewrite S1; reflexivity|]. split.
    + intros q f' Hin. destruct (Ho _ _ Hin) as (K & _ & On & U1 & U2 & f1 & K1 & P1). split; auto.
      exists (DRouter (strip_router r)). split; auto. cbn. repeat split; auto. exists f1. rewrite router_permits_strip. auto.
    + intros D. destruct (Hd D) as (On & U1 & f1 & K1 & P1). exists (DRouter (strip_router r)). split; auto. cbn. repeat split; auto.
      exists f1. rewrite router_permits_strip. auto.
  - unfold fw_handle. destruct (fw_step w p f) as [[[[w1 o] b] dc] ls] eqn:E. cbn [fst].
    destruct (fw_step_sound _ _ _ _ _ _ _ _ E) as (S1 & Ho & Hd).
    intros H; inversion H; subst. split; [apply (map_set_nth strip_dev _ _ _ _ Hn); cbn; rewrite S1; reflexivity|]. split.
    + intros q f' Hin. destruct (Ho _ _ Hin) as (K & _ & U1 & U2 & f1 & z1 & z2 & K1 & F1 & V1 & V2 & _). split; auto.
      exists (DFirewall (strip_fw w)). split; auto. cbn. repeat split; auto. exists f1, z1, z2. rewrite !fw_verdict_strip. auto.
    + intros D. destruct (Hd D) as (U1 & f1 & z1 & K1 & F1 & V1). exists (DFirewall (strip_fw w)). split; auto. cbn. split; auto.
      exists f1, z1. rewrite fw_verdict_strip. auto.
Qed.

Lemma net_handle_ttl : forall s n p f s' outs d, net_handle s n p f = (s', outs, d) ->
    forall q f', In (q, f') outs -> (Z.to_nat (f_ttl f') < Z.to_nat (f_ttl f))%nat.
Proof.
  intros s n p f s' outs d. unfold net_handle. destruct (nth_error s n) as [dv|]; [|intros H; inversion H; subst; intros q f' []].
  destruct dv as [h|sw|r|w]; cbn [dev_handle].
  - destruct (host_handle h p f) as [[h' o] b] eqn:E. destruct (host_handle_sound _ _ _ _ _ _ E) as (_ & -> & _).
    intros H; inversion H; subst. intros q f' [].
  - destruct (switch_handle sw p f) as [[s1 o] b] eqn:E. destruct (switch_handle_sound _ _ _ _ _ _ E) as (_ & _ & Ho).
    intros H; inversion H; subst. intros q f' Hin. destruct (Ho _ _ Hin) as (_ & T & _). lia.
  - unfold router_handle. destruct (router_step r p f) as [[[r1 o] b] dc] eqn:E. cbn [fst].
    destruct (router_step_sound _ _ _ _ _ _ _ E) as (_ & Ho & _).
    intros H; inversion H; subst. intros q f' Hin. destruct (Ho _ _ Hin) as (_ & T & _). lia.
  - unfold fw_handle. destruct (fw_step w p f) as [[[[w1 o] b] dc] ls] eqn:E. cbn [fst].
    destruct (fw_step_sound _ _ _ _ _ _ _ _ E) as (_ & Ho & _).
    intros H; inversion H; subst. intros q f' Hin. destruct (Ho _ _ Hin) as (_ & T & _). lia.
Qed.

(* ---- the global half of the property, for every wiring of these devices --------------------------------------------------- *)
Section Network.
  Variable wire : nat -> nat -> option (nat * nat).
  Definition propagate := prop nat nat frame net wire net_handle.
  Definition path := open_path nat nat (pkt * bool * bool) (list dev) wire open_hop accepts.

  Theorem delivery_needs_open_path : forall fuel s n p f s' del,
      propagate fuel s n p f = (s', del) ->
      bstate s' = bstate s /\ forall n' p', In (n', p') del -> path (bstate s) (key f) n p n' p'.
  Proof. exact (delivered_implies_open_path nat nat frame net _ _ wire net_handle key bstate open_hop accepts net_handle_sound). Qed.

  Theorem separated_no_delivery : forall fuel s n p f (S : nat -> Prop) nB pB,
      (forall x p q y p', S x -> wire x q = Some (y, p') -> open_hop (bstate s) x p q (key f) -> S y) ->
      S n -> ~ S nB -> ~ In (nB, pB) (snd (propagate fuel s n p f)).
  Proof. exact (cut_no_delivery nat nat frame net _ _ wire net_handle key bstate open_hop accepts net_handle_sound). Qed.

  Theorem propagation_ends : forall k fuel1 fuel2 s n p f,
      (Z.to_nat (f_ttl f) < k)%nat -> (k <= fuel1)%nat -> (k <= fuel2)%nat -> propagate fuel1 s n p f = propagate fuel2 s n p f.
  Proof. exact (propagation_terminates nat nat frame net wire net_handle (fun f => Z.to_nat (f_ttl f)) net_handle_ttl). Qed.
End Network.

(* ---- what closes a device ------------------------------------------------------------------------------------------------ *)
Theorem router_off_is_closed r p q k : r_on r = false -> ~ dev_open (DRouter r) p q k /\ ~ dev_accepts (DRouter r) p k.
Proof. intros Off. split; cbn; intros H; destruct H as (On & _); congruence. Qed.
Theorem router_deny_is_closed r p q k :
  (forall f1, key f1 = k -> router_permits r f1 = false) -> ~ dev_open (DRouter r) p q k /\ ~ dev_accepts (DRouter r) p k.
Proof.
  intros D. split; cbn.
  - intros (_ & _ & _ & f1 & K & P). rewrite (D f1 K) in P. discriminate.
  - intros (_ & _ & f1 & K & P). rewrite (D f1 K) in P. discriminate.
Qed.
Theorem port_down_is_closed_router r p q k : if_up r p = false \/ if_up r q = false -> ~ dev_open (DRouter r) p q k.
Proof. intros [U|U]; cbn; intros (_ & U1 & U2 & _); congruence. Qed.
Theorem port_down_is_closed_switch s p q k : port_up (s_up s) p = false \/ port_up (s_up s) q = false -> ~ dev_open (DSwitch s) p q k.
Proof. intros [U|U]; cbn; intros (U1 & U2); congruence. Qed.
Theorem firewall_first_list_deny_is_closed w p q k z1 :
  first_list p = Some z1 -> (forall f1, key f1 = k -> fw_verdict w z1 f1 = false) ->
  ~ dev_open (DFirewall w) p q k /\ ~ dev_accepts (DFirewall w) p k.
Proof.
  intros F D. split; cbn.
  - intros (_ & _ & f1 & z & z2 & K & F' & V & _). rewrite F in F'. inversion F' as [Ez]. rewrite <- Ez in V. rewrite (D f1 K) in V. discriminate.
  - intros (_ & f1 & z & K & F' & V). rewrite F in F'. inversion F' as [Ez]. rewrite <- Ez in V. rewrite (D f1 K) in V. discriminate.
Qed.
Theorem port_down_is_closed_firewall w p q k : if_up (w_base w) p = false \/ if_up (w_base w) q = false -> ~ dev_open (DFirewall w) p q k.
Proof. intros [U|U]; cbn; intros (U1 & U2 & _); congruence. Qed.
Theorem host_never_forwards h p q k : ~ dev_open (DHost h) p q k.
Proof. cbn. tauto. Qed.
Theorem missing_link_is_closed : forall (wire : nat -> nat -> option (nat * nat)) b k n p q n' p',
    wire n q = None -> ~ (open_hop b n p q k /\ wire n q = Some (n', p')).
Proof. intros wire b k n p q n' p' W [_ H]. congruence. Qed.
