(* Gen = Model: the NMNE part of NICObservation.observe translated from the current source by translator/py2coq_imp.py (the
   body of `if self.include_nmne:`; the cumulative counts read from the state are parameters) is Model/Nmne.v's `Observe`
   on a host that is ON: each leaf is the bin of the count since the previous observation, and the counts are remembered. *)
From Coq Require Import ZArith Bool List Lia.
Import ListNotations.
From PV Require Import Model.Obs Model.Nmne Gen.GenObs Gen.GenNmneObs Proofs.GenEqObs.
Open Scope Z_scope.

Theorem gen_observe_nmne : forall lo me hi s oi oo,
  NICObservation_observe_nmne (n_in s) (n_out s) (l_in s) hi me lo oi (l_out s) oo =
  (let '(s', out) := nstep lo me hi s (Observe true) in
   (tt, (nth 0 out 0, nth 1 out 0, l_in s', l_out s'))).
Proof.
  intros lo me hi s oi oo. unfold NICObservation_observe_nmne, nstep. cbn [nth l_in l_out].
  rewrite !gen_categorise_mne_count. reflexivity.
Qed.

(* transfer: an interface that captured nothing since it was last observed reads 0 whatever it had captured before, and what it
   reports never leaves Discrete(4) *)
From PV Require Import Proofs.ObsProofs.
Theorem source_nmne_leaf_counts_since_last_observation : forall lo me hi n_i n_o oi oo, 0 <= lo <= me -> me <= hi ->
  let '(_, (a, b, li, lout)) := NICObservation_observe_nmne n_i n_o n_i hi me lo oi n_o oo in
  a = 0 /\ b = 0 /\ li = n_i /\ lout = n_o.
Proof.
  intros lo me hi n_i n_o oi oo H1 H2. unfold NICObservation_observe_nmne. cbn zeta.
  rewrite !gen_categorise_mne_count, !Z.sub_diag.
  assert (E : categorise lo me hi 0 = 0) by (apply (categorise_edges lo me hi 0); lia).
  rewrite E. auto.
Qed.
