(* Gen = Model: Node.scan and the part of Node.apply_timestep that runs while the node is ON (an `only_if` slice), translated
   from the current source by translator/py2coq_imp.py, against the whole-node scan of Model/FileHealth.v: the request arms the
   countdown with max(duration, 1); each tick lowers a running countdown and, on reaching 0, scans every process (1), every
   service (2), every application (3) and the file system (4) -- every one, whatever its state -- before the software's own
   timestep (9-12). *)
From Coq Require Import ZArith Bool List Lia.
Import ListNotations.
From PV Require Import Model.FileHealth Gen.GenNodeScan.
Open Scope Z_scope.

Definition ev (k : Z) : Z * list Z := (k, []).

Theorem gen_node_scan_request : forall g, Node_scan (ndur g) (ncd g) = (true, ncd (step g NodeScan)).
Proof. intros g. reflexivity. Qed.

Theorem gen_node_scan_tick : forall g rc, rc <= 0 ->
  Node_apply_timestep_while_on (ncd g) [] rc =
  (tt, (ncd (node_scan_tick g),
        (if (0 <? ncd g) && (ncd g - 1 =? 0) then [ev 1; ev 2; ev 3; ev 4] else []) ++ [ev 9; ev 10; ev 11; ev 12], rc)).
Proof.
  intros g rc Hr. unfold Node_apply_timestep_while_on, node_scan_tick. rewrite !Z.gtb_ltb.
  replace (0 <? rc) with false by (symmetry; apply Z.ltb_ge; exact Hr).
  destruct (0 <? ncd g); cbn [andb]; [|reflexivity].
  cbn [ncd]. destruct (ncd g - 1 =? 0) eqn:E.
  - match goal with |- context [existsb ?f ?l] => destruct (existsb f l) end; cbn [ncd set_g upd_fls]; apply Z.eqb_eq in E; rewrite E; reflexivity.
  - reflexivity.
Qed.
