(* Gen = Model: IOSoftware.add_connection, DatabaseService._process_connect and DatabaseService._process_sql translated from
   the current source by translator/py2coq_imp.py against Model/Database.v.  The connection table is represented by its size
   and an event (1 = a connection was recorded); connection ids are fresh (the implementation draws uuid4s). *)
From Coq Require Import ZArith Bool List Lia.
Import ListNotations.
From PV Require Import Model.Software Model.Database Gen.GenDatabase.
Open Scope Z_scope.

Definition sql_to_Z (q : sql) : Z := match q with SELECT => 1 | DELETE => 2 | ENCRYPT => 3 | INSERT => 4 | PGSTAT => 5 | UNKNOWN => 0 end.

Lemma hlth_set_conns d c n : hlth (set_conns d c n) = hlth d. Proof. reflexivity. Qed.
Lemma hlth_set_health d h : hlth (set_health d h) = h. Proof. reflexivity. Qed.

Theorem gen_process_connect : forall d pw nid,
  let '(d', code) := process_connect d pw in
  DatabaseService_process_connect 1 (health_to_Z (hlth d)) (opt_eq (d_pw d) pw) nid (Z.of_nat (length (d_conns d))) (d_max d) false [] =
  ((code, code =? 200), (health_to_Z (hlth d'), if code =? 200 then [(1, [])] else [])).
Proof.
  intros d pw nid. unfold process_connect, DatabaseService_process_connect, IOSoftware_add_connection, Software_set_health_state.
  rewrite Z.geb_leb.
  assert (L : (d_max d <=? Z.of_nat (length (d_conns d))) = negb (Z.of_nat (length (d_conns d)) <? d_max d)).
  { destruct (Z.of_nat (length (d_conns d)) <? d_max d) eqn:E; cbn [negb]; [apply Z.leb_gt; apply Z.ltb_lt; exact E | apply Z.leb_le; apply Z.ltb_ge; exact E]. }
  rewrite L. clear L.
  destruct (hlth d) eqn:H; cbn [health_eqb health_to_Z Z.eqb Pos.eqb orb].
  - rewrite H. reflexivity.
  - destruct (opt_eq (d_pw d) pw); [|rewrite H; reflexivity].
    destruct (Z.of_nat (length (d_conns d)) <? d_max d); cbn [negb]; [rewrite hlth_set_conns, H|rewrite hlth_set_health]; reflexivity.
  - destruct (opt_eq (d_pw d) pw); [|rewrite H; reflexivity].
    destruct (Z.of_nat (length (d_conns d)) <? d_max d); cbn [negb]; [rewrite hlth_set_conns, H|rewrite hlth_set_health]; reflexivity.
  - destruct (opt_eq (d_pw d) pw); [|rewrite H; reflexivity].
    destruct (Z.of_nat (length (d_conns d)) <? d_max d); cbn [negb]; [rewrite hlth_set_conns, H|rewrite hlth_set_health]; reflexivity.
  - rewrite H. reflexivity.
Qed.
(* a service that is not RUNNING answers 404 and changes nothing *)
Theorem gen_process_connect_not_running : forall o h pm nid n mx ex, o <> 1 ->
  DatabaseService_process_connect o h pm nid n mx ex [] = ((404, false), (h, [])).
Proof. intros o h pm nid n mx ex Ho. unfold DatabaseService_process_connect. replace (o =? 1) with false by (symmetry; apply Z.eqb_neq; exact Ho). reflexivity. Qed.

(* status code and the health of database.db afterwards, for every query kind *)
Theorem gen_process_sql : forall d q c a fo dl,
  let '(d', code) := process_sql d q in
  let r := DatabaseService_process_sql (negb (d_file d =? 0)) (health_to_Z (hlth d)) (d_file d) c a fo dl (sql_to_Z q) in
  fst r = code /\ fst (fst (fst (fst (snd r)))) = d_file d'.
Proof.
  intros d q c a fo dl. unfold process_sql, DatabaseService_process_sql.
  destruct (d_file d =? 0) eqn:F0; cbn [negb]; [split; reflexivity|].
  destruct (hlth d) eqn:H; cbn [health_eqb health_to_Z Z.eqb Pos.eqb negb]; try (split; reflexivity).
  destruct q; cbn [sql_to_Z Z.eqb Pos.eqb]; try (split; reflexivity).
  destruct (d_file d =? 3); [split; reflexivity|]. destruct (d_file d =? 1); split; reflexivity.
Qed.

(* ---- transfer: read off the translated function directly ---------------------------------------------------------------- *)
(* the translated _process_connect answers 200 only when the service is RUNNING, its health is GOOD / FIXING / COMPROMISED,
   the password matches, there is room for another session and the identifier is new; exactly then is a connection recorded *)
Theorem source_connect_only_with_correct_password : forall os h pm nid n mx ex,
  let res := DatabaseService_process_connect os h pm nid n mx ex [] in
  (fst (fst res) = 200 -> os = 1 /\ (h = 1 \/ h = 2 \/ h = 3) /\ pm = true /\ n < mx /\ ex = false) /\
  (snd (snd res) <> [] -> fst (fst res) = 200).
Proof.
  intros os h pm nid n mx ex. unfold DatabaseService_process_connect, IOSoftware_add_connection, Software_set_health_state.
  destruct (os =? 1) eqn:O; cbn; [|split; intros; [discriminate|contradiction]].
  apply Z.eqb_eq in O.
  destruct ((h =? 1) || (h =? 2) || (h =? 3)) eqn:H; [|split; intros; [discriminate|contradiction]].
  destruct pm; [|split; intros; [discriminate|contradiction]].
  rewrite Z.geb_leb. destruct (mx <=? n) eqn:M; cbn; [split; intros; [discriminate|contradiction]|].
  apply Z.leb_gt in M.
  assert (Hh : h = 1 \/ h = 2 \/ h = 3) by lia.
  destruct (h =? 4) eqn:H4; [apply Z.eqb_eq in H4; lia|].
  destruct ex; cbn; split; intros; try discriminate; try contradiction; auto.
Qed.
