(* Gen = Model: the health / deletion methods of File, translated from the current source by translator/py2coq_imp.py, are
   the file operations of Model/FileHealth.v (health) on a live file, refuse a deleted file, and count one access each. *)
From Coq Require Import ZArith Bool Lia.
From PV Require Import Model.FileHealth Gen.GenFile.
Open Scope Z_scope.

Theorem gen_file_scan : forall f n,
  File_scan false n (fh f) (fv f) = (true, (n + 1, fv (f_scan f))) /\ File_scan true n (fh f) (fv f) = (false, (n, fv f)).
Proof. intros [h v] n; split; reflexivity. Qed.
Theorem gen_file_repair : forall f n,
  File_repair false (fh f) n = (true, (fh (f_repair f), n + 1)) /\ File_repair true (fh f) n = (false, (fh f, n)).
Proof. intros [h v] n; split; [|reflexivity]. unfold File_repair, f_repair; cbn. destruct (h =? 3); reflexivity. Qed.
Theorem gen_file_corrupt : forall f n,
  File_corrupt false (fh f) n = (true, (fh (f_corrupt f), n + 1)) /\ File_corrupt true (fh f) n = (false, (fh f, n)).
Proof. intros [h v] n; split; [|reflexivity]. unfold File_corrupt, f_corrupt; cbn. destruct (h =? 1); reflexivity. Qed.
(* restore: a live file is repaired (the model's FileRestore = f_repair); a deleted one only loses the flag *)
Theorem gen_file_restore : forall f n,
  File_restore false (fh f) n = (true, (false, fh (f_repair f), n + 1)) /\ File_restore true (fh f) n = (true, (false, fh f, n)).
Proof. intros [h v] n; split; [|reflexivity]. unfold File_restore, f_repair; cbn. destruct (h =? 3); reflexivity. Qed.
Theorem gen_file_delete : forall n, File_delete false n = (true, (n + 1, true)) /\ File_delete true n = (false, (n, true)).
Proof. intros n; split; reflexivity. Qed.
Theorem gen_file_pre_timestep : forall n, File_pre_timestep n = (tt, 0).
Proof. reflexivity. Qed.
