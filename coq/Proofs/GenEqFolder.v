(* Gen = Model: the health methods of Folder translated from the current source by translator/py2coq_imp.py against
   Model/FileHealth.v (a live folder).  Loops over the folder's files are recorded as events (1 scan every file, 2 repair,
   3 corrupt, 4 restore the live files, 5 restore the deleted files); the worst file health read at scan completion is a
   parameter, instantiated here with the model's `worst`. *)
From Coq Require Import ZArith Bool List Lia.
Import ListNotations.
From PV Require Import Model.FileHealth Gen.GenFolder.
Open Scope Z_scope.

Theorem gen_folder_scan_request : forall g va b,
  Folder_scan false [] va (gv g) b (scd g) (sdur g) false = (true, ([], gv (step g FolderScan), b, scd (step g FolderScan))) /\
  Folder_scan false [] va (gv g) b (scd g) (sdur g) true = (true, ([(1, [])], va, true, scd g)) /\
  Folder_scan true [] va (gv g) b (scd g) (sdur g) false = (false, ([], gv g, b, scd g)).
Proof.
  intros g va b. unfold Folder_scan, step. repeat split. destruct (scd g <=? 0); reflexivity.
Qed.
Theorem gen_folder_repair : forall g, Folder_repair false [] (gh g) = (true, ([(2, [])], gh (step g FolderRepair))).
Proof. intros g. unfold Folder_repair. cbn. destruct (gh g =? 3); reflexivity. Qed.
Theorem gen_folder_corrupt : forall g, Folder_corrupt false [] (gh g) = (true, ([(3, [])], gh (step g FolderCorrupt))).
Proof. intros g. reflexivity. Qed.
Theorem gen_folder_restore : forall g,
  Folder_restore false (rcd g) (rdur g) (gh g) = (true, (false, rcd (step g FolderRestore), gh (step g FolderRestore))).
Proof. intros g. unfold Folder_restore, step. destruct (rcd g <=? 0); reflexivity. Qed.

Theorem gen_folder_scan_timestep : forall g b,
  let g' := scan_tick g in
  let done := (0 <=? scd g) && (scd g - 1 =? 0) in
  Folder_scan_timestep (scd g) [] (worst (map f_scan (fls g))) (gh g) (gv g) b =
  (tt, (scd g', (if done then [(1, [])] else []), gh g', gv g', (if done then true else b))).
Proof.
  intros g b. unfold Folder_scan_timestep, scan_tick. rewrite Z.geb_leb.
  destruct (0 <=? scd g); cbn [andb]; [|reflexivity].
  cbn [scd]. destruct (scd g - 1 =? 0); reflexivity.
Qed.
Theorem gen_folder_restoring_timestep : forall g,
  let g' := restore_tick g in
  let done := (0 <=? rcd g) && (rcd g - 1 =? 0) in
  Folder_restoring_timestep (rcd g) [] false (gh g) =
  (tt, (rcd g', (if done then [(4, []); (5, [])] else []), false, gh g')).
Proof.
  intros g. unfold Folder_restoring_timestep, restore_tick. rewrite Z.geb_leb.
  destruct (0 <=? rcd g); cbn [andb]; [|reflexivity].
  cbn [rcd]. destruct (rcd g - 1 =? 0); [|reflexivity].
  cbn. destruct ((gh g =? 3) || (gh g =? 4)); reflexivity.
Qed.
