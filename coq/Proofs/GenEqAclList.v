(* Gen = Model: AccessControlList.is_permitted translated from the current source by translator/py2coq_imp.py -- its loop
   over the rule slots with `continue` on an empty slot and `break` on the first match, as a fold -- decides as
   Model/Acl.v's `scan` / `is_permitted`: the first occupied slot whose rule matches gives the verdict and is the rule whose
   counter is incremented, otherwise the implicit action and the implicit rule.  Per slot the translation reads: occupied?,
   permit_frame_check's two results (tied to the model's `matches` by GenEqAclRule), and the slot's position as identifier. *)
From Coq Require Import ZArith Bool List Lia.
Import ListNotations.
From PV Require Import Model.Acl Gen.GenAclList.
Open Scope Z_scope.

Definition slot_item (p : pkt) (k : nat) (s : option rule) : bool * bool * bool * Z :=
  match s with
  | None => (false, false, false, Z.of_nat k)
  | Some r => (true, permitted_b (r_action r) && matches r p, matches r p, Z.of_nat k)
  end.
Fixpoint items (p : pkt) (k : nat) (l : list (option rule)) : list (bool * bool * bool * Z) :=
  match l with [] => [] | s :: t => slot_item p k s :: items p (S k) t end.

Theorem gen_is_permitted : forall acl p implicit implicit_id,
  AccessControlList_is_permitted (items p 0 acl) [] (action_to_Z implicit) implicit_id =
  match scan acl p with
  | Some (i, r) => ((permitted_b (r_action r), Some (Z.of_nat i)), [(1, [])])
  | None => ((permitted_b implicit, Some implicit_id), [(1, [])])
  end.
Proof.
  intros acl p implicit implicit_id. unfold AccessControlList_is_permitted.
  match goal with |- context [fold_left ?f _ _] => set (F := f) end.
  assert (Hstop : forall its a b, fold_left F its (a, b, true) = (a, b, true)).
  { induction its as [|x t IH]; intros a b; cbn [fold_left]; [reflexivity|].
    unfold F at 2. destruct x as [[[x1 x2] x3] x4]. apply IH. }
  assert (H : forall l k perm0,
    match scan l p with
    | Some (i, r) => fold_left F (items p k l) (perm0, None, false) = (permitted_b (r_action r), Some (Z.of_nat (k + i)), true)
    | None => exists perm', fold_left F (items p k l) (perm0, None, false) = (perm', None, false)
    end).
  { induction l as [|s t IH]; intros k perm0; cbn [scan items fold_left].
    - exists perm0. reflexivity.
    - destruct s as [r|]; cbn [slot_item].
      + unfold F at 2. cbn [negb]. destruct (matches r p) eqn:M.
        * cbn [andb option_map]. rewrite Bool.andb_true_r. rewrite Hstop. replace (k + 0)%nat with k by lia. reflexivity.
        * rewrite Bool.andb_false_r. specialize (IH (S k) false).
          destruct (scan t p) as [[i r']|]; cbn [option_map].
          -- rewrite IH. replace (S k + i)%nat with (k + S i)%nat by lia. reflexivity.
          -- exact IH.
      + unfold F at 2. cbn [negb]. specialize (IH (S k) perm0).
        destruct (scan t p) as [[i r']|]; cbn [option_map].
        -- rewrite IH. replace (S k + i)%nat with (k + S i)%nat by lia. reflexivity.
        -- exact IH. }
  specialize (H acl 0%nat false).
  destruct (scan acl p) as [[i r]|].
  - rewrite H. cbn. reflexivity.
  - destruct H as [perm' H]. rewrite H. destruct implicit; reflexivity.
Qed.

(* ---- transfer: the model's theorem, stated about the function translated from the current source --------------------- *)
From PV Require Import Proofs.AclProofs.

(* the verdict of the translated is_permitted is the action of the lowest-positioned occupied slot whose rule matches the
   packet in every specified field (wildcards bitwise), and that slot is the rule it reports; with no such slot, the implicit
   action and the implicit rule *)
Theorem source_is_permitted_is_first_match : forall acl p implicit implicit_id,
  let '((verdict, reported), _) := AccessControlList_is_permitted (items p 0 acl) [] (action_to_Z implicit) implicit_id in
  (exists i r, first_match acl p i r /\ verdict = permitted_b (r_action r) /\ reported = Some (Z.of_nat i)) \/
  (no_match acl p /\ verdict = permitted_b implicit /\ reported = Some implicit_id).
Proof.
  intros acl p implicit implicit_id. rewrite gen_is_permitted.
  pose proof (scan_spec acl p) as S. destruct (scan acl p) as [[i r]|].
  - left. exists i, r. auto.
  - right. auto.
Qed.
