(* Proofs about the shared-settings model (C04). *)
From Coq Require Import ZArith List Bool Lia.
Import ListNotations.
From PV Require Import Base.Cases Model.Isolation.
Open Scope Z_scope.

Definition no_build (o : iop) : Prop := match o with Build _ _ => False | _ => True end.
Definition steps_seen (p : proc) (ops : list iop) : list Z := itrace p ops.

(* sequential isolation: after environment i is built (constructed or reset) from its scenario, and until ANY environment is
   built again, every step sees exactly the settings that scenario asks for -- whatever the process did before *)
Theorem after_build_steps_see_own_settings : forall ops p i c,
  Forall no_build ops -> Forall (fun v => v = wanted c) (itrace (fst (istep p (Build i c))) ops).
Proof.
  intros ops p i c H. cbn [istep fst].
  set (p1 := {| g := wanted c; envs := set_nth (envs p) i (Some (wanted c)) None |}).
  assert (G : g p1 = wanted c) by reflexivity. clearbody p1. revert p1 G.
  induction H as [|o t Ho Ht IH]; intros p1 G; cbn [itrace]; [constructor|].
  destruct o as [j c'|j|j]; cbn [istep]; cbn in Ho; try tauto.
  - cbn [app]. constructor; auto.
  - cbn [app]. apply IH. cbn. exact G.
Qed.

(* hence an environment reset after any history behaves, in this respect, like a newly constructed one in a fresh process *)
Corollary reset_equals_fresh : forall ops p i c, Forall no_build ops ->
  itrace (fst (istep p (Build i c))) ops = itrace (fst (istep fresh (Build i c))) ops.
Proof.
  intros ops p i c H.
  assert (G : forall q1 q2, g q1 = g q2 -> itrace q1 ops = itrace q2 ops).
  { induction H as [|o t Ho Ht IH]; intros q1 q2 E; cbn [itrace]; auto.
    destruct o as [j c'|j|j]; cbn [istep]; cbn in Ho; try tauto.
    - rewrite E. f_equal. apply IH. exact E.
    - apply IH. cbn. exact E. }
  apply G. reflexivity.
Qed.

(* but two LIVE instances are not isolated: building a second environment whose scenario asks for other settings changes what
   the first one sees from then on.  The witness, replayed on the implementation, is the recorded finding. *)
Theorem live_instances_interfere_refuted : exists c0 c1,
  itrace fresh [Build 0 c0; Step 0; Build 1 c1; Step 0] <> itrace fresh [Build 0 c0; Step 0; Step 0].
Proof. exists None, (Some 1). vm_compute. intros H. discriminate H. Qed.
