(* EpisodeListScheduler.__call__ translated from the current source by translator/py2coq_imp.py up to the point where it picks
   the episode's files: for every episode number, also far past the end of the schedule and whatever the "already warned" flag,
   the entry used is number (episode mod schedule length) -- the schedule loops, never runs out and never skips. *)
From Coq Require Import ZArith Bool Lia.
From PV Require Import Gen.GenSchedule.
Open Scope Z_scope.

Theorem source_schedule_loops : forall len warned n, 0 < len -> 0 <= n ->
  fst (EpisodeListScheduler_episode_index len warned n) = n mod len /\
  0 <= fst (EpisodeListScheduler_episode_index len warned n) < len.
Proof.
  intros len warned n Hl Hn. unfold EpisodeListScheduler_episode_index. rewrite Z.geb_leb.
  destruct (len <=? n) eqn:E.
  - destruct warned; cbn [negb fst]; split; try reflexivity; apply Z.mod_pos_bound; lia.
  - apply Z.leb_gt in E. cbn [fst]. rewrite Z.mod_small by lia. lia.
Qed.
(* the flag only ever goes up, and only when an episode past the end is asked for *)
Theorem source_schedule_flag : forall len warned n,
  snd (EpisodeListScheduler_episode_index len warned n) = warned || (len <=? n).
Proof.
  intros len warned n. unfold EpisodeListScheduler_episode_index. rewrite Z.geb_leb.
  destruct (len <=? n), warned; reflexivity.
Qed.
