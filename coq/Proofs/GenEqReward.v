(* RewardFunction.update translated from the current source by translator/py2coq_imp.py (its loop over
   (component, weight) pairs as a fold; quantities are exact numbers in a common unit): the step reward IS the weighted sum of
   the component values, it is what current_reward is set to, and it does not depend on the order in which the components are
   listed -- the clause of the property that Model/Reward.v's `a_own` / shared terms take as given. *)
From Coq Require Import ZArith Bool List Lia Sorting.Permutation.
Import ListNotations.
From PV Require Import Gen.GenReward.
Open Scope Z_scope.

Fixpoint weighted_sum (l : list (Z * Z)) : Z := match l with [] => 0 | (w, v) :: t => w * v + weighted_sum t end.

Lemma fold_weighted : forall l a,
  fold_left (fun (acc : Z) (el : Z * Z) => let '(w, v) := el in acc + w * v) l a = a + weighted_sum l.
Proof. induction l as [|[w v] t IH]; intros a; cbn [fold_left weighted_sum]; [lia|]. rewrite IH. lia. Qed.

Theorem source_update_is_the_weighted_sum : forall items cur,
  RewardFunction_update items cur = (weighted_sum items, weighted_sum items).
Proof.
  intros items cur. unfold RewardFunction_update.
  match goal with |- context [fold_left ?f _ _] => set (F := f) end.
  assert (H : forall l a, fold_left F l a = a + weighted_sum l).
  { induction l as [|[w v] t IH]; intros a; cbn [fold_left weighted_sum]; [lia|]. unfold F at 2. rewrite IH. lia. }
  rewrite H. reflexivity.
Qed.

Lemma weighted_sum_perm : forall l l', Permutation l l' -> weighted_sum l = weighted_sum l'.
Proof. induction 1 as [|[w v] l l' _ IH|[w v] [w' v'] l|l l' l'' _ IH1 _ IH2]; cbn [weighted_sum]; lia. Qed.

Theorem source_update_does_not_depend_on_component_order : forall items items' cur cur',
  Permutation items items' -> fst (RewardFunction_update items cur) = fst (RewardFunction_update items' cur').
Proof. intros items items' cur cur' P. rewrite !source_update_is_the_weighted_sum. cbn [fst]. apply weighted_sum_perm; exact P. Qed.
