(* Proofs about the scenario-loading model (C20): the inventory does not depend on the order of keys within any mapping of the
   scenario (rows are a multiset); ACL rules loaded from a position-keyed mapping sit at their stated positions; every route
   of the list is in the table, in order. *)
From Coq Require Import ZArith List Bool Lia Permutation.
Import ListNotations.
From PV Require Import Base.Cases Model.BuildKeys Model.Build Model.Acl Proofs.AclProofs.
Open Scope Z_scope.

(* ---- induction over scenario trees ------------------------------------------------------------------------------------ *)
Section CfgInd.
  Variable P : cfg -> Prop.
  Hypothesis Hn : P CNone.
  Hypothesis Hi : forall z, P (CInt z).
  Hypothesis Hl : forall l, Forall P l -> P (CList l).
  Hypothesis Hm : forall m, Forall (fun e => P (snd e)) m -> P (CMap m).
  Fixpoint cfg_ind' (c : cfg) : P c :=
    match c with
    | CNone => Hn
    | CInt z => Hi z
    | CList l => Hl l ((fix go (l : list cfg) : Forall P l := match l with [] => Forall_nil _ | x :: t => Forall_cons x (cfg_ind' x) (go t) end) l)
    | CMap m => Hm m ((fix go (m : list (Z * cfg)) : Forall (fun e => P (snd e)) m :=
                         match m with [] => Forall_nil _ | (k, v) :: t => Forall_cons (k, v) (cfg_ind' v) (go t) end) m)
    end.
End CfgInd.

Definition cmap (e : Z * cfg) : Z * cfg := (fst e, canon (snd e)).

Lemma canon_CMap m : canon (CMap m) = CMap (sort_ents (map cmap m)).
Proof. cbn [canon]. f_equal. f_equal. induction m as [|[k v] t IH]; cbn; [reflexivity|]. rewrite IH. reflexivity. Qed.

Lemma ins_perm e l : Permutation (ins e l) (e :: l).
Proof.
  induction l as [|h t IH]; cbn; auto. destruct (fst e <=? fst h); auto.
  eapply perm_trans; [apply perm_skip, IH|apply perm_swap].
Qed.
Lemma sort_perm l : Permutation (sort_ents l) l.
Proof. induction l as [|e t IH]; cbn; auto. eapply perm_trans; [apply ins_perm|]. auto. Qed.

Lemma assoc_notin k m : ~ In k (map fst m) -> assoc k m = None.
Proof.
  induction m as [|[k' v] t IH]; cbn; auto. intros H. destruct (k =? k') eqn:E.
  - apply Z.eqb_eq in E. subst. tauto.
  - apply IH. tauto.
Qed.

Lemma assoc_perm k m m' : Permutation m m' -> NoDup (map fst m) -> assoc k m = assoc k m'.
Proof.
  intros H. induction H as [| [k1 v1] l l' H IH | [k1 v1] [k2 v2] l | l l' l'' H1 IH1 H2 IH2]; intros Nd; cbn in *; auto.
  - inversion Nd; subst. destruct (k =? k1); auto.
  - inversion Nd as [|? ? Hn Nd']; subst. destruct (k =? k2) eqn:E2; destruct (k =? k1) eqn:E1; auto.
    apply Z.eqb_eq in E1, E2. subst. exfalso. apply Hn. left. reflexivity.
  - rewrite IH1 by auto. apply IH2. eapply Permutation_NoDup; [apply Permutation_map; exact H1|exact Nd].
Qed.

Lemma assoc_cmap k m : assoc k (map cmap m) = option_map canon (assoc k m).
Proof. induction m as [|[k' v] t IH]; cbn; auto. destruct (k =? k'); auto. Qed.

Lemma nodupb_spec l : nodupb l = true -> NoDup l.
Proof.
  induction l as [|x t IH]; cbn; intros H; [constructor|]. apply andb_true_iff in H. destruct H as [H1 H2].
  constructor; auto. intros Hin. apply negb_true_iff in H1.
  assert (existsb (Z.eqb x) t = true) by (apply existsb_exists; exists x; split; auto; apply Z.eqb_refl). congruence.
Qed.

Lemma wfb_map m : wfb (CMap m) = true -> NoDup (map fst m) /\ Forall (fun e => wfb (snd e) = true) m.
Proof.
  cbn [wfb]. intros H. apply andb_true_iff in H. destruct H as [H1 H2]. split; [apply nodupb_spec; auto|].
  clear H1. induction m as [|[k v] t IH]; [constructor|]. apply andb_true_iff in H2. destruct H2. constructor; auto.
Qed.
Lemma wfb_list l : wfb (CList l) = true -> Forall (fun x => wfb x = true) l.
Proof. cbn [wfb]. intros H. apply Forall_forall. intros x Hx. eapply forallb_forall in H; eauto. Qed.

Lemma assoc_In k m v : assoc k m = Some v -> In (k, v) m.
Proof.
  induction m as [|[k' v'] t IH]; cbn; [discriminate|]. destruct (k =? k') eqn:E; intros H.
  - apply Z.eqb_eq in E. inversion H; subst. auto.
  - auto.
Qed.

Lemma get_canon c k : wfb c = true -> get k (canon c) = option_map canon (get k c).
Proof.
  destruct c as [| z | l | m]; intros W; try reflexivity.
  rewrite canon_CMap. cbn [get]. destruct (wfb_map _ W) as [Nd _].
  rewrite (assoc_perm k _ _ (sort_perm (map cmap m))).
  - apply assoc_cmap.
  - eapply Permutation_NoDup; [apply Permutation_map, Permutation_sym, sort_perm|].
    rewrite map_map. cbn. exact Nd.
Qed.

Lemma wfb_get c k v : wfb c = true -> get k c = Some v -> wfb v = true.
Proof.
  destruct c as [| z | l | m]; cbn [get]; try discriminate. intros W H. destruct (wfb_map _ W) as [_ F].
  apply assoc_In in H. rewrite Forall_forall in F. apply (F _ H).
Qed.
Lemma wfb_sub c k : wfb c = true -> wfb (sub k c) = true.
Proof. intros W. unfold sub. destruct (get k c) eqn:E; auto. eapply wfb_get; eauto. Qed.

Lemma canon_int x z : canon x = CInt z <-> x = CInt z.
Proof. destruct x; cbn [canon]; split; intros H; try discriminate; auto. Qed.
Lemma canon_none x : canon x = CNone <-> x = CNone.
Proof. destruct x; cbn [canon]; split; intros H; try discriminate; auto. Qed.

Lemma scalar_canon k d c : wfb c = true -> scalar k d (canon c) = scalar k d c.
Proof.
  intros W. unfold scalar. rewrite get_canon by auto. destruct (get k c) as [x|]; cbn; auto.
  destruct x; cbn [canon]; auto.
Qed.
Lemma has_canon k c : wfb c = true -> has k (canon c) = has k c.
Proof.
  intros W. unfold has. rewrite get_canon by auto. destruct (get k c) as [x|]; cbn; auto. destruct x; cbn [canon]; auto.
Qed.
Lemma sub_canon k c : wfb c = true -> sub k (canon c) = canon (sub k c).
Proof. intros W. unfold sub. rewrite get_canon by auto. destruct (get k c); reflexivity. Qed.
Lemma items_canon c : items (canon c) = map canon (items c).
Proof. destruct c; reflexivity. Qed.
Lemma ents_canon c : Permutation (ents (canon c)) (map cmap (ents c)).
Proof. destruct c as [| z | l | m]; try (cbn; constructor). rewrite canon_CMap. cbn [ents]. apply sort_perm. Qed.
Lemma wfb_items c : wfb c = true -> Forall (fun x => wfb x = true) (items c).
Proof. destruct c; cbn [items]; intros W; try constructor. apply wfb_list; auto. Qed.
Lemma wfb_ents c : wfb c = true -> Forall (fun e => wfb (snd e) = true) (ents c).
Proof. destruct c; cbn [ents]; intros W; try constructor. apply (wfb_map _ W). Qed.

(* ---- generic: a row function that ignores key order below, applied over a list / over the entries of a mapping ---------- *)
Lemma flat_map_canon_list {A} (f : cfg -> list A) l :
  Forall (fun x => wfb x = true) l -> (forall x, wfb x = true -> Permutation (f (canon x)) (f x)) ->
  Permutation (flat_map f (map canon l)) (flat_map f l).
Proof. induction 1 as [|x t Hx Ht IH]; cbn; intros Hf; auto. apply Permutation_app; auto. Qed.

Lemma map_canon_list {A} (f : cfg -> A) l :
  Forall (fun x => wfb x = true) l -> (forall x, wfb x = true -> f (canon x) = f x) -> map f (map canon l) = map f l.
Proof. induction 1 as [|x t Hx Ht IH]; cbn; intros Hf; auto. rewrite Hf, IH; auto. Qed.

Lemma flat_map_ents {A} (f : Z * cfg -> list A) c :
  wfb c = true -> (forall e, wfb (snd e) = true -> Permutation (f (cmap e)) (f e)) ->
  Permutation (flat_map f (ents (canon c))) (flat_map f (ents c)).
Proof.
  intros W Hf. eapply perm_trans; [apply Permutation_flat_map, ents_canon|].
  pose proof (wfb_ents _ W) as F. induction F as [|e t He Ht IH]; cbn; auto. apply Permutation_app; auto.
Qed.
Lemma map_ents {A} (f : Z * cfg -> A) c :
  wfb c = true -> (forall e, wfb (snd e) = true -> f (cmap e) = f e) -> Permutation (map f (ents (canon c))) (map f (ents c)).
Proof.
  intros W Hf. eapply perm_trans; [apply Permutation_map, ents_canon|].
  pose proof (wfb_ents _ W) as F. induction F as [|e t He Ht IH]; cbn; auto. rewrite Hf by auto. apply perm_skip. exact IH.
Qed.

(* ---- the row functions ---------------------------------------------------------------------------------------------------- *)
Ltac sc := repeat (rewrite scalar_canon by auto).

Lemma acl_row_canon host lst e : wfb (snd e) = true -> acl_row host lst (cmap e) = acl_row host lst e.
Proof. intros W. unfold acl_row, cmap. cbn [fst snd]. sc. reflexivity. Qed.
Lemma acl_rows_canon host lst c : wfb c = true -> Permutation (acl_rows host lst (canon c)) (acl_rows host lst c).
Proof. intros W. unfold acl_rows. apply map_ents; auto. intros e We. apply acl_row_canon; auto. Qed.
Lemma default_rows_canon host c : wfb c = true -> router_default_rows host (canon c) = router_default_rows host c.
Proof. intros W. unfold router_default_rows. rewrite !has_canon by auto. reflexivity. Qed.
Lemma port_row_canon host e : wfb (snd e) = true -> port_row host (cmap e) = port_row host e.
Proof. intros W. unfold port_row, cmap. cbn [fst snd]. sc. reflexivity. Qed.

Lemma route_rows_canon host l : Forall (fun x => wfb x = true) l -> forall i, route_rows host i (map canon l) = route_rows host i l.
Proof. induction 1 as [|x t Hx Ht IH]; intros i; cbn [map route_rows]; auto. sc. rewrite IH. reflexivity. Qed.
Lemma default_route_canon host n : wfb n = true -> default_route_rows host (canon n) = default_route_rows host n.
Proof.
  intros W. unfold default_route_rows. rewrite sub_canon by auto. rewrite scalar_canon by (apply wfb_sub; auto). reflexivity.
Qed.

Lemma option_rows_canon host ty c : wfb c = true -> option_rows host ty (canon c) = option_rows host ty c.
Proof.
  intros W. unfold option_rows. apply flat_map_ext. intros k. rewrite get_canon by auto.
  destruct (get k c) as [x|]; cbn; auto. destruct x; reflexivity.
Qed.
Lemma software_rows_canon host kind l : Forall (fun x => wfb x = true) l -> software_rows host kind (map canon l) = software_rows host kind l.
Proof.
  induction 1 as [|x t Hx Ht IH]; cbn [map software_rows flat_map]; auto.
  unfold software_rows in IH. rewrite IH. sc. rewrite sub_canon by auto. rewrite option_rows_canon by (apply wfb_sub; auto). reflexivity.
Qed.
Lemma user_rows_canon host l : Forall (fun x => wfb x = true) l -> user_rows host (map canon l) = user_rows host l.
Proof. intros F. unfold user_rows. apply map_canon_list; auto. intros x W. sc. reflexivity. Qed.
Lemma file_rows_canon host l : Forall (fun x => wfb x = true) l -> file_rows host (map canon l) = file_rows host l.
Proof.
  induction 1 as [|x t Hx Ht IH]; cbn [map file_rows flat_map]; auto. unfold file_rows in IH. rewrite IH. f_equal.
  rewrite sub_canon by auto. rewrite items_canon. sc.
  apply map_canon_list; [apply wfb_items, wfb_sub; auto|]. intros y Wy. sc. reflexivity.
Qed.

Lemma node_rows_canon n : wfb n = true -> Permutation (node_rows (canon n)) (node_rows n).
Proof.
  intros W. unfold node_rows. sc.
  set (host := scalar K_hostname (-1) n). set (ty := scalar K_type (-1) n).
  rewrite !sub_canon by auto. rewrite !items_canon.
  rewrite !software_rows_canon by (apply wfb_items, wfb_sub; auto).
  rewrite user_rows_canon by (apply wfb_items, wfb_sub; auto).
  rewrite file_rows_canon by (apply wfb_items, wfb_sub; auto).
  rewrite route_rows_canon by (apply wfb_items, wfb_sub; auto).
  rewrite default_route_canon by auto.
  rewrite default_rows_canon by (apply wfb_sub; auto).
  apply perm_skip. apply Permutation_app; [|apply Permutation_refl].
  destruct ((ty =? T_router) || (ty =? T_wireless_router)).
  - apply Permutation_app; [|apply Permutation_app; [|apply Permutation_refl]].
    + apply map_ents; [apply wfb_sub; auto|]. intros e We. apply port_row_canon; auto.
    + apply acl_rows_canon. apply wfb_sub; auto.
  - destruct (ty =? T_firewall); [|apply Permutation_refl]. apply Permutation_app.
    + apply flat_map_ents; [apply wfb_sub; auto|]. intros e We. unfold cmap; cbn [fst snd]. sc. apply Permutation_refl.
    + apply flat_map_ents; [apply wfb_sub; auto|]. intros e We. unfold cmap; cbn [fst snd].
      destruct (fw_list (fst e) =? 0); [apply Permutation_refl|]. apply acl_rows_canon; auto.
Qed.

Lemma link_row_canon l : wfb l = true -> link_row (canon l) = link_row l.
Proof. intros W. unfold link_row. sc. reflexivity. Qed.
Lemma agent_row_canon a : wfb a = true -> agent_row (canon a) = agent_row a.
Proof. intros W. unfold agent_row. sc. reflexivity. Qed.

(* the inventory of a scenario and of its key-sorted form are the same multiset of rows *)
Theorem build_canon c : wfb c = true -> Permutation (build (canon c)) (build c).
Proof.
  intros W. unfold build. rewrite !sub_canon by (auto using wfb_sub). rewrite !items_canon.
  assert (Wn : wfb (sub K_network (sub K_simulation c)) = true) by (auto using wfb_sub).
  apply Permutation_app; [|apply Permutation_app].
  - apply flat_map_canon_list; [apply wfb_items, wfb_sub; auto|]. apply node_rows_canon.
  - rewrite (map_canon_list link_row); [apply Permutation_refl|apply wfb_items, wfb_sub; auto|apply link_row_canon].
  - rewrite (map_canon_list agent_row); [apply Permutation_refl|apply wfb_items, wfb_sub; auto|apply agent_row_canon].
Qed.

(* hence: scenarios that differ only in the order of keys within mappings (same key-sorted form) declare the same inventory *)
Theorem key_order_irrelevant c c' : wfb c = true -> wfb c' = true -> canon c = canon c' -> Permutation (build c) (build c').
Proof.
  intros W W' E. eapply perm_trans; [apply Permutation_sym, build_canon; auto|]. rewrite E. apply build_canon; auto.
Qed.

(* ---- ACL rules loaded from a position-keyed mapping sit at their stated positions --------------------------------------------- *)
Definition load_acl (s : acl_state) (ents : list (Z * rule)) : acl_state :=
  fold_left (fun s e => snd (add_rule s (fst e) (snd e))) ents s.

Lemma add_rule_max s p r : a_max (snd (add_rule s p r)) = a_max s.
Proof. unfold add_rule. destruct (in_bounds s p); reflexivity. Qed.
Lemma in_bounds_max s s' p : a_max s' = a_max s -> in_bounds s' p = in_bounds s p.
Proof. unfold in_bounds. intros ->. reflexivity. Qed.
Lemma in_bounds_nonneg s p : in_bounds s p = true -> 0 <= p.
Proof. unfold in_bounds. intros H. apply andb_true_iff in H. destruct H as [H _]. apply Z.leb_le in H. exact H. Qed.

Theorem load_acl_positions : forall ents s, wf s -> NoDup (map fst ents) -> (forall e, In e ents -> in_bounds s (fst e) = true) ->
  wf (load_acl s ents) /\ a_max (load_acl s ents) = a_max s /\
  (forall p r, In (p, r) ents -> nth_error (a_rules (load_acl s ents)) (Z.to_nat p) = Some (Some r)) /\
  (forall j, (forall e, In e ents -> Z.to_nat (fst e) <> j) -> nth_error (a_rules (load_acl s ents)) j = nth_error (a_rules s) j).
Proof.
  induction ents as [|[p r] t IH]; intros s W Nd Hb; cbn [load_acl fold_left].
  - repeat split; auto. intros p r [].
  - cbn [map fst] in Nd. inversion Nd as [|? ? Hnot Nd']; subst. cbn [fst snd].
    pose proof (add_rule_frame s p r W) as F. pose proof (add_rule_max s p r) as M.
    destruct (add_rule s p r) as [oc s1] eqn:E. cbn [snd fst] in *.
    pose proof (Hb (p, r) (or_introl eq_refl)) as Bp. cbn [fst] in Bp. rewrite Bp in F. destruct F as (_ & W1 & _ & Hp & Hoth).
    assert (Hb1 : forall e, In e t -> in_bounds s1 (fst e) = true).
    { intros e He. rewrite (in_bounds_max s s1 _ M). apply Hb. right; auto. }
    destruct (IH s1 W1 Nd' Hb1) as (W2 & M2 & Hin & Hout). unfold load_acl in *.
    split; [exact W2|]. split; [congruence|]. split.
    + intros p' r' [Hh|Ht].
      * inversion Hh; subst. rewrite Hout; auto. intros e He Heq.
        apply Hnot. apply in_map_iff. exists e. split; auto.
        pose proof (in_bounds_nonneg _ _ (Hb e (or_intror He))). pose proof (in_bounds_nonneg _ _ (Hb (p', r') (or_introl eq_refl))). cbn [fst] in *. lia.
      * apply Hin; auto.
    + intros j Hj. rewrite Hout by (intros e He; apply Hj; right; auto). apply Hoth. intros Heq. apply (Hj (p, r) (or_introl eq_refl)). cbn. auto.
Qed.

(* ---- every route of the list is in the table, in order --------------------------------------------------------------------- *)
Theorem route_rows_complete host : forall l i k r, nth_error l k = Some r ->
  nth_error (route_rows host i l) k =
  Some [4; host; i + Z.of_nat k; scalar K_address (-1) r; scalar K_subnet_mask MASK24 r; scalar K_next_hop_ip_address (-1) r; scalar K_metric 0 r].
Proof.
  induction l as [|x t IH]; intros i [|k] r H; cbn in H; try discriminate.
  - inversion H; subst. cbn. rewrite Z.add_0_r. reflexivity.
  - cbn [route_rows nth_error]. rewrite (IH (i + 1) k r H). replace (i + 1 + Z.of_nat k) with (i + Z.of_nat (S k)) by lia. reflexivity.
Qed.
Theorem route_rows_length host l i : length (route_rows host i l) = length l.
Proof. revert i; induction l as [|x t IH]; intros i; cbn; auto. Qed.
