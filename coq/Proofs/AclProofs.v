From Coq Require Import ZArith List Bool Lia.
Import ListNotations.
From PV Require Import Model.Acl.
Open Scope Z_scope.

(* ---- Spec: the deciding rule is the first, by position, all of whose specified fields match -------- *)
Definition field_ok (spec : option Z) (actual : Z) : Prop := match spec with Some v => v = actual | None => True end.
Definition port_ok (spec actual : option Z) : Prop := match spec with Some v => actual = Some v | None => True end.
Definition addr_ok (ip w : option Z) (x : Z) : Prop :=
  match ip with
  | None => True
  | Some b => match w with
              | Some wc => forall n, 0 <= n -> Z.testbit wc n = false -> Z.testbit x n = Z.testbit b n
              | None => x = b
              end
  end.
(* all specified fields match; an unspecified field matches anything *)
Definition rule_matches (r : rule) (p : pkt) : Prop :=
  field_ok (r_proto r) (p_proto p) /\ addr_ok (r_src r) (r_srcw r) (p_src p) /\ addr_ok (r_dst r) (r_dstw r) (p_dst p)
  /\ port_ok (r_sport r) (p_sport p) /\ port_ok (r_dport r) (p_dport p).

Definition first_match (acl : list (option rule)) (p : pkt) (i : nat) (r : rule) : Prop :=
  nth_error acl i = Some (Some r) /\ rule_matches r p /\
  forall j r', (j < i)%nat -> nth_error acl j = Some (Some r') -> ~ rule_matches r' p.
Definition no_match (acl : list (option rule)) (p : pkt) : Prop :=
  forall j r', nth_error acl j = Some (Some r') -> ~ rule_matches r' p.

Lemma masked_range_bits ip base wc :
  ip_matches_masked_range ip base wc = true <->
  forall n, 0 <= n -> Z.testbit wc n = false -> Z.testbit ip n = Z.testbit base n.
Proof.
  unfold ip_matches_masked_range. rewrite Z.eqb_eq. split.
  - intros H n Hn Hw. apply (f_equal (fun z => Z.testbit z n)) in H.
    rewrite !Z.land_spec, Z.lnot_spec, Hw in H by lia. cbn in H. rewrite !andb_true_r in H. auto.
  - intros H. apply Z.bits_inj'. intros n Hn. rewrite !Z.land_spec, Z.lnot_spec by lia.
    destruct (Z.testbit wc n) eqn:Hw; cbn; [rewrite !andb_false_r; auto|]. rewrite !andb_true_r. symmetry; auto.
Qed.

Lemma ip_field_spec ip w x : ip_field ip w x = true <-> addr_ok ip w x.
Proof.
  unfold ip_field, addr_ok. destruct ip as [b|]; [|tauto]. destruct w as [wc|].
  - apply masked_range_bits.
  - apply Z.eqb_eq.
Qed.

Lemma port_field_spec rp pp : port_field rp pp = true <-> port_ok rp pp.
Proof.
  unfold port_field, port_ok, opt_eqb. destruct rp as [v|]; [|tauto]. destruct pp as [y|].
  - rewrite Z.eqb_eq. split; congruence.
  - split; congruence.
Qed.

Lemma matches_spec r p : matches r p = true <-> rule_matches r p.
Proof.
  unfold matches, rule_matches. rewrite !andb_true_iff, !ip_field_spec, !port_field_spec.
  assert (Hp : (match r_proto r with Some q => q =? p_proto p | None => true end) = true
               <-> field_ok (r_proto r) (p_proto p)).
  { unfold field_ok. destruct (r_proto r); [apply Z.eqb_eq | tauto]. }
  rewrite Hp. tauto.
Qed.

Lemma matches_false r p : matches r p = false <-> ~ rule_matches r p.
Proof. rewrite <- matches_spec. destruct (matches r p); split; congruence. Qed.

Lemma scan_spec acl p : match scan acl p with
  | Some (i, r) => first_match acl p i r
  | None => no_match acl p end.
Proof.
  unfold first_match, no_match.
  induction acl as [|[r|] t IH]; cbn [scan].
  - intros j r' H; destruct j; discriminate.
  - destruct (matches r p) eqn:Hm.
    + split; [reflexivity|]. split; [apply matches_spec; auto|]. intros j r' Hj; lia.
    + destruct (scan t p) as [[i r0]|]; cbn.
      * destruct IH as (H1 & H2 & H3). split; [exact H1|]. split; [exact H2|].
        intros [|j] r' Hj Hn; cbn in Hn. { inversion Hn; subst. apply matches_false; auto. }
        apply (H3 j); auto; lia.
      * intros [|j] r' Hn; cbn in Hn. { inversion Hn; subst. apply matches_false; auto. } eauto.
  - destruct (scan t p) as [[i r0]|]; cbn.
    + destruct IH as (H1 & H2 & H3). split; [exact H1|]. split; [exact H2|].
      intros [|j] r' Hj Hn; cbn in Hn; [discriminate|]. apply (H3 j); auto; lia.
    + intros [|j] r' Hn; cbn in Hn; [discriminate|]; eauto.
Qed.

(* the verdict of is_permitted is that of the first matching rule, else the implicit action *)
Theorem is_permitted_spec s p :
  let '(b, oi, _) := is_permitted s p in
  match oi with
  | Some i => exists r, first_match (a_rules s) p i r /\ b = permitted_b (r_action r)
  | None => no_match (a_rules s) p /\ b = permitted_b (r_action (a_implicit s))
  end.
Proof.
  unfold is_permitted. pose proof (scan_spec (a_rules s) p) as S.
  destruct (scan (a_rules s) p) as [[i r]|]; cbn; eauto.
Qed.

Lemma nth_error_firstn_lt {A} (l : list A) n j : (j < n)%nat -> nth_error (firstn n l) j = nth_error l j.
Proof. revert n j; induction l as [|a l IH]; intros [|n] [|j] H; cbn; try lia; auto. apply IH; lia. Qed.

Lemma nth_error_skipn' {A} (l : list A) n j : nth_error (skipn n l) j = nth_error l (n + j).
Proof. revert l; induction n as [|n IH]; intros [|a l]; cbn; auto. destruct j; auto. Qed.

Lemma set_nth_length {A} (l : list A) i x : (i < length l)%nat -> length (set_nth l i x) = length l.
Proof.
  intros Hi. unfold set_nth. rewrite app_length, firstn_length_le by lia. cbn [length]. rewrite skipn_length. lia.
Qed.

Lemma set_nth_same {A} (l : list A) i x : (i < length l)%nat -> nth_error (set_nth l i x) i = Some x.
Proof.
  intros Hi. unfold set_nth. rewrite nth_error_app2 by (rewrite firstn_length_le; lia).
  rewrite firstn_length_le by lia. replace (i - i)%nat with O by lia. reflexivity.
Qed.

Lemma set_nth_other {A} (l : list A) i x j : (i < length l)%nat -> j <> i -> nth_error (set_nth l i x) j = nth_error l j.
Proof.
  intros Hi Hj. unfold set_nth. destruct (Nat.lt_ge_cases j i).
  - rewrite nth_error_app1 by (rewrite firstn_length_le; lia). apply nth_error_firstn_lt; auto.
  - rewrite nth_error_app2 by (rewrite firstn_length_le; lia). rewrite firstn_length_le by lia.
    destruct (j - i)%nat eqn:E; [lia|]. cbn [nth_error]. rewrite nth_error_skipn'. f_equal. lia.
Qed.

(* each verdict increments the hit counter of exactly the deciding rule; nothing else changes *)
Theorem is_permitted_frame s p :
  let '(_, oi, s') := is_permitted s p in
  length (a_rules s') = length (a_rules s) /\ a_max s' = a_max s /\
  match oi with
  | Some i => exists r, nth_error (a_rules s) i = Some (Some r) /\ a_implicit s' = a_implicit s /\
                        nth_error (a_rules s') i = Some (Some (bump r)) /\
                        forall j, j <> i -> nth_error (a_rules s') j = nth_error (a_rules s) j
  | None => a_rules s' = a_rules s /\ a_implicit s' = bump (a_implicit s)
  end.
Proof.
  unfold is_permitted. pose proof (scan_spec (a_rules s) p) as S. destruct (scan (a_rules s) p) as [[i r]|]; cbn.
  - destruct S as (Hn & _ & _).
    assert (Hi : (i < length (a_rules s))%nat) by (apply nth_error_Some; congruence).
    split; [apply set_nth_length; auto|]. split; [reflexivity|]. exists r. repeat split; auto.
    + apply set_nth_same; auto.
    + intros j Hj. apply set_nth_other; auto.
  - auto.
Qed.

(* bump changes the counter only *)
Lemma bump_fields r : r_action (bump r) = r_action r /\ r_proto (bump r) = r_proto r /\ r_src (bump r) = r_src r /\
  r_srcw (bump r) = r_srcw r /\ r_dst (bump r) = r_dst r /\ r_dstw (bump r) = r_dstw r /\
  r_sport (bump r) = r_sport r /\ r_dport (bump r) = r_dport r /\ r_count (bump r) = r_count r + 1.
Proof. cbn. repeat split. Qed.

Definition wf (s : acl_state) : Prop := Z.of_nat (length (a_rules s)) = a_max s - 1.

Lemma wf_init a m : 1 <= m -> wf (acl_init a m).
Proof. intros H. unfold wf, acl_init; cbn. rewrite repeat_length. lia. Qed.

(* adding or removing a rule changes only the addressed position; never raises inside the bounds *)
Theorem add_rule_frame s pos r : wf s ->
  let '(oc, s') := add_rule s pos r in
  if in_bounds s pos
  then oc = Done /\ wf s' /\ a_implicit s' = a_implicit s /\
       nth_error (a_rules s') (Z.to_nat pos) = Some (Some r) /\
       forall j, j <> Z.to_nat pos -> nth_error (a_rules s') j = nth_error (a_rules s) j
  else oc = ValueError /\ s' = s.
Proof.
  intros W. unfold add_rule. destruct (in_bounds s pos) eqn:B; [|auto].
  unfold in_bounds in B. apply andb_true_iff in B. destruct B as [B1 B2].
  apply Z.leb_le in B1. apply Z.ltb_lt in B2. unfold wf in *.
  assert (Hi : (Z.to_nat pos < length (a_rules s))%nat) by lia.
  cbn. repeat split; auto.
  - rewrite set_nth_length; auto.
  - apply set_nth_same; auto.
  - intros j Hj. apply set_nth_other; auto.
Qed.

Theorem remove_rule_frame s pos : wf s ->
  let '(oc, s') := remove_rule s pos in
  if in_bounds s pos
  then oc = Done /\ wf s' /\ a_implicit s' = a_implicit s /\
       nth_error (a_rules s') (Z.to_nat pos) = Some None /\
       forall j, j <> Z.to_nat pos -> nth_error (a_rules s') j = nth_error (a_rules s) j
  else oc = ValueError /\ s' = s.
Proof.
  intros W. unfold remove_rule. destruct (in_bounds s pos) eqn:B; [|auto].
  unfold in_bounds in B. apply andb_true_iff in B. destruct B as [B1 B2].
  apply Z.leb_le in B1. apply Z.ltb_lt in B2. unfold wf in *.
  assert (Hi : (Z.to_nat pos < length (a_rules s))%nat) by lia.
  cbn. repeat split; auto.
  - rewrite set_nth_length; auto.
  - apply set_nth_same; auto.
  - intros j Hj. apply set_nth_other; auto.
Qed.

Lemma is_permitted_wf s p : wf s -> wf (snd (is_permitted s p)).
Proof.
  intros W. pose proof (is_permitted_frame s p) as F. destruct (is_permitted s p) as [[b oi] s']. cbn.
  destruct F as (L & M & _). unfold wf in *. lia.
Qed.

(* wf holds in every reachable state: for all op sequences *)
Theorem wf_reachable imp m ops : 1 <= m -> wf (fst (run_ops (acl_init imp m) ops)).
Proof.
  intros Hm. generalize (wf_init imp m Hm). generalize (acl_init imp m). induction ops as [|o t IH]; intros s W; cbn; auto.
  destruct (step s o) as [s' out] eqn:E. specialize (IH s').
  destruct (run_ops s' t) as [s'' out'] eqn:E2. cbn in *. apply IH.
  destruct o as [pos r|pos|p]; cbn in E.
  - pose proof (add_rule_frame s pos r W) as F. destruct (add_rule s pos r) as [oc s1]. inversion E; subst.
    destruct (in_bounds s pos); [tauto|]. destruct F; subst; auto.
  - pose proof (remove_rule_frame s pos W) as F. destruct (remove_rule s pos) as [oc s1]. inversion E; subst.
    destruct (in_bounds s pos); [tauto|]. destruct F; subst; auto.
  - pose proof (is_permitted_wf s p W) as F. destruct (is_permitted s p) as [[b i] s1]. inversion E; subst. auto.
Qed.

(* shadowing corollary: a rule placed above another decides every packet both match *)
Corollary shadowing s p i j ri rj :
  nth_error (a_rules s) i = Some (Some ri) -> nth_error (a_rules s) j = Some (Some rj) ->
  (i < j)%nat -> rule_matches ri p -> fst (fst (is_permitted s p)) = permitted_b (r_action ri) \/
  exists k rk, (k < i)%nat /\ nth_error (a_rules s) k = Some (Some rk) /\ rule_matches rk p.
Proof.
  intros Hi Hj Hlt Hm. pose proof (is_permitted_spec s p) as S. destruct (is_permitted s p) as [[b oi] s']. cbn.
  destruct oi as [k|].
  - destruct S as (r & (Hk & Hmk & Hfirst) & Hb). destruct (Nat.lt_trichotomy k i) as [L|[E|G]].
    + right. exists k, r. auto.
    + subst k. left. rewrite Hi in Hk. inversion Hk; subst. auto.
    + exfalso. apply (Hfirst i ri G Hi Hm).
  - destruct S as (Hno & _). exfalso. apply (Hno i ri Hi Hm).
Qed.
