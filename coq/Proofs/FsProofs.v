From Coq Require Import ZArith List Bool Arith Lia.
Import ListNotations.
From PV Require Import Model.Fs.
Open Scope Z_scope.

Definition ids (l : list file) := map fid l.
Definition names (l : list file) := map fname l.

(* ---- folder-level invariant (nx: the file system's identifier supply) -------------------------------------------- *)
Record FInv (nx : nat) (g : folder) : Prop := {
  i_names : NoDup (names (live g));                       (* live file names are unique *)
  i_idl   : NoDup (ids (live g));
  i_idd   : NoDup (ids (dead g));
  i_disj  : forall i, In i (ids (live g)) -> In i (ids (dead g)) -> False;   (* never both live and deleted *)
  i_fresh : forall i, In i (ids (live g) ++ ids (dead g)) -> (i < nx)%nat;
  i_live  : Forall (fun f => fdel f = false) (live g);    (* deleted flag <-> membership of the deleted set *)
  i_dead  : Forall (fun f => fdel f = true) (dead g) }.

Lemma FInv_mono nx nx' g : (nx <= nx')%nat -> FInv nx g -> FInv nx' g.
Proof. intros H [A B C D E F G]. constructor; auto. intros i Hi. specialize (E i Hi). lia. Qed.

Lemma find_name_some n l f : find_name n l = Some f -> In f l /\ fname f = n.
Proof. unfold find_name. intro H. apply find_some in H. destruct H as [H E]. apply Z.eqb_eq in E. auto. Qed.
Lemma find_name_none n l : find_name n l = None -> ~ In n (names l).
Proof. unfold find_name, names. intros H Hin. apply in_map_iff in Hin. destruct Hin as (f & E & Hf).
       pose proof (find_none _ _ H f Hf) as C. cbn in C. rewrite E, Z.eqb_refl in C. discriminate. Qed.

Lemma ids_remove i l : ids (remove_id i l) = filter (fun j => negb (Nat.eqb j i)) (ids l).
Proof. unfold ids, remove_id. induction l as [|f l IH]; cbn; auto. destruct (Nat.eqb (fid f) i); cbn; rewrite IH; auto. Qed.
Lemma in_remove_id f i l : In f (remove_id i l) <-> In f l /\ fid f <> i.
Proof. unfold remove_id. rewrite filter_In, negb_true_iff, Nat.eqb_neq. tauto. Qed.
Lemma NoDup_filter {A} (p : A -> bool) l : NoDup l -> NoDup (filter p l).
Proof. induction 1; cbn; [constructor|]. destruct (p x); auto. constructor; auto. rewrite filter_In; tauto. Qed.
Lemma NoDup_names_remove i l : NoDup (names l) -> NoDup (names (remove_id i l)).
Proof. unfold names, remove_id. induction l as [|f l IH]; cbn; intro H; [constructor|].
       inversion H; subst. destruct (negb (Nat.eqb (fid f) i)); cbn; auto. constructor; auto.
       intro C. apply H2. apply in_map_iff in C. destruct C as (g & E & Hg). apply filter_In in Hg. apply in_map_iff. exists g; tauto. Qed.
Lemma in_ids_remove j i l : In j (ids (remove_id i l)) <-> In j (ids l) /\ j <> i.
Proof. rewrite ids_remove, filter_In, negb_true_iff, Nat.eqb_neq. tauto. Qed.
Lemma ids_app a b : ids (a ++ b) = ids a ++ ids b. Proof. apply map_app. Qed.
Lemma names_app a b : names (a ++ b) = names a ++ names b. Proof. apply map_app. Qed.
Lemma NoDup_snoc {A} (l : list A) x : NoDup l -> ~ In x l -> NoDup (l ++ [x]).
Proof. intros H Hn. apply (NoDup_Add (a:=x) (l:=l)). { rewrite <- (app_nil_r l) at 1. apply Add_app. } auto. Qed.

(* Folder.remove_file keeps the invariant *)
Lemma g_delete_inv nx g n : FInv nx g -> FInv nx (fst (g_delete g n)).
Proof.
  intros [Hn Hl Hd Hx Hf Hlv Hdd]. unfold g_delete.
  destruct (find_name n (live g)) as [f|] eqn:E; cbn [fst]; [|constructor; auto].
  apply find_name_some in E. destruct E as [Hin _].
  assert (Hfi : In (fid f) (ids (live g))) by (apply in_map; auto).
  constructor; cbn.
  - apply NoDup_names_remove; auto.
  - rewrite ids_remove. apply NoDup_filter; auto.
  - rewrite ids_app. apply NoDup_snoc; auto. cbn. intro C. eauto.
  - intros i Hi Hd'. apply in_ids_remove in Hi. destruct Hi as [Hi Hne]. rewrite ids_app in Hd'.
    apply in_app_or in Hd'. destruct Hd' as [|[E|[]]]; [eauto|]. cbn in E. congruence.
  - intros i Hi. apply in_app_or in Hi. destruct Hi as [Hi|Hi].
    + apply in_ids_remove in Hi. apply Hf. apply in_or_app; tauto.
    + rewrite ids_app in Hi. apply in_app_or in Hi. destruct Hi as [Hi|[<-|[]]]; apply Hf; apply in_or_app; auto.
  - rewrite Forall_forall in *. intros x Hg. apply in_remove_id in Hg. apply Hlv; tauto.
  - apply Forall_app; split; auto.
Qed.

(* Folder.restore_file keeps the invariant *)
Lemma g_restore_inv nx g n : FInv nx g -> FInv nx (fst (g_restore g n)).
Proof.
  intros [Hn Hl Hd Hx Hf Hlv Hdd]. unfold g_restore.
  destruct (find_name n (live g)) as [x|] eqn:E; cbn [fst]; [constructor; auto|].
  destruct (find_name n (dead g)) as [f|] eqn:E2; cbn [fst]; [|constructor; auto].
  apply find_name_none in E. apply find_name_some in E2. destruct E2 as [Hin Hnm].
  assert (Hfi : In (fid f) (ids (dead g))) by (apply in_map; auto).
  constructor; cbn.
  - rewrite names_app. apply NoDup_snoc; auto. cbn. congruence.
  - rewrite ids_app. apply NoDup_snoc; auto. cbn. intro C. eauto.
  - rewrite ids_remove. apply NoDup_filter; auto.
  - intros i Hi Hd'. apply in_ids_remove in Hd'. destruct Hd' as [Hd' Hne]. rewrite ids_app in Hi.
    apply in_app_or in Hi. destruct Hi as [|[E'|[]]]; [eauto|]. cbn in E'. congruence.
  - intros i Hi. apply in_app_or in Hi. destruct Hi as [Hi|Hi].
    + rewrite ids_app in Hi. apply in_app_or in Hi. destruct Hi as [Hi|[<-|[]]]; apply Hf; apply in_or_app; auto.
    + apply in_ids_remove in Hi. apply Hf. apply in_or_app; tauto.
  - apply Forall_app; split; auto.
  - rewrite Forall_forall in *. intros x Hg. apply in_remove_id in Hg. apply Hdd; tauto.
Qed.

(* creating a file with the fresh identifier nx *)
Lemma g_create_inv nx g n : FInv nx g -> FInv (S nx) (fst (g_create g n nx)).
Proof.
  intros H. unfold g_create. destruct (find_name n (live g)) eqn:E; cbn [fst]; [apply (FInv_mono nx); auto|].
  destruct H as [Hn Hl Hd Hx Hf Hlv Hdd]. apply find_name_none in E. constructor; cbn.
  - rewrite names_app. apply NoDup_snoc; auto.
  - rewrite ids_app. apply NoDup_snoc; auto. intro C. specialize (Hf nx ltac:(apply in_or_app; auto)). lia.
  - auto.
  - intros i Hi Hd'. rewrite ids_app in Hi. apply in_app_or in Hi. destruct Hi as [Hi|[<-|[]]]; [eauto|].
    specialize (Hf nx ltac:(apply in_or_app; auto)). lia.
  - intros i Hi. rewrite ids_app, <- app_assoc in Hi. apply in_app_or in Hi. destruct Hi as [Hi|Hi].
    + specialize (Hf i ltac:(apply in_or_app; auto)). lia.
    + cbn in Hi. destruct Hi as [<-|Hi]; [lia|]. specialize (Hf i ltac:(apply in_or_app; auto)). lia.
  - apply Forall_app; split; auto.
  - auto.
Qed.

Lemma ids_map_del l : ids (map del l) = ids l.
Proof. unfold ids. rewrite map_map. reflexivity. Qed.

Lemma NoDup_app_disj {A} (a b : list A) : NoDup a -> NoDup b -> (forall x, In x a -> In x b -> False) -> NoDup (a ++ b).
Proof.
  induction a as [|x a IH]; cbn; intros Ha Hb Hd; auto. inversion Ha; subst. constructor.
  - intro C. apply in_app_or in C. destruct C; [auto|]. eapply Hd; eauto.
  - apply IH; auto. intros y Hy. apply Hd; auto.
Qed.

(* Folder.remove_all_files *)
Lemma g_remove_all_inv nx g : FInv nx g -> FInv nx (g_remove_all g).
Proof.
  intros [Hn Hl Hd Hx Hf Hlv Hdd]. unfold g_remove_all. constructor; cbn.
  - constructor.
  - constructor.
  - rewrite ids_app, ids_map_del. apply NoDup_app_disj; auto. intros x A B. eauto.
  - intros i [].
  - intros i Hi. rewrite ids_app, ids_map_del in Hi. apply Hf. apply in_app_or in Hi. apply in_or_app. tauto.
  - constructor.
  - apply Forall_app; split; auto. rewrite Forall_forall. intros x Hx'. apply in_map_iff in Hx'.
    destruct Hx' as (y & <- & _). reflexivity.
Qed.

Lemma set_gdel_inv nx g b : FInv nx g -> FInv nx (set_gdel g b).
Proof. intros [A B C D E F G]. constructor; auto. Qed.
Lemma set_rcd_inv nx g v : FInv nx g -> FInv nx (set_rcd g v).
Proof. intros [A B C D E F G]. constructor; auto. Qed.

Lemma g_start_restore_inv nx g : FInv nx g -> FInv nx (g_start_restore g).
Proof.
  intros H. unfold g_start_restore. destruct (rcd (set_gdel g false) <=? 0).
  - apply set_rcd_inv, set_gdel_inv; auto.
  - apply set_gdel_inv; auto.
Qed.

Lemma fold_restore_inv nx l : forall g, FInv nx g -> FInv nx (fold_left (fun x f => fst (g_restore x (fname f))) l g).
Proof. induction l as [|f l IH]; cbn; intros g H; auto. apply IH. apply g_restore_inv; auto. Qed.

(* Folder._restoring_timestep *)
Lemma g_restore_tick_inv nx g : FInv nx g -> FInv nx (g_restore_tick g).
Proof.
  intros H. unfold g_restore_tick. destruct (0 <=? rcd g); auto.
  destruct (rcd (set_rcd g (rcd g - 1)) =? 0).
  - apply set_gdel_inv. apply fold_restore_inv. apply fold_restore_inv. apply set_rcd_inv; auto.
  - apply set_rcd_inv; auto.
Qed.

(* gid / gname / gdel are untouched by the folder-level file operations *)
Lemma g_delete_hdr g n : let g' := fst (g_delete g n) in gid g' = gid g /\ gname g' = gname g /\ gdel g' = gdel g.
Proof. unfold g_delete. destruct (find_name n (live g)); cbn; auto. Qed.
Lemma g_restore_hdr g n : let g' := fst (g_restore g n) in gid g' = gid g /\ gname g' = gname g /\ gdel g' = gdel g.
Proof. unfold g_restore. destruct (find_name n (live g)); cbn; auto. destruct (find_name n (dead g)); cbn; auto. Qed.
Lemma g_create_hdr g n i : let g' := fst (g_create g n i) in gid g' = gid g /\ gname g' = gname g /\ gdel g' = gdel g.
Proof. unfold g_create. destruct (find_name n (live g)); cbn; auto. Qed.
Lemma fold_restore_hdr l : forall g, let g' := fold_left (fun x f => fst (g_restore x (fname f))) l g in
  gid g' = gid g /\ gname g' = gname g /\ gdel g' = gdel g.
Proof.
  induction l as [|f l IH]; cbn; intros g; auto. destruct (IH (fst (g_restore g (fname f)))) as (A & B & C).
  destruct (g_restore_hdr g (fname f)) as (A' & B' & C'). cbn in *. repeat split; congruence.
Qed.
Lemma g_restore_tick_hdr g : gdel g = false ->
  let g' := g_restore_tick g in gid g' = gid g /\ gname g' = gname g /\ gdel g' = false.
Proof.
  intros Hd. unfold g_restore_tick. destruct (0 <=? rcd g); cbn; auto.
  destruct (rcd g - 1 =? 0); cbn; auto.
  set (g1 := set_rcd g (rcd g - 1)).
  destruct (fold_restore_hdr (live g1) g1) as (A & B & C).
  destruct (fold_restore_hdr (dead g1) (fold_left (fun x f => fst (g_restore x (fname f))) (live g1) g1)) as (A' & B' & C').
  cbn in *. repeat split; try congruence.
Qed.
Lemma g_start_restore_hdr g : let g' := g_start_restore g in gid g' = gid g /\ gname g' = gname g /\ gdel g' = false.
Proof. unfold g_start_restore. destruct (rcd (set_gdel g false) <=? 0); cbn; auto. Qed.

(* ---- file-system level ---------------------------------------------------------------------------------------- *)
Definition gids (l : list folder) := map gid l.
Definition gnames (l : list folder) := map gname l.

Record SInv (s : fsys) : Prop := {
  s_live  : Forall (FInv (next s)) (folders s);
  s_dead  : Forall (FInv (next s)) (dfolders s);
  s_names : NoDup (gnames (folders s));                    (* live folder names are unique *)
  s_idl   : NoDup (gids (folders s));
  s_idd   : NoDup (gids (dfolders s));
  s_disj  : forall i, In i (gids (folders s)) -> In i (gids (dfolders s)) -> False;   (* never both live and deleted *)
  s_fresh : forall i, In i (gids (folders s) ++ gids (dfolders s)) -> (i < next s)%nat;
  s_lflag : Forall (fun g => gdel g = false) (folders s);
  s_dflag : Forall (fun g => gdel g = true) (dfolders s) }.

Lemma find_folder_some n l g : find_folder n l = Some g -> In g l /\ gname g = n.
Proof. unfold find_folder. intro H. apply find_some in H. destruct H as [H E]. apply Z.eqb_eq in E. auto. Qed.
Lemma find_folder_none n l : find_folder n l = None -> ~ In n (gnames l).
Proof. unfold find_folder, gnames. intros H Hin. apply in_map_iff in Hin. destruct Hin as (f & E & Hf).
       pose proof (find_none _ _ H f Hf) as C. cbn in C. rewrite E, Z.eqb_refl in C. discriminate. Qed.

Lemma NoDup_map_inj {A B} (f : A -> B) l x y : NoDup (map f l) -> In x l -> In y l -> f x = f y -> x = y.
Proof.
  induction l as [|a l IH]; cbn; intros H Hx Hy E; [tauto|]. inversion H; subst.
  destruct Hx as [->|Hx], Hy as [->|Hy]; auto.
  - exfalso. apply H2. rewrite E. apply in_map; auto.
  - exfalso. apply H2. rewrite <- E. apply in_map; auto.
Qed.

Lemma gids_replace g' l : gids (replace_g g' l) = gids l.
Proof. unfold gids, replace_g. rewrite map_map. apply map_ext_in. intros a _. destruct (Nat.eqb (gid a) (gid g')) eqn:E; auto.
       apply Nat.eqb_eq in E. auto. Qed.
Lemma gnames_replace g g' l : NoDup (gids l) -> In g l -> gid g' = gid g -> gname g' = gname g -> gnames (replace_g g' l) = gnames l.
Proof.
  intros N Hin Hi Hn. unfold gnames, replace_g. rewrite map_map. apply map_ext_in. intros a Ha.
  destruct (Nat.eqb (gid a) (gid g')) eqn:E; auto. apply Nat.eqb_eq in E.
  assert (a = g) by (apply (NoDup_map_inj gid l); auto; congruence). subst. auto.
Qed.
Lemma Forall_replace (P : folder -> Prop) g' l : Forall P l -> P g' -> Forall P (replace_g g' l).
Proof. intros H Hp. unfold replace_g. rewrite Forall_forall in *. intros x Hx. apply in_map_iff in Hx.
       destruct Hx as (a & <- & Ha). destruct (Nat.eqb (gid a) (gid g')); auto. Qed.

Lemma gids_remove i l : gids (remove_gid i l) = filter (fun j => negb (Nat.eqb j i)) (gids l).
Proof. unfold gids, remove_gid. induction l as [|f l IH]; cbn; auto. destruct (Nat.eqb (gid f) i); cbn; rewrite IH; auto. Qed.
Lemma in_remove_gid f i l : In f (remove_gid i l) <-> In f l /\ gid f <> i.
Proof. unfold remove_gid. rewrite filter_In, negb_true_iff, Nat.eqb_neq. tauto. Qed.
Lemma in_gids_remove j i l : In j (gids (remove_gid i l)) <-> In j (gids l) /\ j <> i.
Proof. rewrite gids_remove, filter_In, negb_true_iff, Nat.eqb_neq. tauto. Qed.
Lemma NoDup_gnames_remove i l : NoDup (gnames l) -> NoDup (gnames (remove_gid i l)).
Proof. unfold gnames, remove_gid. induction l as [|f l IH]; cbn; intro H; [constructor|].
       inversion H; subst. destruct (negb (Nat.eqb (gid f) i)); cbn; auto. constructor; auto.
       intro C. apply H2. apply in_map_iff in C. destruct C as (g & E & Hg). apply filter_In in Hg. apply in_map_iff. exists g; tauto. Qed.
Lemma Forall_remove_gid (P : folder -> Prop) i l : Forall P l -> Forall P (remove_gid i l).
Proof. intros H. rewrite Forall_forall in *. intros x Hx. apply in_remove_gid in Hx. apply H; tauto. Qed.
Lemma gids_app a b : gids (a ++ b) = gids a ++ gids b. Proof. apply map_app. Qed.
Lemma gnames_app a b : gnames (a ++ b) = gnames a ++ gnames b. Proof. apply map_app. Qed.

Lemma Forall_FInv_mono nx nx' l : (nx <= nx')%nat -> Forall (FInv nx) l -> Forall (FInv nx') l.
Proof. intros H F. rewrite Forall_forall in *. intros x Hx. eapply FInv_mono; eauto. Qed.

(* SInv does not look at the counters *)
Lemma SInv_counters s c d : SInv s -> SInv {| folders := folders s; dfolders := dfolders s; next := next s; ncreate := c; ndelete := d |}.
Proof. intros [A B C D E F G H I]. constructor; auto. Qed.
Lemma SInv_add_create s : SInv s -> SInv (add_create s).
Proof. apply SInv_counters. Qed.
Lemma SInv_add_delete s : SInv s -> SInv (add_delete s).
Proof. apply SInv_counters. Qed.
Lemma SInv_bump s : SInv s -> SInv (bump_next s).
Proof.
  intros [A B C D E F G H I]. constructor; cbn; auto.
  - eapply Forall_FInv_mono; [|eauto]; lia.
  - eapply Forall_FInv_mono; [|eauto]; lia.
  - intros i Hi. specialize (G i Hi). lia.
Qed.

(* updating one live folder by an operation that keeps its identity, name and live status *)
Lemma upd_live_inv s g g' : SInv s -> In g (folders s) -> gid g' = gid g -> gname g' = gname g -> gdel g' = false ->
  FInv (next s) g' -> SInv (set_folders s (replace_g g' (folders s)) (dfolders s)).
Proof.
  intros [A B C D E F G H I] Hin Hi Hn Hd Hf. constructor; cbn; auto.
  - apply Forall_replace; auto.
  - rewrite (gnames_replace g); auto.
  - rewrite gids_replace; auto.
  - rewrite gids_replace; auto.
  - rewrite gids_replace; auto.
  - apply Forall_replace; auto.
Qed.

Lemma live_FInv s g : SInv s -> In g (folders s) -> FInv (next s) g /\ gdel g = false.
Proof. intros [A B C D E F G H I] Hin. rewrite Forall_forall in *. auto. Qed.

Lemma empty_folder_inv nx i n d : FInv nx {| gid := i; gname := n; gdel := false; live := []; dead := []; rcd := 0; rdur := d |}.
Proof.
  constructor; cbn.
  - constructor.
  - constructor.
  - constructor.
  - intros ? [].
  - intros ? [].
  - constructor.
  - constructor.
Qed.

Lemma create_folder_inv s n : SInv s -> SInv (create_folder s n).
Proof.
  intros H. unfold create_folder. destruct (find_folder n (folders s)) eqn:E; auto.
  apply find_folder_none in E. destruct H as [A B C D E' F G H I]. constructor; cbn.
  - apply Forall_app; split; [eapply Forall_FInv_mono; [|eauto]; lia|]. constructor; [|constructor].
    apply empty_folder_inv.
  - eapply Forall_FInv_mono; [|eauto]; lia.
  - rewrite gnames_app. apply NoDup_snoc; auto.
  - rewrite gids_app. apply NoDup_snoc; auto. cbn. intro C'. specialize (G (next s) ltac:(apply in_or_app; auto)). lia.
  - auto.
  - intros i Hi Hd. rewrite gids_app in Hi. apply in_app_or in Hi. destruct Hi as [Hi|[<-|[]]]; [eauto|].
    specialize (G (next s) ltac:(apply in_or_app; auto)). lia.
  - intros i Hi. rewrite gids_app, <- app_assoc in Hi. apply in_app_or in Hi. destruct Hi as [Hi|Hi].
    + specialize (G i ltac:(apply in_or_app; auto)). lia.
    + cbn in Hi. destruct Hi as [<-|Hi]; [lia|]. specialize (G i ltac:(apply in_or_app; auto)). lia.
  - apply Forall_app; split; auto.
  - auto.
Qed.

Lemma find_app' {A} (p : A -> bool) l1 l2 : find p (l1 ++ l2) = match find p l1 with Some x => Some x | None => find p l2 end.
Proof. induction l1 as [|a l IH]; cbn; auto. destruct (p a); auto. Qed.

Lemma create_folder_finds s n : exists g, find_folder n (folders (create_folder s n)) = Some g.
Proof.
  unfold create_folder. destruct (find_folder n (folders s)) eqn:E; [eauto|]. cbn.
  unfold find_folder in *. rewrite find_app', E. cbn. rewrite Z.eqb_refl. eauto.
Qed.

Theorem step_inv s o : SInv s -> SInv (fst (step s o)).
Proof.
  intros H. destruct o as [n|gn n force|gn n|gn|gn n|gn|gn|gn n| |]; cbn [step].
  - (* CreateFolder *) cbn. apply create_folder_inv; auto.
  - (* CreateFile *)
    destruct (negb force && _); [exact H|].
    pose proof (create_folder_inv s gn H) as H1. destruct (create_folder_finds s gn) as [g Eg]. rewrite Eg.
    apply find_folder_some in Eg. destruct Eg as [Hin Hnm]. destruct (live_FInv _ _ H1 Hin) as [Hf Hd].
    pose proof (g_create_inv (next (create_folder s gn)) g n Hf) as Hc.
    destruct (g_create_hdr g n (next (create_folder s gn))) as (A & B & C).
    destruct (g_create g n (next (create_folder s gn))) as [g' fresh] eqn:Ec. cbn [fst] in *.
    apply SInv_add_create.
    assert (Hbase : forall s2, s2 = set_folders (create_folder s gn) (replace_g g' (folders (create_folder s gn))) (dfolders (create_folder s gn)) ->
                    SInv (bump_next s2)).
    { intros s2 ->. pose proof (SInv_bump _ H1) as Hb.
      apply (upd_live_inv (bump_next (create_folder s gn)) g g'); auto; try congruence. }
    destruct fresh.
    + apply Hbase; reflexivity.
    + (* nothing new was created: g' = g *)
      unfold g_create in Ec. destruct (find_name n (live g)); [injection Ec as E1; subst g' | discriminate].
      apply (upd_live_inv (create_folder s gn) g g); auto.
  - (* DeleteFile *)
    destruct (find_folder gn (folders s)) as [g|] eqn:Eg; [|exact H].
    destruct (find_name n (live g)) eqn:En; [|exact H].
    apply find_folder_some in Eg. destruct Eg as [Hin Hnm]. destruct (live_FInv _ _ H Hin) as [Hf Hd].
    pose proof (g_delete_inv (next s) g n Hf) as Hc. destruct (g_delete_hdr g n) as (A & B & C).
    destruct (g_delete g n) as [g' ok]. cbn [fst] in *. apply SInv_add_delete.
    apply (upd_live_inv s g g'); auto; congruence.
  - (* DeleteFolder *)
    destruct (find_folder gn (folders s)) as [g|] eqn:Eg; [|exact H].
    destruct (gn =? ROOT); [exact H|]. cbn [fst].
    apply find_folder_some in Eg. destruct Eg as [Hin Hnm]. destruct (live_FInv _ _ H Hin) as [Hf Hd].
    destruct H as [A B C D E F G H' I].
    assert (Hgi : In (gid g) (gids (folders s))) by (apply in_map; auto).
    constructor; cbn.
    + apply Forall_remove_gid; auto.
    + apply Forall_app; split; auto. constructor; [|constructor]. apply g_remove_all_inv, set_gdel_inv; auto.
    + apply NoDup_gnames_remove; auto.
    + rewrite gids_remove. apply NoDup_filter; auto.
    + rewrite gids_app. apply NoDup_snoc; auto. cbn. intro C'. eauto.
    + intros i Hi Hd'. apply in_gids_remove in Hi. destruct Hi as [Hi Hne]. rewrite gids_app in Hd'.
      apply in_app_or in Hd'. destruct Hd' as [|[E'|[]]]; [eauto|]. cbn in E'. congruence.
    + intros i Hi. apply in_app_or in Hi. destruct Hi as [Hi|Hi].
      * apply in_gids_remove in Hi. apply G. apply in_or_app; tauto.
      * rewrite gids_app in Hi. apply in_app_or in Hi. destruct Hi as [Hi|[<-|[]]]; apply G; apply in_or_app; auto.
    + apply Forall_remove_gid; auto.
    + apply Forall_app; split; auto.
  - (* RestoreFile *)
    destruct (find_folder gn (folders s)) as [g|] eqn:Eg; [|exact H].
    apply find_folder_some in Eg. destruct Eg as [Hin Hnm]. destruct (live_FInv _ _ H Hin) as [Hf Hd].
    pose proof (g_restore_inv (next s) g n Hf) as Hc. destruct (g_restore_hdr g n) as (A & B & C).
    destruct (g_restore g n) as [g' ok]. cbn [fst] in *.
    apply (upd_live_inv s g g'); auto; congruence.
  - (* RestoreFolder *)
    destruct (find_folder gn (folders s)) as [g|] eqn:Eg.
    + apply find_folder_some in Eg. destruct Eg as [Hin Hnm]. destruct (live_FInv _ _ H Hin) as [Hf Hd].
      destruct (g_start_restore_hdr g) as (A & B & C). cbn [fst].
      apply (upd_live_inv s g (g_start_restore g)); auto. apply g_start_restore_inv; auto.
    + destruct (find_folder gn (dfolders s)) as [g|] eqn:Ed; [|exact H]. cbn [fst].
      apply find_folder_none in Eg. apply find_folder_some in Ed. destruct Ed as [Hin Hnm].
      destruct (g_start_restore_hdr g) as (A0 & B0 & C0).
      destruct H as [A B C D E F G H' I].
      assert (Hgi : In (gid g) (gids (dfolders s))) by (apply in_map; auto).
      assert (Hf : FInv (next s) g) by (rewrite Forall_forall in B; auto).
      constructor; cbn.
      * apply Forall_app; split; auto. constructor; [|constructor]. apply g_start_restore_inv; auto.
      * apply Forall_remove_gid; auto.
      * rewrite gnames_app. apply NoDup_snoc; auto. cbn. rewrite B0, Hnm. auto.
      * rewrite gids_app. apply NoDup_snoc; auto. cbn. rewrite A0. intro C'. eauto.
      * rewrite gids_remove. apply NoDup_filter; auto.
      * intros i Hi Hd'. apply in_gids_remove in Hd'. destruct Hd' as [Hd' Hne]. rewrite gids_app in Hi.
        apply in_app_or in Hi. destruct Hi as [|[E'|[]]]; [eauto|]. cbn in E'. congruence.
      * intros i Hi. apply in_app_or in Hi. destruct Hi as [Hi|Hi].
        -- rewrite gids_app in Hi. apply in_app_or in Hi. destruct Hi as [Hi|[<-|[]]]; [apply G; apply in_or_app; auto|].
           cbn. rewrite A0. apply G. apply in_or_app; auto.
        -- apply in_gids_remove in Hi. apply G. apply in_or_app; tauto.
      * apply Forall_app; split; auto.
      * apply Forall_remove_gid; auto.
  - (* FolderRestore *)
    destruct (find_folder gn (folders s)) as [g|] eqn:Eg; [|exact H].
    apply find_folder_some in Eg. destruct Eg as [Hin Hnm]. destruct (live_FInv _ _ H Hin) as [Hf Hd].
    destruct (g_start_restore_hdr g) as (A & B & C). cbn [fst].
    apply (upd_live_inv s g (g_start_restore g)); auto. apply g_start_restore_inv; auto.
  - (* FolderDeleteFile *)
    destruct (find_folder gn (folders s)) as [g|] eqn:Eg; [|exact H].
    apply find_folder_some in Eg. destruct Eg as [Hin Hnm]. destruct (live_FInv _ _ H Hin) as [Hf Hd].
    pose proof (g_delete_inv (next s) g n Hf) as Hc. destruct (g_delete_hdr g n) as (A & B & C).
    destruct (g_delete g n) as [g' ok]. cbn [fst] in *.
    apply (upd_live_inv s g g'); auto; congruence.
  - (* Tick *)
    cbn [fst]. destruct H as [A B C D E F G H' I].
    assert (Hh : forall g, In g (folders s) -> gid (g_restore_tick g) = gid g /\ gname (g_restore_tick g) = gname g /\ gdel (g_restore_tick g) = false).
    { intros g Hg. apply g_restore_tick_hdr. rewrite Forall_forall in H'. auto. }
    assert (Ei : gids (map g_restore_tick (folders s)) = gids (folders s)).
    { unfold gids. rewrite map_map. apply map_ext_in. intros a Ha. apply Hh; auto. }
    assert (En : gnames (map g_restore_tick (folders s)) = gnames (folders s)).
    { unfold gnames. rewrite map_map. apply map_ext_in. intros a Ha. apply Hh; auto. }
    constructor; cbn [folders dfolders next set_folders ncreate ndelete].
    + rewrite Forall_forall in *. intros x Hx. apply in_map_iff in Hx. destruct Hx as (a & <- & Ha).
      apply g_restore_tick_inv; auto.
    + auto.
    + rewrite En; auto.
    + rewrite Ei; auto.
    + auto.
    + rewrite Ei; auto.
    + rewrite Ei; auto.
    + rewrite Forall_forall. intros x Hx. apply in_map_iff in Hx. destruct Hx as (a & <- & Ha). apply Hh; auto.
    + auto.
  - (* TickOff *)
    cbn [fst]. destruct H as [A B C D E F G H' I]. constructor; cbn [folders dfolders next ncreate ndelete]; auto.
Qed.

Theorem counters_zero_at_tick_start_off s : ncreate (fst (step s TickOff)) = 0 /\ ndelete (fst (step s TickOff)) = 0 /\
  folders (fst (step s TickOff)) = folders s /\ dfolders (fst (step s TickOff)) = dfolders s.
Proof. cbn. auto. Qed.

Lemma init_inv : SInv init.
Proof.
  constructor; cbn.
  - constructor; [apply empty_folder_inv|constructor].
  - constructor.
  - constructor; [intros []|constructor].
  - constructor; [intros []|constructor].
  - constructor.
  - intros i _ [].
  - intros i [<-|[]]; lia.
  - constructor; [reflexivity|constructor].
  - constructor.
Qed.

(* every reachable state, for all op sequences *)
Theorem fs_inv_reachable ops : SInv (run init ops).
Proof.
  unfold run. generalize init_inv. generalize init. induction ops as [|o ops IH]; cbn; intros s H; auto.
  apply IH. apply step_inv; auto.
Qed.

(* ---- the remaining clauses of the property --------------------------------------------------------------------- *)
Theorem counters_zero_at_tick_start s : ncreate (fst (step s Tick)) = 0 /\ ndelete (fst (step s Tick)) = 0.
Proof. cbn. auto. Qed.

Theorem create_existing_file_refused s gn n g f :
  find_folder gn (folders s) = Some g -> find_name n (live g) = Some f -> step s (CreateFile gn n false) = (s, Failure).
Proof. intros Hg Hf. cbn. rewrite Hg, Hf. reflexivity. Qed.

Theorem create_existing_folder_noop s n g : find_folder n (folders s) = Some g -> step s (CreateFolder n) = (s, Success).
Proof. intros Hg. cbn. unfold create_folder. rewrite Hg. reflexivity. Qed.

Theorem deleted_file_unavailable s gn n g :
  find_folder gn (folders s) = Some g -> find_name n (live g) = None -> step s (DeleteFile gn n) = (s, Failure).
Proof. intros Hg Hf. cbn. rewrite Hg, Hf. reflexivity. Qed.

Theorem delete_moves_to_deleted nx g n f : FInv nx g -> find_name n (live g) = Some f ->
  let g' := fst (g_delete g n) in ~ In (fid f) (ids (live g')) /\ In (fid f) (ids (dead g')).
Proof.
  intros H Hf. unfold g_delete. rewrite Hf. cbn. split.
  - intro C. apply in_ids_remove in C. tauto.
  - rewrite ids_app. apply in_or_app. right. cbn. auto.
Qed.

Theorem restore_moves_back nx g n f : FInv nx g -> find_name n (live g) = None -> find_name n (dead g) = Some f ->
  let g' := fst (g_restore g n) in In (fid f) (ids (live g')) /\ ~ In (fid f) (ids (dead g')).
Proof.
  intros H Hl Hf. unfold g_restore. rewrite Hl, Hf. cbn. split.
  - rewrite ids_app. apply in_or_app. right. cbn. auto.
  - intro C. apply in_ids_remove in C. tauto.
Qed.
