(* Generic synchronous frame propagation over an arbitrary wiring, as the nested send_frame / receive_frame calls do it
   (C06, C08): a delivery implies an open path; the propagation of one frame terminates within TTL+1 nesting levels.
   The section variables are the device models; `handle_sound` and `handle_ttl` are what each device model must
   establish (see Model/Device.v and Proofs/DeviceProofs.v for the instances). *)
From Coq Require Import List Bool Lia.
Import ListNotations.

Section Net.
  Variables (node port frame gstate K B : Type).                    (* gstate: the state of all devices *)
  Variable wire   : node -> port -> option (node * port).          (* cabling; None = nothing plugged in *)
  Variable handle : gstate -> node -> port -> frame -> gstate * list (port * frame) * bool.
  Variable key    : frame -> K.                                     (* the ACL-relevant tuple, invariant en route *)
  Variable bstate : gstate -> B.                                    (* rules, enabled flags, power: what "blocked" means *)
  Variable open_hop : B -> node -> port -> port -> K -> Prop.       (* device forwards key from in-port to out-port *)
  Variable accepts  : B -> node -> port -> K -> Prop.               (* device hands key arriving on port to its software *)

  (* what each device model must establish (switch, router, firewall, host) *)
  Hypothesis handle_sound : forall s n p f s' outs d, handle s n p f = (s', outs, d) ->
      bstate s' = bstate s /\
      (forall q f', In (q, f') outs -> key f' = key f /\ open_hop (bstate s) n p q (key f)) /\
      (d = true -> accepts (bstate s) n p (key f)).

  (* synchronous propagation, as the nested send_frame/receive_frame calls do it; fuel = TTL bound *)
  Fixpoint prop (fuel : nat) (s : gstate) (n : node) (p : port) (f : frame) : gstate * list (node * port) :=
    match fuel with
    | O => (s, [])
    | S k =>
        let '(s1, outs, d) := handle s n p f in
        let here := if d then [(n, p)] else [] in
        fold_left (fun acc qf =>
                     let '(si, del) := acc in
                     match wire n (fst qf) with
                     | Some (n', p') => let '(sj, del') := prop k si n' p' (snd qf) in (sj, del ++ del')
                     | None => (si, del)
                     end) outs (s1, here)
    end.

  (* an open path in blocking state b, for key k, from arrival point (n,p) to delivery point (n',p') *)
  Inductive open_path (b : B) (k : K) : node -> port -> node -> port -> Prop :=
  | OP_here n p : accepts b n p k -> open_path b k n p n p
  | OP_hop n p q n1 p1 n' p' : open_hop b n p q k -> wire n q = Some (n1, p1) ->
                               open_path b k n1 p1 n' p' -> open_path b k n p n' p'.

  Theorem delivered_implies_open_path : forall fuel s n p f s' del,
      prop fuel s n p f = (s', del) ->
      bstate s' = bstate s /\ forall n' p', In (n', p') del -> open_path (bstate s) (key f) n p n' p'.
  Proof.
    induction fuel as [|k IH]; intros s n p f s' del H; cbn [prop] in H.
    - inversion H; subst. split; auto. intros ? ? [].
    - destruct (handle s n p f) as [[s1 outs] d] eqn:Eh.
      destruct (handle_sound _ _ _ _ _ _ _ Eh) as (Hb1 & Houts & Hd).
      (* generalise the fold *)
      assert (G : forall outs' si deli sf delf,
                 (forall q f', In (q, f') outs' -> key f' = key f /\ open_hop (bstate s) n p q (key f)) ->
                 bstate si = bstate s ->
                 (forall n' p', In (n', p') deli -> open_path (bstate s) (key f) n p n' p') ->
                 fold_left (fun acc qf =>
                     let '(si, del) := acc in
                     match wire n (fst qf) with
                     | Some (n', p') => let '(sj, del') := prop k si n' p' (snd qf) in (sj, del ++ del')
                     | None => (si, del)
                     end) outs' (si, deli) = (sf, delf) ->
                 bstate sf = bstate s /\ forall n' p', In (n', p') delf -> open_path (bstate s) (key f) n p n' p').
      { induction outs' as [|[q f'] tl IHo]; cbn [fold_left]; intros si deli sf delf Ho Hbi Hdi Hf.
        - inversion Hf; subst; auto.
        - cbn [fst snd] in Hf. destruct (Ho q f' (or_introl eq_refl)) as [Hk Hop].
          destruct (wire n q) as [[n1 p1]|] eqn:Ew.
          + destruct (prop k si n1 p1 f') as [sj delj] eqn:Ep.
            destruct (IH _ _ _ _ _ _ Ep) as [Hbj Hdj].
            apply (IHo sj (deli ++ delj) sf delf); [intros; apply Ho; right; auto|rewrite Hbj; exact Hbi| |exact Hf].
            intros n' p' Hin. apply in_app_or in Hin. destruct Hin as [|Hin]; auto.
            eapply OP_hop; eauto. rewrite <- Hk, <- Hbi. auto.
          + apply (IHo si deli sf delf); [intros; apply Ho; right; auto|auto|auto|exact Hf]. }
      eapply G; eauto.
      intros n' p' Hin. destruct d; [|destruct Hin]. destruct Hin as [E|[]]. inversion E; subst. constructor; auto.
  Qed.

  (* contrapositive: the property as stated *)
  Corollary blocked_no_delivery : forall fuel s n p f nB pB,
      ~ open_path (bstate s) (key f) n p nB pB -> ~ In (nB, pB) (snd (prop fuel s n p f)).
  Proof. intros fuel s n p f nB pB Hno Hin. destruct (prop fuel s n p f) as [s' del] eqn:E.
         destruct (delivered_implies_open_path _ _ _ _ _ _ _ E) as [_ H]. auto. Qed.

  (* a separator: a set of nodes that open hops never leave contains every delivery point of a frame injected inside it *)
  Theorem separator : forall b k (S : node -> Prop),
      (forall x p q y p', S x -> wire x q = Some (y, p') -> open_hop b x p q k -> S y) ->
      forall n p n' p', open_path b k n p n' p' -> S n -> S n'.
  Proof.
    intros b k S Hc n p n' p' H. induction H as [n p Ha | n p q n1 p1 n' p' Hop Hw Hpath IH]; intros HS; auto.
    apply IH. eapply Hc; eauto.
  Qed.

  Corollary cut_no_delivery : forall fuel s n p f (S : node -> Prop) nB pB,
      (forall x p q y p', S x -> wire x q = Some (y, p') -> open_hop (bstate s) x p q (key f) -> S y) ->
      S n -> ~ S nB -> ~ In (nB, pB) (snd (prop fuel s n p f)).
  Proof.
    intros fuel s n p f S nB pB Hc HS HnB. apply blocked_no_delivery. intros Hp. apply HnB.
    eapply separator; eauto.
  Qed.

  (* ---- termination: every forwarding hop lowers the TTL, so the nested propagation needs only TTL+1 levels -------- *)
  Variable ttl : frame -> nat.
  Hypothesis handle_ttl : forall s n p f s' outs d, handle s n p f = (s', outs, d) ->
      forall q f', In (q, f') outs -> ttl f' < ttl f.

  Lemma fold_left_ext {A X} (f g : A -> X -> A) l : (forall a x, In x l -> f a x = g a x) -> forall a, fold_left f l a = fold_left g l a.
  Proof.
    induction l as [|x l IH]; cbn; intros H a; auto. rewrite H by (left; auto). apply IH. intros; apply H; right; auto.
  Qed.

  Theorem propagation_terminates : forall k fuel1 fuel2 s n p f,
      ttl f < k -> k <= fuel1 -> k <= fuel2 -> prop fuel1 s n p f = prop fuel2 s n p f.
  Proof.
    induction k as [|k IH]; intros fuel1 fuel2 s n p f Ht H1 H2; [lia|].
    destruct fuel1 as [|a]; [lia|]. destruct fuel2 as [|b]; [lia|]. cbn [prop].
    destruct (handle s n p f) as [[s1 outs] d] eqn:Eh.
    apply fold_left_ext. intros [si del] [q f'] Hin. cbn [fst snd].
    destruct (wire n q) as [[n' p']|]; auto.
    rewrite (IH a b si n' p' f'); auto; try lia.
    pose proof (handle_ttl _ _ _ _ _ _ _ Eh q f' Hin). lia.
  Qed.
End Net.
