From Coq Require Import ZArith List Bool Lia.
Import ListNotations.
From PV Require Import Base.Cases Model.Obs.
From PV Require Import Model.Nmne.
Open Scope Z_scope.

Definition count_dir (d : bool) (ops : list nop) : Z :=
  fold_right (fun o acc => match o with Captured b => if Bool.eqb b d then acc + 1 else acc | _ => acc end) 0 ops.
Definition no_on_observation (ops : list nop) : Prop := Forall (fun o => match o with Observe true => False | _ => True end) ops.
Fixpoint nrun (lo me hi : Z) (s : nmne) (ops : list nop) : nmne :=
  match ops with [] => s | o :: t => nrun lo me hi (fst (nstep lo me hi s o)) t end.

Definition synced (s : nmne) : Prop := l_in s = n_in s /\ l_out s = n_out s.

Lemma run_counts lo me hi : forall ops s, no_on_observation ops ->
  let s' := nrun lo me hi s ops in
  n_in s' = n_in s + count_dir true ops /\ n_out s' = n_out s + count_dir false ops /\ l_in s' = l_in s /\ l_out s' = l_out s.
Proof.
  induction ops as [|o t IH]; intros s H; cbn [nrun count_dir fold_right]; [repeat split; lia|].
  inversion H as [|? ? Ho Ht]; subst. specialize (IH (fst (nstep lo me hi s o)) Ht). cbn zeta in IH.
  destruct IH as (A & B & C & D). fold (count_dir true t) (count_dir false t).
  destruct o as [[|]|[|]]; cbn [nstep fst n_in n_out l_in l_out Bool.eqb] in *; try tauto; repeat split; lia.
Qed.

(* the leaf reported at an observation is the bin of the number of frames captured, per direction, since the previous
   observation of that interface made while its host was ON -- frames captured while the host was observed as not ON
   are not lost, they count towards the next observation *)
Theorem observation_counts_events_since_last : forall lo me hi s ops,
  synced s -> no_on_observation ops ->
  snd (nstep lo me hi (nrun lo me hi s ops) (Observe true)) =
  [categorise lo me hi (count_dir true ops); categorise lo me hi (count_dir false ops)] /\
  synced (fst (nstep lo me hi (nrun lo me hi s ops) (Observe true))).
Proof.
  intros lo me hi s ops [S1 S2] H. destruct (run_counts lo me hi ops s H) as (A & B & C & D).
  cbn [nstep snd fst]. split; [|split; reflexivity]. rewrite A, B, C, D, S1, S2. repeat f_equal; lia.
Qed.

Theorem off_observation_is_default : forall lo me hi s, nstep lo me hi s (Observe false) = (s, [0; 0]).
Proof. reflexivity. Qed.
