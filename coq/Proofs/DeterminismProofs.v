(* Proofs about the order-carrying kernels (C03). *)
From Coq Require Import ZArith List Bool Lia.
Import ListNotations.
From PV Require Import Base.Cases Model.Determinism.
Open Scope Z_scope.

Lemma mem_In x l : mem x l = true <-> In x l.
Proof.
  unfold mem. rewrite existsb_exists. split.
  - intros (y & Hy & E). apply Z.eqb_eq in E. subst; auto.
  - intros H. exists x. split; auto. apply Z.eqb_refl.
Qed.

Lemma dedupe_acc_in seen l x : In x (dedupe_acc seen l) <-> In x l /\ ~ In x seen.
Proof.
  revert seen; induction l as [|y t IH]; intros seen; cbn [dedupe_acc].
  - cbn. tauto.
  - destruct (mem y seen) eqn:M.
    + apply mem_In in M. rewrite IH. cbn. split; [tauto|]. intros [[E|H] Hn]; [subst; tauto|tauto].
    + assert (~ In y seen) by (intros H; apply mem_In in H; congruence). cbn [In]. rewrite IH. cbn [In].
      split.
      * intros [E|[H1 H2]]; [subst; tauto|]. split; [tauto|]. intros H3. apply H2. auto.
      * intros [[E|H1] H2]; [auto|]. destruct (Z.eq_dec y x); [auto|]. right. split; auto. intros [E|H3]; auto.
Qed.

Lemma dedupe_acc_nodup seen l : NoDup (dedupe_acc seen l).
Proof.
  revert seen; induction l as [|y t IH]; intros seen; cbn [dedupe_acc]; [constructor|].
  destruct (mem y seen); auto. constructor; auto. rewrite dedupe_acc_in. cbn. tauto.
Qed.

(* every address of the request is enumerated exactly once *)
Theorem dedupe_spec l : NoDup (dedupe l) /\ forall x, In x (dedupe l) <-> In x l.
Proof. split; [apply dedupe_acc_nodup|]. intros x. unfold dedupe. rewrite dedupe_acc_in. cbn. tauto. Qed.

(* ... in the order of first occurrence *)
Fixpoint first_occurrences (l : list Z) : list Z :=
  match l with [] => [] | x :: t => x :: filter (fun y => negb (y =? x)) (first_occurrences t) end.

Lemma mem_cons y x s : mem y (x :: s) = (y =? x) || mem y s.
Proof. reflexivity. Qed.

Lemma dedupe_acc_ext : forall l a b, (forall w, mem w a = mem w b) -> dedupe_acc a l = dedupe_acc b l.
Proof.
  induction l as [|w l IH]; intros a b H; cbn [dedupe_acc]; auto.
  rewrite (H w). destruct (mem w b); auto. f_equal. apply IH. intros v. rewrite !mem_cons, H. reflexivity.
Qed.

Lemma filter_dedupe_acc : forall l seen x, filter (fun y => negb (y =? x)) (dedupe_acc seen l) = dedupe_acc (x :: seen) l.
Proof.
  induction l as [|y t IH]; intros seen x; cbn [dedupe_acc]; auto.
  rewrite mem_cons. destruct (y =? x) eqn:E; cbn [orb].
  - apply Z.eqb_eq in E. subst y. destruct (mem x seen) eqn:M; [apply IH|].
    cbn [filter]. rewrite Z.eqb_refl. cbn [negb]. rewrite IH. apply dedupe_acc_ext.
    intros w. rewrite !mem_cons. destruct (w =? x); reflexivity.
  - destruct (mem y seen) eqn:M; [apply IH|]. cbn [filter]. rewrite E. cbn [negb]. f_equal. rewrite IH. apply dedupe_acc_ext.
    intros w. rewrite !mem_cons. destruct (w =? x), (w =? y); reflexivity.
Qed.

(* the enumeration is exactly the list of first occurrences, in input order: a function of the request list alone *)
Theorem dedupe_is_first_occurrences l : dedupe l = first_occurrences l.
Proof.
  unfold dedupe. induction l as [|x t IH]; cbn [dedupe_acc first_occurrences]; auto.
  cbn [mem existsb]. f_equal. rewrite <- IH. symmetry. apply filter_dedupe_acc.
Qed.
