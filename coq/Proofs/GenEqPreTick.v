(* Gen = Model: Node.pre_timestep and FileSystem.pre_timestep translated from the current source by translator/py2coq_imp.py.
   Node.pre_timestep takes no decision at all -- whatever the node's power state it runs, in this order, the pre-timestep of
   its interfaces (1), processes (2), services (3), applications (4) and of its file system (5) -- and the file system's
   resets both per-tick counters, which is what Model/Fs.v's Tick and TickOff do with them. *)
From Coq Require Import ZArith Bool List Lia.
Import ListNotations.
From PV Require Import Model.Fs Gen.GenPreTick.
Open Scope Z_scope.

Theorem gen_node_pre_timestep_is_unconditional : forall evs,
  Node_pre_timestep evs = (tt, evs ++ [(1, []); (2, []); (3, []); (4, []); (5, [])]).
Proof. intros evs. unfold Node_pre_timestep. repeat rewrite <- app_assoc. reflexivity. Qed.

Theorem gen_file_system_pre_timestep : forall s evs,
  FileSystem_pre_timestep (ncreate s) (ndelete s) evs =
  (tt, (ncreate (fst (step s TickOff)), ndelete (fst (step s TickOff)), evs ++ [(1, [])])).
Proof. intros s evs. reflexivity. Qed.
