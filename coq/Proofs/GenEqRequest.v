(* Gen = Model: RequestManager.__call__ and RequestManager.check_valid, translated from the current source by
   translator/py2coq_imp.py, are one level of Model.ReqTree.dispatch / check_valid: the request's length, whether its first
   element names a child, what that child's validator says and what the child answers are parameters of the translation and
   are instantiated here from the model's tree (keys of the model are hashable). *)
From Coq Require Import ZArith Bool List Lia.
Import ListNotations.
From PV Require Import Model.ReqTree Gen.GenRequest.
Open Scope Z_scope.

Section Level.
  Variables (St Key : Type) (key_eqb : Key -> Key -> bool).
  Notation rtree := (rtree St Key).
  Notation validator := (validator St Key).

  Fixpoint find_kid (kids : list (Key * (validator * rtree))) (k : Key) : option (validator * rtree) :=
    match kids with [] => None | (k', x) :: tl => if key_eqb k k' then Some x else find_kid tl k end.

  Theorem gen_call_one_level : forall kids r s,
    status_to_Z (snd (dispatch key_eqb (Mgr kids) r s)) =
    RequestManager_call (Z.of_nat (length r)) true
      (match r with [] => true | k :: _ => match find_kid kids k with None => true | Some _ => false end end)
      (match r with k :: opts => match find_kid kids k with Some (v, _) => v opts s | None => false end | [] => false end)
      (match r with k :: opts => match find_kid kids k with Some (_, sub) => status_to_Z (snd (dispatch key_eqb sub opts s)) | None => 0 end
       | [] => 0 end).
  Proof.
    intros kids r s. destruct r as [|k opts]; [reflexivity|].
    unfold RequestManager_call. replace (Z.of_nat (length (k :: opts)) =? 0) with false by (symmetry; apply Z.eqb_neq; cbn [length]; lia).
    cbn [dispatch negb orb].
    induction kids as [|[k' [v sub]] tl IH]; [reflexivity|].
    cbn [find_kid]. destruct (key_eqb k k'); [|exact IH].
    destruct (v opts s); reflexivity.
  Qed.

  Theorem gen_check_valid_one_level : forall kids r s,
    check_valid key_eqb (Mgr kids) r s =
    RequestManager_check_valid (Z.of_nat (length r)) true
      (match r with [] => true | k :: _ => match find_kid kids k with None => true | Some _ => false end end)
      (match r with k :: opts => match find_kid kids k with Some (v, _) => v opts s | None => false end | [] => false end)
      (match r with k :: opts => match find_kid kids k with Some (_, Mgr _) => true | _ => false end | [] => false end)
      (match r with k :: opts => match find_kid kids k with Some (_, sub) => check_valid key_eqb sub opts s | None => false end | [] => false end).
  Proof.
    intros kids r s. destruct r as [|k opts]; [reflexivity|].
    unfold RequestManager_check_valid. replace (Z.of_nat (length (k :: opts)) =? 0) with false by (symmetry; apply Z.eqb_neq; cbn [length]; lia).
    cbn [check_valid negb orb].
    induction kids as [|[k' [v sub]] tl IH]; [reflexivity|].
    cbn [find_kid]. destruct (key_eqb k k'); [|exact IH].
    destruct (v opts s); cbn [andb negb]; [|reflexivity]. destruct sub; reflexivity.
  Qed.
End Level.

(* ---- transfer: read off the translated functions directly -------------------------------------------------------------- *)
(* a request that names no child, or that the child's validator refuses, is answered unreachable (3) or failure (2) -- never
   success -- and the dry run says no, whatever the handler would have answered *)
Theorem source_refused_request_is_never_success : forall len hashable unknown allows handler_status is_mgr sub,
  len = 0 \/ hashable = false \/ unknown = true \/ allows = false ->
  (RequestManager_call len hashable unknown allows handler_status = 3 \/ RequestManager_call len hashable unknown allows handler_status = 2) /\
  RequestManager_check_valid len hashable unknown allows is_mgr sub = false.
Proof.
  intros len hashable unknown allows hs is_mgr sub H. unfold RequestManager_call, RequestManager_check_valid.
  destruct (len =? 0) eqn:L; [split; [left|]; reflexivity|].
  destruct hashable, unknown, allows; cbn; try (split; [auto|reflexivity]).
  exfalso. destruct H as [H|[H|[H|H]]]; try discriminate. apply Z.eqb_neq in L. contradiction.
Qed.
