From Coq Require Import ZArith List Bool Lia ZifyBool QArith Sorting.Permutation Sorting.Sorted.
Import ListNotations.
From PV Require Import Model.Scripted.
Open Scope Z_scope.

(* ---- periodic agents ------------------------------------------------------------------------------------------------ *)
Inductive gaps_ok (f v : Z) : list Z -> Prop :=
| g_nil : gaps_ok f v []
| g_one x : gaps_ok f v [x]
| g_cons x y l : f - v <= y - x <= f + v -> gaps_ok f v (y :: l) -> gaps_ok f v (x :: y :: l).

Definition draws_ok (v : Z) (l : list Z) : Prop := Forall (fun d => - v <= d <= v) l.

Lemma take_draw_ok v s : draws_ok v (p_draws s) ->
  let '(d, s1) := take_draw s in - v <= d <= v /\ draws_ok v (p_draws s1) /\ p_next s1 = p_next s /\ p_num s1 = p_num s \/
                               (p_draws s = [] /\ d = 0 /\ s1 = s).
Proof.
  unfold take_draw. destruct (p_draws s) as [|d t] eqn:E; intros H.
  - right. auto.
  - left. inversion H; subst. cbn. auto.
Qed.

(* the core invariant: the next execution step is never in the past; then the agent acts exactly at the scheduled steps *)
Lemma run_props c : 0 <= p_var c < p_freq c -> forall n s t, draws_ok (p_var c) (p_draws s) -> 0 <= t -> t <= p_next s ->
  gaps_ok (p_freq c) (p_var c) (p_run c s t n) /\
  (forall x, hd_error (p_run c s t n) = Some x -> x = p_next s) /\
  (p_dm c = false -> 0 <= p_num s -> Z.of_nat (length (p_run c s t n)) + p_num s <= Z.max (p_max c) (p_num s)).
Proof.
  intros Hv. induction n as [|n IH]; intros s t Hd H0 Ht; cbn [p_run].
  - split; [constructor|split; [intros x H; discriminate|intros; cbn; lia]].
  - unfold p_step. destruct (p_dm c) eqn:Dm.
    + (* data-manipulation agent: acts when t >= next *)
      destruct (t <? p_next s) eqn:E.
      * cbn [app]. destruct (IH s (t + 1) Hd ltac:(lia) ltac:(lia)) as (G & H & M). repeat split; auto; try (intros; discriminate).
      * assert (t = p_next s) by lia. subst t.
        pose proof (take_draw_ok (p_var c) s Hd) as T. destruct (take_draw s) as [d s1].
        assert (Dd : - p_var c <= d <= p_var c) by (destruct T as [(A & _)|(_ & -> & _)]; lia).
        assert (Dr : draws_ok (p_var c) (p_draws s1)) by (destruct T as [(_ & A & _)|(A & _ & ->)]; [auto|rewrite A; constructor]).
        set (s' := {| p_next := Z.max 0 (p_next s + p_freq c + d); p_num := p_num s; p_draws := p_draws s1 |}).
        assert (N : p_next s' = Z.max 0 (p_next s + p_freq c + d)) by reflexivity.
        destruct (IH s' (p_next s + 1) Dr ltac:(lia) ltac:(rewrite N; lia)) as (G & H & M).
        cbn [app]. repeat split.
        -- destruct (p_run c s' (p_next s + 1) n) as [|y l] eqn:R; [constructor|].
           specialize (H y eq_refl). constructor; auto. rewrite H, N. lia.
        -- intros x Hx. cbn in Hx. congruence.
        -- intros; discriminate.
    + (* periodic agent: acts when t = next and the cap is not reached *)
      destruct ((t =? p_next s) && (p_num s <? p_max c)) eqn:E.
      * apply andb_true_iff in E. destruct E as [E1 E2]. assert (t = p_next s) by lia. subst t.
        pose proof (take_draw_ok (p_var c) s Hd) as T. destruct (take_draw s) as [d s1].
        assert (Dd : - p_var c <= d <= p_var c) by (destruct T as [(A & _)|(_ & -> & _)]; lia).
        assert (Dr : draws_ok (p_var c) (p_draws s1)) by (destruct T as [(_ & A & _)|(A & _ & ->)]; [auto|rewrite A; constructor]).
        set (s' := {| p_next := Z.max 0 (p_next s + p_freq c + d); p_num := p_num s + 1; p_draws := p_draws s1 |}).
        assert (N : p_next s' = Z.max 0 (p_next s + p_freq c + d)) by reflexivity.
        destruct (IH s' (p_next s + 1) Dr ltac:(lia) ltac:(rewrite N; lia)) as (G & H & M).
        cbn [app]. repeat split.
        -- destruct (p_run c s' (p_next s + 1) n) as [|y l] eqn:R; [constructor|].
           specialize (H y eq_refl). constructor; auto. rewrite H, N. lia.
        -- intros x Hx. cbn in Hx. congruence.
        -- intros _ Hn0. specialize (M eq_refl). assert (Pn : p_num s' = p_num s + 1) by reflexivity. rewrite Pn in M.
           specialize (M ltac:(lia)). cbn [length]. lia.
      * cbn [app]. destruct (Z.eq_dec t (p_next s)) as [->|Hne].
        -- (* at the scheduled step but the cap is reached: the agent never acts again *)
           assert (Cap : p_max c <= p_num s) by lia.
           assert (Z : forall k s0 t0, p_num s0 = p_num s -> p_dm c = false -> p_run c s0 t0 k = []).
           { induction k as [|k IHk]; intros s0 t0 Hn _; cbn [p_run]; auto. unfold p_step. rewrite Dm.
             replace ((t0 =? p_next s0) && (p_num s0 <? p_max c)) with false by lia. cbn [app]. apply IHk; auto. }
           rewrite (Z n s (p_next s + 1) eq_refl Dm). split; [constructor|split; [intros x Hx; discriminate|intros; cbn; lia]].
        -- destruct (IH s (t + 1) Hd ltac:(lia) ltac:(lia)) as (G & H & M). repeat split; auto.
Qed.

Lemma init_ok c draws : 0 <= p_svar c -> draws_ok (p_svar c) (firstn 1 draws) -> draws_ok (p_var c) (skipn (if p_dm c then 2 else 1) draws) ->
  let s := p_init c draws in
  draws_ok (p_var c) (p_draws s) /\ 0 <= p_next s /\ p_num s = 0 /\
  (p_dm c = false -> Z.max 0 (p_start c - p_svar c) <= p_next s <= Z.max 0 (p_start c + p_svar c)) /\
  (p_dm c = true -> p_next s = Z.max 0 (p_start c)).
Proof.
  intros Hs H1 H2. unfold p_init, take_draw. cbn [p_draws].
  destruct draws as [|d0 t]; cbn [firstn skipn] in *.
  - destruct (p_dm c); cbn; repeat split; auto; try lia; try constructor; intros; try discriminate; lia.
  - inversion H1; subst. destruct (p_dm c); cbn.
    + destruct t as [|d1 t']; cbn in *; repeat split; auto; try lia; try constructor; intros; try discriminate.
    + repeat split; auto; try lia; intros; try discriminate; lia.
Qed.

(* the property: start window, frequency window, execution cap -- for every draw stream satisfying randint's contract *)
Theorem periodic_schedule c draws n :
  0 <= p_svar c -> 0 <= p_var c < p_freq c ->
  draws_ok (p_svar c) (firstn 1 draws) -> draws_ok (p_var c) (skipn (if p_dm c then 2 else 1) draws) ->
  let ts := action_times c draws n in
  gaps_ok (p_freq c) (p_var c) ts /\
  (forall x, hd_error ts = Some x ->
     if p_dm c then x = Z.max 0 (p_start c) else Z.max 0 (p_start c - p_svar c) <= x <= Z.max 0 (p_start c + p_svar c)) /\
  (p_dm c = false -> 0 <= p_max c -> Z.of_nat (length ts) <= p_max c).
Proof.
  intros Hs Hv H1 H2 ts. destruct (init_ok c draws Hs H1 H2) as (D & N0 & Num & W1 & W2).
  destruct (run_props c Hv n (p_init c draws) 0 D ltac:(lia) N0) as (G & H & M). unfold ts, action_times. repeat split; auto.
  - intros x Hx. rewrite (H x Hx). destruct (p_dm c); auto.
  - intros Dm Hm. specialize (M Dm). rewrite Num in M. specialize (M ltac:(lia)). lia.
Qed.

(* ---- probabilistic agent ---------------------------------------------------------------------------------------------- *)
Open Scope Q_scope.
Fixpoint qsum (l : list Q) : Q := match l with [] => 0 | x :: t => x + qsum t end.

Lemma choose_ge ps : forall acc u i0, (i0 <= choose ps acc u i0)%nat.
Proof. induction ps as [|p t IH]; cbn; intros; auto. destruct (Qlt_le_dec u (acc + p)); auto. specialize (IH (acc + p) u (S i0)). lia. Qed.

(* the selected index has positive probability: an action given probability zero is never selected *)
Theorem zero_probability_never_chosen : forall ps acc u i0,
  acc <= u -> u < acc + qsum ps ->
  exists p, nth_error ps (choose ps acc u i0 - i0)%nat = Some p /\ 0 < p.
Proof.
  induction ps as [|p t IH]; cbn [choose qsum]; intros acc u i0 Hlo Hhi.
  - exfalso. rewrite Qplus_0_r in Hhi. apply (Qlt_irrefl u). eapply Qlt_le_trans; eauto.
  - destruct (Qlt_le_dec u (acc + p)) as [L|G].
    + replace (i0 - i0)%nat with O by lia. exists p. split; auto.
      apply (Qplus_lt_r _ _ acc). rewrite Qplus_0_r. eapply Qle_lt_trans; eauto.
    + destruct (IH (acc + p) u (S i0) G) as (q & Hq & Hp). { rewrite <- Qplus_assoc. exact Hhi. }
      exists q. split; auto. pose proof (choose_ge t (acc + p) u (S i0)).
      replace (choose t (acc + p) u (S i0) - i0)%nat with (S (choose t (acc + p) u (S i0) - S i0)) by lia. exact Hq.
Qed.
Close Scope Q_scope.

(* the probability vector is ordered by action index, whatever the order of the mapping *)
Definition keys_sorted (l : list (Z * Q)) : Prop := Sorted (fun a b => fst a <= fst b) l.

Lemma insert_perm k v l : Permutation ((k, v) :: l) (insert_kv k v l).
Proof.
  induction l as [|[k' v'] t IH]; cbn; auto. destruct (k <=? k'); auto.
  eapply perm_trans; [apply perm_swap|]. constructor. auto.
Qed.
Lemma insert_sorted k v l : keys_sorted l -> keys_sorted (insert_kv k v l).
Proof.
  unfold keys_sorted. induction l as [|[k' v'] t IH]; cbn; intros H; [repeat constructor|].
  destruct (k <=? k') eqn:E.
  - constructor; auto. constructor. cbn. lia.
  - inversion H; subst. constructor; auto. destruct t as [|[k2 v2] t2]; cbn.
    + constructor. cbn. lia.
    + destruct (k <=? k2) eqn:E2; constructor; cbn; try lia. inversion H3; subst. cbn in *. lia.
Qed.
Theorem sort_kv_sorted_perm m : keys_sorted (sort_kv m) /\ Permutation m (sort_kv m).
Proof.
  induction m as [|[k v] t [S P]]; cbn; [split; constructor|]. split.
  - apply insert_sorted; auto.
  - eapply perm_trans; [|apply insert_perm]. constructor. auto.
Qed.

(* ---- kill chain: stages are entered strictly in order ------------------------------------------------------------------ *)
Definition kwf (last : Z) (s : kc) : Prop :=
  (k_cur s = NOT_STARTED /\ k_next s = 1) \/ (1 <= k_cur s < last /\ k_next s = k_cur s + 1) \/
  (k_cur s = last /\ k_next s = SUCCEEDED) \/ (k_cur s = SUCCEEDED /\ k_next s = NOT_STARTED) \/ k_cur s = FAILED.

Definition kmove (last : Z) (a b : Z) : Prop :=
  a = b \/ (a = NOT_STARTED /\ b = 1) \/ (1 <= a < last /\ b = a + 1) \/ (a = last /\ b = SUCCEEDED) \/
  (1 <= a <= last /\ b = FAILED) \/ ((a = SUCCEEDED \/ a = FAILED) /\ b = NOT_STARTED) \/ (a = NOT_STARTED /\ b = FAILED) \/
  ((a = SUCCEEDED \/ a = FAILED) /\ b = FAILED).

(* no stage is skipped: from a numbered stage the only ways on are the next stage (or SUCCEEDED from the last one) and
   FAILED; NOT_STARTED is re-entered only from SUCCEEDED / FAILED (the repeat setting); the bookkeeping invariant is kept.
   _progress_kill_chain is only called from inside a numbered stage (never when FAILED or SUCCEEDED). *)
Theorem kill_chain_order last s o : 2 <= last < NOT_STARTED -> kwf last s -> (k_cur s = FAILED \/ k_cur s = SUCCEEDED -> o <> KProgress) ->
  kmove last (k_cur s) (k_cur (k_step last s o)) /\ (o <> KFail -> k_cur s <> FAILED -> kwf last (k_step last s o)).
Proof.
  intros Hl W HF. destruct s as [c nx d pg].
  destruct o as [| | |rep|ok rs]; unfold kwf, kmove, k_step, NOT_STARTED, SUCCEEDED, FAILED in *; cbn in *.
  - clear HF. destruct (c =? 100) eqn:E; cbn; split; try lia; intros; lia.
  - assert (c <> 300 /\ c <> 200) by (split; intro; apply HF; auto). clear HF.
    destruct (nx =? last) eqn:E; cbn; [split; try lia; intros; lia|].
    destruct (nx =? 200) eqn:E2; cbn; split; try lia; intros; lia.
  - clear HF. split; try lia; intros H; congruence.
  - clear HF. destruct ((c =? 200) || (c =? 300)) eqn:E; cbn; [|split; try lia; intros; lia].
    destruct d; cbn; [split; try lia; intros; lia|]. destruct rep; cbn; split; try lia; intros; lia.
  - clear HF. destruct (ok || rs) eqn:E; cbn; split; try lia; intros; lia.
Qed.

(* a response other than "success" never lets the chain advance: the stage is held (stages repeated) or the chain fails *)
Theorem unsuccessful_response_never_advances last s rs :
  k_cur (k_step last s (KReturn false rs)) = (if rs then k_cur s else FAILED) /\
  k_next (k_step last s (KReturn false rs)) = k_next s /\
  k_step last s (KReturn true rs) = s.
Proof. destruct rs; cbn; auto. Qed.

(* a chain that restarts (ended, not concluded, repeat setting on) re-arms the stage progress: its first stage begins with
   its first action, whatever the failed stage had got to *)
Theorem restart_rearms_first_stage last s :
  (k_cur s = SUCCEEDED \/ k_cur s = FAILED) -> k_done s = false ->
  let s' := k_step last s (KOutcome true) in k_cur s' = NOT_STARTED /\ k_next s' = 1 /\ k_prog s' = 0.
Proof.
  intros H D. destruct s as [c nx d pg]. cbn in *. subst d.
  destruct H as [-> | ->]; cbn; auto.
Qed.
