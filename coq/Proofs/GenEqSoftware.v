(* Gen = Model: the lifecycle / health methods of Software, Service and Application, translated from the current source
   by translator/py2coq_imp.py, are the transitions of Model/Software.v (enumerations coded by their integer values;
   `None` countdowns coded -1; fixing_count, which the model does not carry, is left free). *)
From Coq Require Import ZArith Bool Lia.
From PV Require Import Model.Software Gen.GenSoftware.
Open Scope Z_scope.

Local Ltac cases_h h := destruct h as [a v c d g]; destruct a; cbn.

(* Software.scan: visible := actual *)
Theorem gen_scan : forall h, Software_scan (health_to_Z (ha h)) (health_to_Z (hv h)) = (true, health_to_Z (hv (h_scan h))).
Proof. intros [a v c d g]; reflexivity. Qed.

(* Software.fix *)
Theorem gen_fix : forall h,
  Software_fix (health_to_Z (ha h)) (fdur h) (fcd h) =
  (snd (h_fix h), (fcd (fst (h_fix h)), health_to_Z (ha (fst (h_fix h))))).
Proof. intros h; cases_h h; reflexivity. Qed.

(* Software.apply_timestep: the fix countdown (the model writes -1 for None) *)
Theorem gen_software_tick : forall h n,
  Software_apply_timestep (health_to_Z (ha h)) (fcd h) n =
  (tt, (fcd (h_tick h), (if health_eqb (ha h) FIXING && (fcd h - 1 <=? 0) then n + 1 else n), health_to_Z (ha (h_tick h)))).
Proof.
  intros h n; cases_h h; try reflexivity.
  unfold Software_apply_timestep, Software_update_fix_status, Software_set_health_state, h_tick; cbn.
  destruct (c - 1 <=? 0); reflexivity.
Qed.

(* Service verbs *)
Theorem gen_service_stop : forall s, Service_stop (sstate_to_Z (so s)) = (snd (svc_do s Stop), sstate_to_Z (so (fst (svc_do s Stop)))).
Proof. intros [o r d h]; destruct o; reflexivity. Qed.
Theorem gen_service_pause : forall s, Service_pause (sstate_to_Z (so s)) = (snd (svc_do s Pause), sstate_to_Z (so (fst (svc_do s Pause)))).
Proof. intros [o r d h]; destruct o; reflexivity. Qed.
Theorem gen_service_resume : forall s, Service_resume (sstate_to_Z (so s)) = (snd (svc_do s Resume), sstate_to_Z (so (fst (svc_do s Resume)))).
Proof. intros [o r d h]; destruct o; reflexivity. Qed.
Theorem gen_service_disable : forall s, Service_disable (sstate_to_Z (so s)) = (snd (svc_do s Disable), sstate_to_Z (so (fst (svc_do s Disable)))).
Proof. intros [o r d h]; destruct o; reflexivity. Qed.
Theorem gen_service_enable : forall s, Service_enable (sstate_to_Z (so s)) = (snd (svc_do s Enable), sstate_to_Z (so (fst (svc_do s Enable)))).
Proof. intros [o r d h]; destruct o; reflexivity. Qed.
Theorem gen_service_restart : forall s,
  Service_restart (sstate_to_Z (so s)) (rdur s) (rcd s) =
  (snd (svc_do s Restart), (sstate_to_Z (so (fst (svc_do s Restart))), rcd (fst (svc_do s Restart)))).
Proof. intros [o r d h]; destruct o; reflexivity. Qed.
(* Service.start on a node that is ON (the model applies svc_do only then); refused outright otherwise *)
Theorem gen_service_start : forall s,
  Service_start true (sstate_to_Z (so s)) (health_to_Z (ha (sh s))) =
  (snd (svc_do s Start), (sstate_to_Z (so (fst (svc_do s Start))), health_to_Z (ha (sh (fst (svc_do s Start)))))) /\
  Service_start false (sstate_to_Z (so s)) (health_to_Z (ha (sh s))) = (false, (sstate_to_Z (so s), health_to_Z (ha (sh s)))).
Proof. intros [o r d [a v c f g]]; destruct o; destruct a; split; reflexivity. Qed.

(* Service.apply_timestep *)
Theorem gen_service_tick : forall s n,
  Service_apply_timestep (health_to_Z (ha (sh s))) (fcd (sh s)) n (sstate_to_Z (so s)) (rcd s) =
  (tt, (fcd (sh (svc_tick s)), (if health_eqb (ha (sh s)) FIXING && (fcd (sh s) - 1 <=? 0) then n + 1 else n),
        health_to_Z (ha (sh (svc_tick s))), rcd (svc_tick s), sstate_to_Z (so (svc_tick s)))).
Proof.
  intros [o r d h] n. unfold Service_apply_timestep. cbn [sh so rcd]. rewrite gen_software_tick.
  unfold svc_tick. cbn [sh so rcd set_sh set_so rdur].
  destruct o; cbn; try reflexivity.
  destruct (r <=? 0); reflexivity.
Qed.

(* Application.run / close / install *)
Theorem gen_application_run : forall a,
  Application_run true (astate_to_Z (ao a)) (health_to_Z (ha (ah a))) =
  (tt, (astate_to_Z (ao (app_run a)), health_to_Z (ha (ah (app_run a))))) /\
  Application_run false (astate_to_Z (ao a)) (health_to_Z (ha (ah a))) = (tt, (astate_to_Z (ao a), health_to_Z (ha (ah a)))).
Proof. intros [o i d [x v c f g]]; destruct o; destruct x; split; reflexivity. Qed.
Theorem gen_application_close : forall a,
  Application_close (astate_to_Z (ao a)) = (snd (app_do a Close), astate_to_Z (ao (fst (app_do a Close)))).
Proof. intros [o i d h]; destruct o; reflexivity. Qed.
Theorem gen_application_install : forall on a,
  Application_install (astate_to_Z (ao a)) (idur a) (icd a) =
  (tt, (astate_to_Z (ao (snd (fst (app_step (on, a) Install)))), icd (snd (fst (app_step (on, a) Install))))).
Proof. intros on [o i d h]; destruct o; reflexivity. Qed.

(* Application.apply_timestep *)
Theorem gen_application_tick : forall a n,
  Application_apply_timestep (health_to_Z (ha (ah a))) (fcd (ah a)) n (astate_to_Z (ao a)) (icd a) =
  (tt, (fcd (ah (app_tick a)), (if health_eqb (ha (ah a)) FIXING && (fcd (ah a) - 1 <=? 0) then n + 1 else n),
        health_to_Z (ha (ah (app_tick a))), icd (app_tick a), astate_to_Z (ao (app_tick a)))).
Proof.
  intros [o i d h] n. unfold Application_apply_timestep. cbn [ah ao icd]. rewrite gen_software_tick.
  unfold app_tick. cbn [ah ao icd set_ah set_ao idur].
  destruct o; cbn; try reflexivity.
  destruct (i - 1 <=? 0); reflexivity.
Qed.

(* ---- transfer: the model's timing theorem, stated about the functions translated from the current source -------------- *)
From PV Require Import Proofs.SoftwareProofs.

(* one tick of the translated Software.apply_timestep on (true health, fix countdown, fixes completed) *)
Definition src_htick (x : Z * Z * Z) : Z * Z * Z :=
  let '(h, c, n) := x in let '(_, (c', n', h')) := Software_apply_timestep h c n in (h', c', n').
Fixpoint src_hticks (k : nat) (x : Z * Z * Z) : Z * Z * Z := match k with O => x | S j => src_hticks j (src_htick x) end.

Lemma src_hticks_model : forall k h n, exists n',
  src_hticks k (health_to_Z (ha h), fcd h, n) = (health_to_Z (ha (h_ticks k h)), fcd (h_ticks k h), n').
Proof.
  induction k as [|k IH]; intros h n; cbn [src_hticks h_ticks]; [exists n; reflexivity|].
  unfold src_htick. rewrite gen_software_tick. apply IH.
Qed.

(* a fix requested through the translated Software.fix on compromised or good software is accepted, the translated
   apply_timestep then shows FIXING (2) for max(fixing_duration, 1) - 1 further ticks and GOOD (1) at tick max(fixing_duration, 1) *)
Theorem source_fix_time : forall h n0, ha h = COMPROMISED \/ ha h = GOOD ->
  let '(accepted, (c0, h0)) := Software_fix (health_to_Z (ha h)) (fdur h) (fcd h) in
  let n := Z.to_nat (Z.max (fdur h) 1) in
  accepted = true /\
  (forall k, (k < n)%nat -> fst (fst (src_hticks k (h0, c0, n0))) = 2) /\
  fst (fst (src_hticks n (h0, c0, n0))) = 1.
Proof.
  intros h n0 Hh. rewrite gen_fix. destruct (fix_time h Hh) as (A & B & C).
  set (hf := fst (h_fix h)) in *. cbn zeta. split; [exact A|]. split.
  - intros k Hk. destruct (src_hticks_model k hf n0) as [n' E]. rewrite E. cbn [fst]. rewrite (B k Hk). reflexivity.
  - destruct (src_hticks_model (Z.to_nat (Z.max (fdur h) 1)) hf n0) as [n' E]. rewrite E. cbn [fst]. rewrite C. reflexivity.
Qed.
