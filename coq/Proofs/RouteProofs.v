From Coq Require Import ZArith List Bool Lia.
Import ListNotations.
From PV Require Import Model.Route.
Open Scope Z_scope.

Section R.
  (* well-formed table: prefix lengths are non-negative (they are 0..32) *)
  Variable plen_nonneg : forall r : route, 0 <= r_plen r.

  Definition beats (a b : route) : Prop := r_plen b < r_plen a \/ (r_plen b = r_plen a /\ r_metric a <= r_metric b).

  (* invariant of the scan over a prefix [seen] *)
  Definition Inv (d : Z) (seen : list route) (s : st) : Prop :=
    let '(b, lp, lm) := s in
    match b with
    | None => lp = -1 /\ lm = None /\ forall r, In r seen -> covers r d = false
    | Some r => In r seen /\ covers r d = true /\ lp = r_plen r /\ lm = Some (r_metric r) /\
                forall r', In r' seen -> covers r' d = true -> beats r r'
    end.


  Lemma step_inv d seen s r : Inv d seen s -> Inv d (seen ++ [r]) (step d s r).
  Proof.
    destruct s as [[b lp] lm]. unfold step, Inv. intro H.
    destruct (covers r d) eqn:Ec.
    - destruct b as [b|].
      + destruct H as (Hin & Hc & -> & -> & Hbest). cbn [better].
        destruct ((r_plen r >? r_plen b) || (r_plen r =? r_plen b) && (r_metric r <? r_metric b)) eqn:Eb.
        * repeat split; auto; [apply in_or_app; right; left; auto|].
          intros r' Hin' Hc'. apply in_app_or in Hin'. destruct Hin' as [Hin'|[<-|[]]].
          -- specialize (Hbest r' Hin' Hc'). unfold beats in *. lia.
          -- unfold beats; lia.
        * repeat split; auto; [apply in_or_app; auto|].
          intros r' Hin' Hc'. apply in_app_or in Hin'. destruct Hin' as [Hin'|[<-|[]]]; auto.
          unfold beats. lia.
      + destruct H as (-> & -> & Hnone). cbn [better]. pose proof (plen_nonneg r).
        replace ((r_plen r >? -1) || (r_plen r =? -1) && true) with true by lia.
        repeat split; auto; [apply in_or_app; right; left; auto|].
        intros r' Hin' Hc'. apply in_app_or in Hin'. destruct Hin' as [Hin'|[<-|[]]].
        * rewrite Hnone in Hc'; auto; discriminate.
        * unfold beats; lia.
    - destruct b as [b|].
      + destruct H as (Hin & Hc & -> & -> & Hbest). repeat split; auto; [apply in_or_app; auto|].
        intros r' Hin' Hc'. apply in_app_or in Hin'. destruct Hin' as [Hin'|[<-|[]]]; auto. congruence.
      + destruct H as (-> & -> & Hnone). repeat split; auto.
        intros r' Hin'. apply in_app_or in Hin'. destruct Hin' as [Hin'|[<-|[]]]; auto.
  Qed.

  Lemma fold_inv d : forall rs seen s, Inv d seen s -> Inv d (seen ++ rs) (fold_left (step d) rs s).
  Proof.
    induction rs as [|r rs IH]; cbn [fold_left]; intros seen s H; [rewrite app_nil_r; auto|].
    replace (seen ++ r :: rs) with ((seen ++ [r]) ++ rs) by (rewrite <- app_assoc; auto).
    apply IH. apply step_inv; auto.
  Qed.

  Theorem best_route_spec routes dflt d :
    match find_best routes dflt d with
    | Some r => (In r routes /\ covers r d = true /\ forall r', In r' routes -> covers r' d = true -> beats r r')
                \/ (dflt = Some r /\ forall r', In r' routes -> covers r' d = false)
    | None => dflt = None /\ forall r', In r' routes -> covers r' d = false
    end.
  Proof.
    unfold find_best. pose proof (fold_inv d routes [] (None, -1, None)) as H. cbn [app] in H.
    assert (H0 : Inv d [] (None, -1, None)) by (cbn; repeat split; auto; intros ? []).
    specialize (H H0). destruct (fold_left (step d) routes (None, -1, None)) as [[b lp] lm]. cbn [fst].
    unfold Inv in H. destruct b as [b|].
    - left. destruct H as (Hin & Hc & _ & _ & Hb). auto.
    - destruct H as (_ & _ & Hn). destruct dflt; [right|]; auto.
  Qed.
End R.

(* the next-hop rules *)
Theorem host_next_hop_spec i gw d :
  (on_link i d = true -> host_next_hop i gw d = Some d) /\ (on_link i d = false -> host_next_hop i gw d = gw).
Proof. unfold host_next_hop. destruct (on_link i d); split; intros; auto; discriminate. Qed.

Theorem router_next_hop_spec ifs routes dflt d :
  ((exists i, In i ifs /\ on_link i d = true) -> router_next_hop ifs routes dflt d = Some d) /\
  ((forall i, In i ifs -> on_link i d = false) ->
     router_next_hop ifs routes dflt d = match find_best routes dflt d with Some r => Some (r_hop r) | None => None end).
Proof.
  unfold router_next_hop. split.
  - intros (i & Hi & Ho). replace (existsb (fun i => on_link i d) ifs) with true; auto.
    symmetry. apply existsb_exists. eauto.
  - intros H. replace (existsb (fun i => on_link i d) ifs) with false; auto.
    symmetry. apply not_true_is_false. intro C. apply existsb_exists in C. destruct C as (i & Hi & Ho). rewrite H in Ho; auto; discriminate.
Qed.
