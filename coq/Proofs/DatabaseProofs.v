(* Proofs about the database model (C17). *)
From Coq Require Import ZArith List Bool Lia.
Import ListNotations.
From PV Require Import Base.Cases Model.Software Model.Database.
Open Scope Z_scope.

Lemma mem_In x l : mem x l = true <-> In x l.
Proof.
  unfold mem. rewrite existsb_exists. split.
  - intros (y & Hy & E). apply Z.eqb_eq in E. subst; auto.
  - intros H. exists x. split; auto. apply Z.eqb_refl.
Qed.

(* ---- connect ---------------------------------------------------------------------------------------------------------- *)
Definition connect_allowed (d : db) (pw : option Z) : Prop :=
  node_on d = true /\ running d = true /\
  (hlth d = GOOD \/ hlth d = FIXING \/ hlth d = COMPROMISED) /\
  opt_eq (d_pw d) pw = true /\ Z.of_nat (length (d_conns d)) < d_max d.

Lemma health_eqb_eq a b : health_eqb a b = true <-> a = b.
Proof. destruct a, b; cbn; split; intros H; try reflexivity; try discriminate. Qed.

Theorem connect_spec d pw : let '(d', r) := dstep d (Connect pw) in
  (r = 200 <-> connect_allowed d pw) /\
  (r = 200 -> d_conns d' = d_conns d ++ [d_next d] /\ d_next d' = d_next d + 1 /\ d_file d' = d_file d /\ d_st d' = d_st d) /\
  (r <> 200 -> d_conns d' = d_conns d /\ d_next d' = d_next d /\ d_file d' = d_file d).
Proof.
  unfold dstep, connect_allowed, can_act. destruct (node_on d) eqn:On; cbn [andb].
  2:{ split; [split; [discriminate|intros (H & _); discriminate]|]. split; [discriminate|auto]. }
  destruct (running d) eqn:Ru.
  2:{ split; [split; [discriminate|intros (_ & H & _); discriminate]|]. split; [discriminate|auto]. }
  unfold process_connect.
  destruct (health_eqb (hlth d) GOOD || health_eqb (hlth d) FIXING || health_eqb (hlth d) COMPROMISED) eqn:Hh.
  2:{ split; [split; [discriminate|]|split; [discriminate|auto]]. intros (_ & _ & H & _).
      apply orb_false_iff in Hh. destruct Hh as [Hh H3]. apply orb_false_iff in Hh. destruct Hh as [H1 H2].
      destruct H as [H|[H|H]]; rewrite H in *; discriminate. }
  destruct (opt_eq (d_pw d) pw) eqn:Pw.
  2:{ split; [split; [discriminate|intros (_ & _ & _ & H & _); discriminate]|split; [discriminate|auto]]. }
  destruct (Z.of_nat (length (d_conns d)) <? d_max d) eqn:Cap.
  - apply Z.ltb_lt in Cap. split; [|split; [intros _; cbn; auto|congruence]]. split; auto. intros _. repeat split; auto.
    apply orb_true_iff in Hh. destruct Hh as [Hh|Hh]; [apply orb_true_iff in Hh; destruct Hh as [Hh|Hh]|]; apply health_eqb_eq in Hh; auto.
  - apply Z.ltb_ge in Cap. split; [split; [discriminate|intros (_ & _ & _ & _ & H); lia]|split; [discriminate|]]. intros _. cbn. auto.
Qed.

(* ---- the connection table: issued ids are fresh, live ids are distinct, capacity is respected ------------------------------- *)
Definition Inv (d : db) : Prop :=
  NoDup (d_conns d) /\ (forall c, In c (d_conns d) -> 0 <= c < d_next d) /\ 0 <= d_next d /\ Z.of_nat (length (d_conns d)) <= d_max d.

Lemma restore_conns d : d_conns (fst (restore d)) = d_conns d /\ d_next (fst (restore d)) = d_next d /\ d_max (fst (restore d)) = d_max d.
Proof. unfold restore. destruct (_ && _ && _ && _ && _); cbn; auto. Qed.

Lemma filter_length_le {A} (f : A -> bool) l : (length (filter f l) <= length l)%nat.
Proof. induction l as [|a l IH]; cbn; [lia|]. destruct (f a); cbn; lia. Qed.

Lemma dstep_conns d o : let d' := fst (dstep d o) in
  d_max d' = d_max d /\
  ((d_conns d' = d_conns d /\ d_next d' = d_next d) \/
   (d_conns d' = d_conns d ++ [d_next d] /\ d_next d' = d_next d + 1 /\ Z.of_nat (length (d_conns d)) < d_max d) \/
   (exists cid, d_conns d' = filter (fun c => negb (c =? cid)) (d_conns d) /\ d_next d' = d_next d)).
Proof.
  destruct o as [pw|cid q|cid own| | | |u|so]; cbn [dstep].
  - destruct (can_act d); cbn; auto. unfold process_connect.
    destruct (_ || _ || _); cbn; auto. destruct (opt_eq _ _); cbn; auto.
    destruct (Z.of_nat (length (d_conns d)) <? d_max d) eqn:C; cbn; auto. apply Z.ltb_lt in C. split; auto.
  - destruct (can_act d); cbn; auto. destruct (mem cid (d_conns d)); cbn; auto. unfold process_sql.
    destruct (d_file d =? 0); cbn; auto. destruct (negb _); cbn; auto. destruct q; cbn; auto.
    destruct (d_file d =? 3); cbn; auto. destruct (d_file d =? 1); cbn; auto.
  - destruct (can_act d); cbn; auto. destruct (mem cid (d_conns d) && own); cbn; auto. split; auto. right; right. eauto.
  - unfold backup. destruct (_ && _ && _ && _ && _); cbn; auto.
  - destruct (restore_conns d) as (A & B & C). auto.
  - cbn; auto.
  - cbn; auto.
  - destruct (svc_step (d_st d) so) as [st r].
    match goal with |- context [if ?c then (fst (restore _), _) else _] => destruct c end; cbn [fst].
    + destruct (restore_conns (set_st d st)) as (A & B & C). cbn in *. rewrite A, B, C. auto.
    + cbn; auto.
Qed.

Lemma NoDup_snoc {A} (l : list A) x : NoDup l -> ~ In x l -> NoDup (l ++ [x]).
Proof.
  induction l as [|a l IH]; cbn; intros Nd Hn.
  - repeat constructor; auto.
  - inversion Nd; subst. constructor.
    + intros Hin. apply in_app_or in Hin. destruct Hin as [Hin|[Hin|[]]]; auto.
    + apply IH; auto.
Qed.

Theorem step_inv d o : Inv d -> Inv (fst (dstep d o)).
Proof.
  intros (Nd & Rg & N0 & Cap). pose proof (dstep_conns d o) as H. cbn zeta in H. destruct H as (Mx & [(C & N)|[(C & N & L)|(cid & C & N)]]);
    unfold Inv; rewrite C, N, Mx.
  - auto.
  - repeat split; try lia.
    + apply NoDup_snoc; auto. intros Hin. apply Rg in Hin. lia.
    + apply in_app_or in H. destruct H as [H|[H|[]]]; [apply Rg in H; lia|lia].
    + apply in_app_or in H. destruct H as [H|[H|[]]]; [apply Rg in H; lia|lia].
    + rewrite app_length. cbn. lia.
  - repeat split; auto.
    + apply NoDup_filter. exact Nd.
    + apply filter_In in H. destruct H as [H _]. apply Rg in H. lia.
    + apply filter_In in H. destruct H as [H _]. apply Rg in H. lia.
    + pose proof (filter_length_le (fun c => negb (c =? cid)) (d_conns d)). lia.
Qed.

Theorem inv_reachable d ops : Inv d -> Inv (drun d ops).
Proof. revert d; induction ops as [|o t IH]; intros d H; cbn [drun]; auto. apply IH, step_inv, H. Qed.

Example inv_init : Inv (mkdb 1 1 1 2 2 (Some 7) 3 1 1).
Proof. unfold Inv; cbn. split; [constructor|]. split; [intros c []|]. lia. Qed.

(* a connection the server has closed (or never issued, below the counter) is never live again *)
Theorem closed_stays_closed : forall ops d c, Inv d -> ~ In c (d_conns d) -> c < d_next d -> ~ In c (d_conns (drun d ops)).
Proof.
  induction ops as [|o t IH]; intros d c HI Hn Hc; cbn [drun]; auto.
  apply IH; [apply step_inv; auto| |].
  - pose proof (dstep_conns d o) as H. cbn zeta in H. destruct H as (_ & [(C & N)|[(C & N & L)|(cid & C & N)]]); rewrite C.
    + auto.
    + intros Hin. apply in_app_or in Hin. destruct Hin as [Hin|[Hin|[]]]; [auto|lia].
    + intros Hin. apply filter_In in Hin. tauto.
  - pose proof (dstep_conns d o) as H. cbn zeta in H. destruct H as (_ & [(C & N)|[(C & N & L)|(cid & C & N)]]); rewrite N; lia.
Qed.

(* ---- queries ------------------------------------------------------------------------------------------------------------ *)
Theorem query_spec d cid q : let '(d', r) := dstep d (Query cid q) in
  (r = 200 -> In cid (d_conns d) /\ node_on d = true /\ running d = true /\ hlth d = GOOD /\ d_file d <> 0 /\
              d_conns d' = d_conns d /\ d_st d' = d_st d /\
              match q with
              | DELETE => d_file d' = 2
              | ENCRYPT => d_file d' = 3
              | SELECT => d_file d' = d_file d /\ (d_file d = 1 \/ d_file d = 3)
              | UNKNOWN => False
              | _ => d_file d' = d_file d
              end) /\
  (r <> 200 -> d' = d).
Proof.
  unfold dstep, can_act. destruct (node_on d) eqn:On; cbn [andb]; [|split; [discriminate|auto]].
  destruct (running d) eqn:Ru; [|split; [discriminate|auto]].
  destruct (mem cid (d_conns d)) eqn:M; [|split; [discriminate|auto]]. apply mem_In in M.
  unfold process_sql. destruct (d_file d =? 0) eqn:F0; [split; [discriminate|auto]|]. apply Z.eqb_neq in F0.
  destruct (health_eqb (hlth d) GOOD) eqn:H; cbn [negb]; [|split; [discriminate|auto]]. apply health_eqb_eq in H.
  destruct q; cbn.
  - destruct (d_file d =? 3) eqn:F3; [apply Z.eqb_eq in F3; split; [intros _; repeat split; auto|congruence]|].
    destruct (d_file d =? 1) eqn:F1; [apply Z.eqb_eq in F1; split; [intros _; repeat split; auto|congruence]|]. split; [discriminate|auto].
  - split; [intros _; repeat split; auto|congruence].
  - split; [intros _; repeat split; auto|congruence].
  - split; [intros _; repeat split; auto|congruence].
  - split; [intros _; repeat split; auto|congruence].
  - split; [discriminate|auto].
Qed.

Theorem compromised_reads_fail d cid : d_file d = 2 -> snd (dstep d (Query cid SELECT)) <> 200.
Proof.
  intros F. pose proof (query_spec d cid SELECT) as H. destruct (dstep d (Query cid SELECT)) as [d' r]. cbn [snd].
  intros E. destruct H as [H _]. destruct (H E) as (_ & _ & _ & _ & _ & _ & _ & _ & [G|G]); lia.
Qed.

(* ---- backup and restore ------------------------------------------------------------------------------------------------- *)
Theorem backup_spec d : let '(d', r) := dstep d Backup in
  (r = 1 -> can_act d = true /\ d_cfg d = true /\ d_bk_up d = true /\ d_file d <> 0 /\ d_backup d' = d_file d /\ d_file d' = d_file d /\ d_conns d' = d_conns d) /\
  (r <> 1 -> d' = d).
Proof.
  cbn [dstep]. unfold backup. destruct (can_act d); cbn [andb]; [|split; [discriminate|auto]].
  destruct (d_cfg d); cbn [andb]; [|split; [discriminate|auto]].
  destruct (d_file d =? 0) eqn:F; cbn [negb andb]; [split; [discriminate|auto]|]. apply Z.eqb_neq in F.
  destruct (d_bk_up d); cbn [andb]; [|split; [discriminate|auto]].
  destruct (d_backup d =? 0); [|split; [discriminate|auto]]. split; [intros _; repeat split; auto|congruence].
Qed.

Theorem restore_spec d : let '(d', r) := dstep d Restore in
  (r = 1 -> can_act d = true /\ d_cfg d = true /\ d_bk_up d = true /\ d_backup d <> 0 /\
            d_file d' = d_backup d /\ hlth d' = GOOD /\ d_conns d' = d_conns d) /\
  (r <> 1 -> d' = d).
Proof.
  cbn [dstep]. unfold restore. destruct (can_act d); cbn [andb]; [|split; [discriminate|auto]].
  destruct (d_cfg d); cbn [andb]; [|split; [discriminate|auto]].
  destruct (d_bk_up d); cbn [andb]; [|split; [discriminate|auto]].
  destruct (d_backup d =? 0) eqn:F; cbn [negb andb]; [split; [discriminate|auto]|]. apply Z.eqb_neq in F.
  destruct (d_ever d); [|split; [discriminate|auto]]. split; [intros _; repeat split; auto|congruence].
Qed.

(* a backup taken while the data was healthy, restored, returns the file to good health *)
Theorem good_backup_restores_good d1 d2 :
  d_file d1 = 1 -> snd (dstep d1 Backup) = 1 ->
  d_backup d2 = d_backup (fst (dstep d1 Backup)) -> snd (dstep d2 Restore) = 1 ->
  d_file (fst (dstep d2 Restore)) = 1 /\ hlth (fst (dstep d2 Restore)) = GOOD.
Proof.
  intros F B E R. pose proof (backup_spec d1) as Hb. pose proof (restore_spec d2) as Hr.
  destruct (dstep d1 Backup) as [d1' r1]. destruct (dstep d2 Restore) as [d2' r2]. cbn [fst snd] in *.
  destruct Hb as [Hb _]. destruct (Hb B) as (_ & _ & _ & _ & Bk & _). destruct Hr as [Hr _]. destruct (Hr R) as (_ & _ & _ & _ & Fl & Hh & _).
  split; [congruence|auto].
Qed.

(* ---- while the service cannot act (stopped / paused / restarting / node off) nothing is served and nothing changes ----------- *)
Theorem unavailable_serves_nothing d : can_act d = false ->
  (forall pw, dstep d (Connect pw) = (d, -1)) /\ (forall c q, dstep d (Query c q) = (d, -1)) /\
  (forall c o, dstep d (Disconnect c o) = (d, -1)) /\ dstep d Backup = (d, 0) /\ dstep d Restore = (d, 0).
Proof.
  intros H. cbn [dstep]. unfold backup, restore. rewrite H. cbn [andb]. repeat split; auto.
Qed.

(* the stored file's health changes only by a served DELETE / ENCRYPT, a restore (explicit, or at the end of a fix), or the
   deletion of the file *)
Theorem file_changes_only_by d o : d_file (fst (dstep d o)) <> d_file d ->
  match o with
  | Query c DELETE | Query c ENCRYPT => snd (dstep d o) = 200
  | Restore => snd (dstep d o) = 1
  | FileDelete => True
  | Sw Tick => hlth d = FIXING
  | _ => False
  end.
Proof.
  destruct o as [pw|cid q|cid own| | | |u|so]; intros H.
  - pose proof (connect_spec d pw) as S. destruct (dstep d (Connect pw)) as [d' r]. cbn [fst] in H.
    destruct S as (_ & S1 & S2). destruct (Z.eq_dec r 200) as [E|E]; [apply S1 in E|apply S2 in E]; tauto.
  - pose proof (query_spec d cid q) as S. destruct (dstep d (Query cid q)) as [d' r]. cbn [fst snd] in *.
    destruct S as (S1 & S2). destruct (Z.eq_dec r 200) as [E|E].
    + destruct q; auto; destruct (S1 E) as (_ & _ & _ & _ & _ & _ & _ & G); try tauto.
    + rewrite (S2 E) in H. tauto.
  - cbn [dstep] in H. destruct (can_act d); cbn in H; try tauto. destruct (mem cid (d_conns d) && own); cbn in H; tauto.
  - pose proof (backup_spec d) as S. destruct (dstep d Backup) as [d' r]. cbn [fst] in H.
    destruct S as (S1 & S2). destruct (Z.eq_dec r 1) as [E|E]; [destruct (S1 E) as (_ & _ & _ & _ & _ & G & _); tauto|rewrite (S2 E) in H; tauto].
  - pose proof (restore_spec d) as S. destruct (dstep d Restore) as [d' r]. cbn [fst snd] in *.
    destruct S as (S1 & S2). destruct (Z.eq_dec r 1) as [E|E]; auto. rewrite (S2 E) in H. tauto.
  - exact I.
  - cbn in H. tauto.
  - cbn [dstep] in H. destruct (health_eqb (hlth d) FIXING) eqn:Fx.
    + apply health_eqb_eq in Fx. destruct so; auto; destruct (svc_step (d_st d) _) as [st r]; cbn [andb] in H;
        try (rewrite andb_false_r in H; cbn in H; tauto).
    + cbn [andb] in H. destruct (svc_step (d_st d) so) as [st r]. cbn in H. tauto.
Qed.
