From Coq Require Import List Arith Bool Lia Relations ZArith QArith.
Import ListNotations.
From PV Require Import Model.Reward.

(* ---- spec ---- *)
Definition edge (g : graph) (a b : nat) : Prop := In b (succs g a).
Definition path (g : graph) := clos_trans nat (edge g).
Definition acyclic (g : graph) : Prop := forall x, ~ path g x x.
(* every node of the stack has all its successors strictly earlier *)
Definition ordered (g : graph) (stack : list nat) : Prop :=
  forall pre x post, stack = pre ++ x :: post -> forall y, edge g x y -> In y pre.

Lemma mem_In n l : mem n l = true <-> In n l.
Proof. unfold mem. rewrite existsb_exists. split; [intros (x & H & E); apply Nat.eqb_eq in E; subst; auto|intro; exists n; split; auto; apply Nat.eqb_refl]. Qed.

Record Inv (g : graph) (gray : list nat) (s : st) : Prop := {
  inv_cover : forall x, In x (fst s) -> In x (snd s) \/ In x gray;
  inv_sub   : forall x, In x (snd s) -> In x (fst s);
  inv_gray  : forall x, In x gray -> In x (fst s);
  inv_ord   : ordered g (snd s) }.

Lemma ordered_app_one g stack n :
  ordered g stack -> (forall y, edge g n y -> In y stack) -> ordered g (stack ++ [n]).
Proof.
  intros Ho Hn pre x post E y Hy.
  destruct post as [|p post].
  - apply app_inj_tail in E. destruct E; subst. auto.
  - assert (exists post', post' ++ [n] = p :: post) as [post' Hp].
    { destruct (exists_last (l:=p :: post)) as (l' & a & El); [discriminate|].
      rewrite El in E. rewrite app_comm_cons, app_assoc in E. apply app_inj_tail in E. destruct E; subst. eauto. }
    rewrite <- Hp in E. rewrite app_comm_cons, app_assoc in E. apply app_inj_tail in E. destruct E as [E _].
    eapply Ho; eauto.
Qed.

(* the fold over successors, stated once for an arbitrary step function with the dfs contract *)
Section Fold.
  Variables (g : graph) (gray : list nat) (step : nat -> st -> option st).
  Variable ms_all : list nat.
  Hypothesis step_ok : forall m s s', In m ms_all -> Inv g gray s -> step m s = Some s' ->
      Inv g gray s' /\ In m (snd s') /\ (exists new, snd s' = snd s ++ new) /\ (forall x, In x (fst s) -> In x (fst s')).
  Lemma fold_ok : forall ms s s', incl ms ms_all -> Inv g gray s ->
      fold_left (fun acc m => match acc with None => None | Some s0 => step m s0 end) ms (Some s) = Some s' ->
      Inv g gray s' /\ (forall m, In m ms -> In m (snd s')) /\ (exists new, snd s' = snd s ++ new)
      /\ (forall x, In x (fst s) -> In x (fst s')).
  Proof.
    induction ms as [|m ms IH]; cbn [fold_left]; intros s s' Hincl HI H.
    - inversion H; subst. split; [auto|]. split; [intros ? []|]. split; [exists []; rewrite app_nil_r; auto|auto].
    - destruct (step m s) as [s1|] eqn:E.
      + destruct (step_ok m s s1) as (HI1 & Hm & [new1 Hn1] & Hv1); auto; [apply Hincl; left; auto|].
        destruct (IH s1 s') as (HI' & Hall & [new2 Hn2] & Hv2); auto; [intros ? ?; apply Hincl; right; auto|].
        split; [auto|]. split; [|split; [|auto]].
        * intros m' [<-|Hin]; auto. rewrite Hn2. apply in_or_app; auto.
        * exists (new1 ++ new2). rewrite Hn2, Hn1, app_assoc; auto.
      + exfalso. clear -H. induction ms; cbn in H; [discriminate|auto].
  Qed.
End Fold.

Theorem dfs_ok g : acyclic g -> forall fuel n gray s s',
  Inv g gray s -> (forall x, In x gray -> path g x n) -> dfs fuel g n s = Some s' ->
  Inv g gray s' /\ In n (snd s') /\ (exists new, snd s' = snd s ++ new) /\ (forall x, In x (fst s) -> In x (fst s')).
Proof.
  intros Hac. induction fuel as [|f IH]; intros n gray [vis stack] s' HI Hg H; [discriminate|].
  cbn [dfs] in H. destruct (mem n vis) eqn:Em.
  - inversion H; subst. apply mem_In in Em. split; [auto|]. split; [|split; [exists []; rewrite app_nil_r; auto|auto]].
    destruct (inv_cover _ _ _ HI n Em) as [|Hgr]; auto. exfalso. apply (Hac n). auto.
  - assert (Hnv : ~ In n vis) by (intro C; apply mem_In in C; congruence).
    match type of H with match ?F with _ => _ end = _ => destruct F as [[vis1 stack1]|] eqn:EF end; [|discriminate].
    inversion H; subst; clear H.
    assert (HI0 : Inv g (n :: gray) (n :: vis, stack)).
    { destruct HI as [c s0 gr o]; cbn in *. constructor; cbn.
      - intros x [->|Hx]; [right; left; auto|]. destruct (c x Hx); [left|right; right]; auto.
      - intros x Hx; right; auto.
      - intros x [->|Hx]; [left; auto|right; auto].
      - auto. }
    destruct (fold_ok g (n :: gray) (dfs f g) (succs g n)) with (ms := succs g n) (s := (n :: vis, stack)) (s' := (vis1, stack1))
      as (HI1 & Hall & [new Hnew] & Hv); auto.
    { intros m s0 s1 Hm HIs Hd. eapply IH; eauto.
      intros x [->|Hx]; [apply t_step; exact Hm|]. eapply t_trans; [apply Hg; auto|apply t_step; exact Hm]. }
    { apply incl_refl. }
    cbn in *. destruct HI1 as [c1 s1 gr1 o1]; cbn in *.
    split; [|split; [|split]]; cbn.
    + constructor; cbn.
      * intros x Hx. destruct (c1 x Hx) as [|[<-|]]; [left; apply in_or_app; auto|left; apply in_or_app; right; left; auto|auto].
      * intros x Hx. apply in_app_or in Hx. destruct Hx as [|[<-|[]]]; [auto|apply Hv; left; auto].
      * intros x Hx. apply gr1; right; auto.
      * apply ordered_app_one; auto.
    + apply in_or_app; right; left; auto.
    + exists (new ++ [n]). rewrite Hnew, app_assoc; auto.
    + intros x Hx. apply Hv; right; auto.
Qed.

Lemma fold_left_map' {A B C} (F : A -> C -> A) (f : B -> C) l a :
  fold_left F (map f l) a = fold_left (fun acc e => F acc (f e)) l a.
Proof. revert a; induction l as [|e l IH]; cbn; auto. Qed.

(* the driver: every key of the graph ends up in the stack, and the stack is ordered *)
Theorem topo_ok g fuel s : acyclic g -> topo fuel g = Some s ->
  ordered g (snd s) /\ forall a, In a (map fst g) -> In a (snd s).
Proof.
  intros Hac H. unfold topo in H.
  destruct (fold_ok g [] (fun n s => dfs fuel g n s) (map fst g)) with (ms := map fst g) (s := (@nil nat, @nil nat)) (s' := s)
    as (HI & Hall & _ & _).
  - intros m s0 s1 _ HI0 Hd. eapply dfs_ok; eauto. intros x [].
  - apply incl_refl.
  - constructor; cbn; [intros ? []|intros ? []|intros ? []|]. intros pre0 x0 post0 E0. destruct pre0; cbn in E0; discriminate.
  - rewrite <- H. apply fold_left_map'.
  - split; [apply (inv_ord _ _ _ HI)|auto].
Qed.

(* dependencies-first, as update_agents needs it *)
Corollary deps_first g fuel vis stack : acyclic g -> topo fuel g = Some (vis, stack) ->
  forall a b, In a (map fst g) -> edge g a b ->
  exists pre post, stack = pre ++ a :: post /\ In b pre.
Proof.
  intros Hac H a b Ha Hab. destruct (topo_ok g fuel _ Hac H) as [Ho Hall]. cbn in *.
  destruct (in_split _ _ (Hall a Ha)) as (pre & post & E). exists pre, post. split; auto. eapply Ho; eauto.
Qed.

(* ---- evaluation in a dependencies-first order gives every agent the weighted sum with SAME-STEP values -------------- *)
Lemma get_set_same r a v : get (set r a v) a == v.
Proof. unfold set; cbn. rewrite Nat.eqb_refl. reflexivity. Qed.
Lemma get_set_other r a b v : a <> b -> get (set r a v) b = get r b.
Proof. intros H. unfold set; cbn. destruct (Nat.eqb b a) eqn:E; auto. apply Nat.eqb_eq in E. congruence. Qed.

(* two reward tables that agree on the agents a component list names give the same evaluation *)
Lemma fold_shares_ext r r' l : (forall t w, In (t, w) l -> get r t == get r' t) -> forall q q', q == q' ->
  fold_left (fun acc sh => acc + snd sh * get r (fst sh)) l q == fold_left (fun acc sh => acc + snd sh * get r' (fst sh)) l q'.
Proof.
  induction l as [|[t w] l IH]; cbn; intros H q q' Hq; auto.
  apply IH.
  - intros t' w' Hin. apply (H t' w'). right; auto.
  - rewrite Hq, (H t w) by (left; auto). reflexivity.
Qed.
Lemma eval_one_ext r r' x : (forall t w, In (t, w) (a_shares x) -> get r t == get r' t) -> eval_one r x == eval_one r' x.
Proof. intros H. unfold eval_one. apply fold_shares_ext; auto. reflexivity. Qed.

Definition final_ok (ags : list agent) (r : rewards) (a : nat) : Prop :=
  forall x, find_agent ags a = Some x -> get r a == eval_one r x.

(* processing the agents of [order]: afterwards every processed agent's reward satisfies its equation w.r.t. the final
   table, provided each agent's shared-reward targets were processed earlier and no agent is processed twice *)
Theorem eval_order_correct ags : forall order r0,
  NoDup order ->
  (forall pre a post x, order = pre ++ a :: post -> find_agent ags a = Some x -> forall t w, In (t, w) (a_shares x) -> In t pre) ->
  forall a, In a order -> final_ok ags (eval_order ags order r0) a.
Proof.
  unfold eval_order. intros order. induction order as [|a order IH] using rev_ind; intros r0 Hnd Hdeps b Hb; [destruct Hb|].
  rewrite fold_left_app. cbn [fold_left].
  apply NoDup_remove in Hnd. rewrite app_nil_r in Hnd. destruct Hnd as [Hnd Hna].
  set (r1 := fold_left (fun r a0 => match find_agent ags a0 with Some x => set r a0 (eval_one r x) | None => r end) order r0).
  assert (IH' : forall c, In c order -> final_ok ags r1 c).
  { apply IH; auto. intros pre c post x E Hf t w Hin. eapply (Hdeps pre c (post ++ [a]) x); eauto. rewrite E, <- app_assoc. reflexivity. }
  assert (Hd : forall x, find_agent ags a = Some x -> forall t w, In (t, w) (a_shares x) -> In t order).
  { intros x Hf t w Hin. eapply (Hdeps order a [] x); eauto. }
  apply in_app_or in Hb. destruct Hb as [Hb|[<-|[]]].
  - (* an earlier agent: its value and its targets' values are untouched by processing a *)
    intros x Hf. destruct (find_agent ags a) as [xa|] eqn:Fa; [|apply IH'; auto].
    assert (Hne : a <> b) by (intro; subst; contradiction).
    rewrite get_set_other by auto. rewrite (IH' b Hb x Hf). apply eval_one_ext.
    intros t w Hin. destruct (Nat.eq_dec a t) as [->|Hn]; [|rewrite get_set_other; auto; reflexivity].
    (* b names a, so a would have to be earlier than b, but a is last and not in order *)
    exfalso. apply Hna.
    destruct (in_split _ _ Hb) as (pre & post & E).
    assert (In t pre) by (eapply (Hdeps pre b (post ++ [t]) x); eauto; rewrite E, <- app_assoc; reflexivity).
    rewrite E. apply in_or_app; auto.
  - intros x Hf. rewrite Hf. rewrite get_set_same. apply eval_one_ext.
    intros t w Hin. assert (Ht : In t order) by (eapply Hd; eauto).
    assert (Hne : a <> t) by (intro; subst; contradiction). rewrite get_set_other; auto. reflexivity.
Qed.

(* the solution of the sharing equations is unique: two evaluations in (possibly different) dependencies-first orders
   over the same agents give every agent the same reward -- independence of the declaration order *)
Theorem rewards_order_independent ags order r r' :
  (forall pre a post x, order = pre ++ a :: post -> find_agent ags a = Some x -> forall t w, In (t, w) (a_shares x) -> In t pre) ->
  (forall a, In a order -> exists x, find_agent ags a = Some x) ->
  (forall a, In a order -> final_ok ags r a) -> (forall a, In a order -> final_ok ags r' a) ->
  forall a, In a order -> get r a == get r' a.
Proof.
  intros Hdeps Hex H1 H2.
  assert (G : forall n pre post, order = pre ++ post -> length pre = n -> forall a, In a pre -> get r a == get r' a).
  { induction n as [|n IHn]; intros pre post E L a Ha; [destruct pre; [destruct Ha|discriminate]|].
    destruct (exists_last (l:=pre)) as (pre' & b & Ep); [intro; subst; discriminate|]. subst pre.
    rewrite app_length in L. cbn in L.
    assert (IH1 : forall c, In c pre' -> get r c == get r' c).
    { intros c Hc. apply (IHn pre' (b :: post)); auto; [rewrite E, <- app_assoc; reflexivity|lia]. }
    apply in_app_or in Ha. destruct Ha as [Ha|[<-|[]]]; auto.
    assert (Hb : In b order) by (rewrite E; apply in_or_app; left; apply in_or_app; right; left; auto).
    destruct (Hex b Hb) as [x Hf]. rewrite (H1 b Hb x Hf), (H2 b Hb x Hf).
    apply eval_one_ext. intros t w Hin. apply IH1. eapply (Hdeps pre' b post x); eauto. rewrite E, <- app_assoc. reflexivity. }
  intros a Ha. apply (G (length order) order []); auto. rewrite app_nil_r; auto.
Qed.

(* ---- sticky / non-sticky components -------------------------------------------------------------------------------- *)
Theorem sticky_holds_until_next_event prev : sticky_step true prev None = prev.
Proof. reflexivity. Qed.
Theorem non_sticky_returns_to_zero prev : sticky_step false prev None = 0.
Proof. reflexivity. Qed.
Theorem event_sets_value sticky prev b : sticky_step sticky prev (Some b) = if b then 1 else -1.
Proof. destruct b; reflexivity. Qed.

(* an agent's episode total is the sum of its step rewards *)
Fixpoint total (steps : list Q) (acc : Q) : Q := match steps with [] => acc | s :: t => total t (acc + s) end.
Theorem total_is_sum steps : forall acc, total steps acc == acc + fold_right Qplus 0 steps.
Proof.
  induction steps as [|s t IH]; cbn; intros acc; [ring|]. rewrite IH. ring.
Qed.
