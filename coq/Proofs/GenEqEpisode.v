(* Gen = Model: PrimaiteGame.calculate_truncated translated from the current source is the model's `truncated`. *)
From Coq Require Import ZArith Bool.
From PV Require Import Model.Episode Gen.GenEpisode.
Open Scope Z_scope.
Theorem gen_calculate_truncated : forall e, GenEpisode.calculate_truncated (e_tick e) (e_max e) = truncated e.
Proof. intros e. unfold GenEpisode.calculate_truncated, truncated. cbn zeta. rewrite Z.geb_leb. destruct (e_max e <=? e_tick e); reflexivity. Qed.
