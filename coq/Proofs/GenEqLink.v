(* Gen = Model: Link.can_transmit_frame translated from the current source is the admission test `up && (load + chk <=? bw)`
   that Model/Link.v's `run` applies (floats are modelled as exact numbers in a common unit). *)
From Coq Require Import ZArith Bool.
From PV Require Import Model.Link Gen.GenLink.
Open Scope Z_scope.
Theorem gen_can_transmit_frame : forall up size load bw, GenLink.can_transmit_frame up size load bw = up && (load + size <=? bw).
Proof. intros [|] size load bw; reflexivity. Qed.
(* the model's step admits exactly when that test holds *)
Theorem run_admits_by_that_test : forall bw chk add up ok kids st,
  GenLink.can_transmit_frame up chk (fst st) bw = false -> run bw (Tx chk add up ok kids) st = st.
Proof.
  intros bw chk add up ok kids [load carried] H. rewrite gen_can_transmit_frame in H. cbn [fst] in H. cbn [run]. rewrite H. reflexivity.
Qed.
