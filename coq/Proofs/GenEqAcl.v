(* Gen = Model: ip_matches_masked_range translated from the current source is the model's. *)
From Coq Require Import ZArith Bool.
From PV Require Import Model.Acl Gen.GenAcl.
Open Scope Z_scope.
Theorem gen_ip_matches_masked_range : forall ip base wc, GenAcl.ip_matches_masked_range ip base wc = Acl.ip_matches_masked_range ip base wc.
Proof. reflexivity. Qed.
