(* Gen = Model: Link.transmit_frame / pre_timestep / endpoint_down / endpoint_up translated from the current source by
   translator/py2coq_imp.py against Model/Link.v.  The receiver's receive_frame is a call into other objects that may send
   further frames over this very link: the translation records the load at the moment of that call (event 1) and continues
   with the load the nested transmissions left behind; the model's `run` folds exactly those nested transmissions. *)
From Coq Require Import ZArith Bool List Lia.
Import ListNotations.
From PV Require Import Model.Link Gen.GenLinkTx.
Open Scope Z_scope.

Theorem gen_transmit_frame : forall bw chk add up ok kids load carried ea eb sender,
  up && (load + chk <=? bw) = true ->
  let st2 := fold_left (fun s k => run bw k s) kids (load + add, carried) in
  Link_transmit_frame ea eb add load ok [] (fst st2) sender =
  (ok, (fst (run bw (Tx chk add up ok kids) (load, carried)), [(1, [load + add])])).
Proof.
  intros bw chk add up ok kids load carried ea eb sender H st2. subst st2.
  cbn [run]. rewrite H. unfold Link_transmit_frame.
  destruct (fold_left (fun s k => run bw k s) kids (load + add, carried)) as [l2 c2]. cbn [fst].
  destruct (ea =? sender), ok; reflexivity.
Qed.
(* the load is accounted before delivery: the nested transmissions start from load + frame size (the event's value) *)
Theorem gen_pre_timestep : forall load, Link_pre_timestep load = (tt, 0).
Proof. reflexivity. Qed.
(* an end interface going down or coming up does not touch the load (the functions assign nothing) *)
Theorem gen_endpoint_down_up : forall b, Link_endpoint_down b = tt /\ Link_endpoint_up b = tt.
Proof. intros b; split; reflexivity. Qed.

(* ---- transfer: the model's bound, stated about the function translated from the current source ------------------------ *)
From PV Require Import Proofs.LinkProofs.

(* an admitted frame, whatever transmissions nest inside its delivery (each well-formed): the load the translated
   transmit_frame leaves behind is within [0, bandwidth] *)
Theorem source_transmit_frame_keeps_load_within_bandwidth : forall bw chk add up ok kids load carried ea eb sender,
  wf (Tx chk add up ok kids) -> good bw (load, carried) -> up && (load + chk <=? bw) = true ->
  let st2 := fold_left (fun s k => run bw k s) kids (load + add, carried) in
  let load' := fst (snd (Link_transmit_frame ea eb add load ok [] (fst st2) sender)) in
  0 <= load' <= bw.
Proof.
  intros bw chk add up ok kids load carried ea eb sender W G A st2 load'.
  subst load' st2. rewrite (gen_transmit_frame bw chk add up ok kids load carried ea eb sender A). cbn [fst snd].
  destruct (run_step bw _ W (load, carried) G) as ((G1 & G2 & G3) & _ & _).
  destruct (run bw (Tx chk add up ok kids) (load, carried)) as [l c]. cbn [fst snd] in *. lia.
Qed.
