(* Gen = Model: ACLRule.permit_frame_check translated from the current source by translator/py2coq_imp.py returns
   (permitted, matches) exactly as Model/Acl.v's `matches` and the rule's action say.  Optional rule fields are options;
   protocol names, addresses and ports are integers; the frame's ports are those of its TCP header, else its UDP header. *)
From Coq Require Import ZArith Bool Lia.
From PV Require Import Model.Acl Gen.GenAcl Gen.GenAclRule.
Open Scope Z_scope.

Definition frame_ports (tcp udp : bool) (t u : Z) : option Z := if tcp then Some t else if udp then Some u else None.

Theorem gen_permit_frame_check : forall r proto src dst tcp tsp tdp udp usp udp_dp,
  let p := {| p_proto := proto; p_src := src; p_dst := dst; p_sport := frame_ports tcp udp tsp usp; p_dport := frame_ports tcp udp tdp udp_dp |} in
  ACLRule_permit_frame_check (r_proto r) proto (r_src r) (r_srcw r) src (r_dst r) (r_dstw r) dst tcp tsp tdp (r_sport r) (r_dport r)
                             (action_to_Z (r_action r)) udp usp udp_dp
  = (permitted_b (r_action r) && matches r p, matches r p).
Proof.
  intros [a pr s sw d dw sp dp c] proto src dst tcp tsp tdp udp usp udp_dp.
  unfold ACLRule_permit_frame_check, matches, ip_field, port_field, opt_eqb, frame_ports, GenAcl.ip_matches_masked_range, Acl.ip_matches_masked_range.
  cbn [r_proto r_src r_srcw r_dst r_dstw r_sport r_dport r_action p_proto p_src p_dst p_sport p_dport].
  destruct pr as [pr|], s as [s|], sw as [sw|], d as [d|], dw as [dw|], sp as [sp|], dp as [dp|], tcp, udp, a; cbn [action_to_Z permitted_b Z.eqb Pos.eqb andb];
    first [reflexivity | match goal with |- (if ?c then _ else _) = _ => destruct c end; reflexivity].
Qed.

(* ---- transfer ---------------------------------------------------------------------------------------------------------- *)
From PV Require Import Proofs.AclProofs.

(* the translated permit_frame_check reports a match exactly when every specified field of the rule agrees with the packet
   (addresses under their wildcard bit by bit), and permits exactly when it matches and the rule's action is PERMIT *)
Theorem source_permit_frame_check_spec : forall r proto src dst tcp tsp tdp udp usp udp_dp,
  let p := {| p_proto := proto; p_src := src; p_dst := dst; p_sport := frame_ports tcp udp tsp usp; p_dport := frame_ports tcp udp tdp udp_dp |} in
  let res := ACLRule_permit_frame_check (r_proto r) proto (r_src r) (r_srcw r) src (r_dst r) (r_dstw r) dst tcp tsp tdp (r_sport r) (r_dport r)
                                        (action_to_Z (r_action r)) udp usp udp_dp in
  (snd res = true <-> rule_matches r p) /\ (fst res = true <-> rule_matches r p /\ r_action r = PERMIT).
Proof.
  intros r proto src dst tcp tsp tdp udp usp udp_dp p res. subst res. rewrite gen_permit_frame_check. fold p. cbn [fst snd].
  split; [apply matches_spec|]. rewrite Bool.andb_true_iff, matches_spec. destruct (r_action r); cbn; split; intros [A B]; split; auto; discriminate.
Qed.
