From Coq Require Import ZArith List Bool Lia.
Import ListNotations.
From PV Require Import Model.Power.
Open Scope Z_scope.

Definition all_disabled (l : list nic) : Prop := Forall (fun i => enabled i = false) l.
Definition Inv1 (n : node) : Prop := st n <> ON -> all_disabled (nics n).
Definition no_running (n : node) : Prop :=
  Forall (fun v => v <> 1 /\ v <> 3) (svcs n) /\ Forall (fun v => v <> 1) (apps n).
Definition Inv2 (n : node) : Prop := st n = OFF -> no_running n.

Lemma ps_eqb_eq a b : ps_eqb a b = true <-> a = b.
Proof. destruct a, b; cbn; split; congruence. Qed.
Lemma ps_eqb_neq a b : ps_eqb a b = false <-> a <> b.
Proof. destruct a, b; cbn; split; congruence. Qed.

Lemma disabled_map_disable l : all_disabled (map nic_disable l).
Proof. unfold all_disabled. induction l; cbn; constructor; auto. Qed.

Lemma enable_not_on s l : s <> ON -> map (nic_enable s) l = l.
Proof.
  intros H. apply ps_eqb_neq in H. induction l as [|i l IH]; cbn; [reflexivity|]. rewrite IH. f_equal.
  unfold nic_enable. rewrite H. cbn. destruct (enabled i); reflexivity.
Qed.

Lemma stop_not_running l : Forall (fun v => v <> 1 /\ v <> 3) (map svc_stop l).
Proof.
  induction l as [|v l IH]; cbn; constructor; auto. unfold svc_stop.
  destruct (v =? 1) eqn:E1; destruct (v =? 3) eqn:E3; cbn; try lia;
  try (apply Z.eqb_neq in E1; apply Z.eqb_neq in E3; lia).
Qed.
Lemma close_not_running l : Forall (fun v => v <> 1) (map app_close l).
Proof.
  induction l as [|v l IH]; cbn; constructor; auto. unfold app_close.
  destruct (v =? 1) eqn:E1; try lia; try (apply Z.eqb_neq in E1; lia).
Qed.

(* ---- field projections of the primitives ---------------------------------------------------------- *)
Lemma power_on_spec c n :
  (up_d c <= 0 /\ st (power_on c n) = ON) \/
  (0 < up_d c /\ st n = OFF /\ power_on c n = set_up (set_st n BOOTING) (up_d c)) \/
  (0 < up_d c /\ st n <> OFF /\ power_on c n = n).
Proof.
  unfold power_on. destruct (up_d c <=? 0) eqn:E.
  - left. apply Z.leb_le in E. split; auto.
  - apply Z.leb_gt in E. destruct (ps_eqb (st n) OFF) eqn:F.
    + right; left. apply ps_eqb_eq in F. auto.
    + right; right. apply ps_eqb_neq in F. auto.
Qed.

Lemma inv1_power_on c n : Inv1 n -> Inv1 (power_on c n).
Proof.
  intros H. destruct (power_on_spec c n) as [[_ E]|[(_ & S & E)|(_ & S & E)]].
  - intros Hn; congruence.
  - rewrite E. intros _. cbn. apply H. congruence.
  - rewrite E. exact H.
Qed.

Lemma inv2_power_on c n : Inv2 n -> Inv2 (power_on c n).
Proof.
  intros H. destruct (power_on_spec c n) as [[_ E]|[(_ & S & E)|(_ & S & E)]].
  - intros Hn; congruence.
  - rewrite E. cbn. intros Hn; discriminate.
  - rewrite E. exact H.
Qed.

Lemma inv1_power_off c n : Inv1 n -> Inv1 (power_off c n).
Proof.
  intros H. unfold power_off. destruct (down_d c <=? 0).
  - cbn. destruct (resetting n).
    + apply inv1_power_on. intros _. cbn. apply disabled_map_disable.
    + intros _. cbn. apply disabled_map_disable.
  - destruct (ps_eqb (st n) ON); [|exact H]. intros _. cbn. apply disabled_map_disable.
Qed.

Lemma inv2_power_off c n : Inv2 n -> Inv2 (power_off c n).
Proof.
  intros H. unfold power_off. destruct (down_d c <=? 0).
  - cbn. destruct (resetting n).
    + apply inv2_power_on. intros _. split; cbn; [apply stop_not_running | apply close_not_running].
    + intros _. split; cbn; [apply stop_not_running | apply close_not_running].
  - destruct (ps_eqb (st n) ON) eqn:E; [|exact H]. intros Hn; cbn in Hn; discriminate.
Qed.

Lemma inv1_tick c n : Inv1 n -> Inv1 (tick c n).
Proof.
  intros H. unfold tick.
  set (n1 := if 0 <? up_cd n then set_up n (up_cd n - 1)
             else if ps_eqb (st n) BOOTING then start_up_actions (enable_all (set_st n ON)) else n).
  assert (H1 : Inv1 n1).
  { unfold n1. destruct (0 <? up_cd n); [exact H|]. destruct (ps_eqb (st n) BOOTING); [|exact H].
    intros Hn. cbn in Hn. congruence. }
  destruct (0 <? down_cd n1); [exact H1|].
  destruct (ps_eqb (st n1) SHUTTING_DOWN) eqn:E; [|exact H1].
  apply ps_eqb_eq in E. assert (D : all_disabled (nics n1)) by (apply H1; congruence).
  cbn. destruct (resetting n1).
  - apply inv1_power_on. intros _. exact D.
  - intros _. exact D.
Qed.

Lemma inv2_tick c n : Inv2 n -> Inv2 (tick c n).
Proof.
  intros H. unfold tick.
  set (n1 := if 0 <? up_cd n then set_up n (up_cd n - 1)
             else if ps_eqb (st n) BOOTING then start_up_actions (enable_all (set_st n ON)) else n).
  assert (H1 : Inv2 n1).
  { unfold n1. destruct (0 <? up_cd n); [exact H|]. destruct (ps_eqb (st n) BOOTING); [|exact H].
    intros Hn. cbn in Hn. congruence. }
  destruct (0 <? down_cd n1); [exact H1|].
  destruct (ps_eqb (st n1) SHUTTING_DOWN) eqn:E; [|exact H1].
  cbn. destruct (resetting n1).
  - apply inv2_power_on. intros _. split; cbn; [apply stop_not_running | apply close_not_running].
  - intros _. split; cbn; [apply stop_not_running | apply close_not_running].
Qed.

(* while the node is not ON every request other than start-up is refused and changes nothing;
   start-up is refused unless the node is OFF *)
Theorem not_on_requests_refused c n o : st n <> ON -> o <> Tick -> o <> Startup -> step c n o = n.
Proof.
  intros H Ht Hs. apply ps_eqb_neq in H. destruct o; try congruence; cbn; unfold is_on; rewrite H; reflexivity.
Qed.
Theorem startup_refused_unless_off c n : st n <> OFF -> step c n Startup = n.
Proof. intros H. apply ps_eqb_neq in H. cbn. rewrite H. reflexivity. Qed.

Lemma inv1_step c n o : Inv1 n -> Inv1 (step c n o).
Proof.
  intros H. destruct o; cbn [step].
  - destruct (is_on n); [apply inv1_power_off; auto|auto].
  - destruct (ps_eqb (st n) OFF); [apply inv1_power_on; auto|auto].
  - destruct (is_on n); [|auto]. unfold reset. apply inv1_power_off. intros Hn. cbn in *. auto.
  - apply inv1_tick; auto.
  - destruct (is_on n && _) eqn:E; [|auto]. apply andb_true_iff in E. destruct E as [E _]. apply ps_eqb_eq in E.
    intros Hn. cbn in Hn. congruence.
  - destruct (is_on n && _) eqn:E; [|auto]. apply andb_true_iff in E. destruct E as [E _]. apply ps_eqb_eq in E.
    intros Hn. cbn in Hn. congruence.
  - destruct (is_on n && _) eqn:E; [|auto]. apply andb_true_iff in E. destruct E as [E _]. apply ps_eqb_eq in E.
    intros Hn. cbn in Hn. congruence.
  - destruct (is_on n && _) eqn:E; [|auto]. apply andb_true_iff in E. destruct E as [E _]. apply ps_eqb_eq in E.
    intros Hn. cbn in Hn. congruence.
  - destruct (is_on n && _) eqn:E; [|auto]. apply andb_true_iff in E. destruct E as [E _]. apply ps_eqb_eq in E.
    intros Hn. cbn in Hn. congruence.
  - destruct (is_on n) eqn:E; [|auto]. apply ps_eqb_eq in E. intros Hn. cbn in Hn. congruence.
Qed.

Lemma inv2_step c n o : Inv2 n -> Inv2 (step c n o).
Proof.
  intros H. destruct o; cbn [step].
  - destruct (is_on n); [apply inv2_power_off; auto|auto].
  - destruct (ps_eqb (st n) OFF); [apply inv2_power_on; auto|auto].
  - destruct (is_on n); [|auto]. unfold reset. apply inv2_power_off. intros Hn. cbn in *. auto.
  - apply inv2_tick; auto.
  - destruct (is_on n && _) eqn:E; [|auto]. apply andb_true_iff in E. destruct E as [E _]. apply ps_eqb_eq in E.
    intros Hn. cbn in Hn. congruence.
  - destruct (is_on n && _) eqn:E; [|auto]. apply andb_true_iff in E. destruct E as [E _]. apply ps_eqb_eq in E.
    intros Hn. cbn in Hn. congruence.
  - destruct (is_on n && _) eqn:E; [|auto]. apply andb_true_iff in E. destruct E as [E _]. apply ps_eqb_eq in E.
    intros Hn. cbn in Hn. congruence.
  - destruct (is_on n && _) eqn:E; [|auto]. apply andb_true_iff in E. destruct E as [E _]. apply ps_eqb_eq in E.
    intros Hn. cbn in Hn. congruence.
  - destruct (is_on n && _) eqn:E; [|auto]. apply andb_true_iff in E. destruct E as [E _]. apply ps_eqb_eq in E.
    intros Hn. cbn in Hn. congruence.
  - destruct (is_on n) eqn:E; [|auto]. apply ps_eqb_eq in E. intros Hn. cbn in Hn. congruence.
Qed.

(* every reachable state, for all durations (0 included) and all op sequences *)
Theorem not_on_nics_disabled c n ops : Inv1 n -> Inv1 (run c n ops).
Proof. unfold run. revert n. induction ops as [|o ops IH]; cbn; intros n H; auto. apply IH. apply inv1_step; auto. Qed.
Theorem off_no_running_software c n ops : Inv2 n -> Inv2 (run c n ops).
Proof. unfold run. revert n. induction ops as [|o ops IH]; cbn; intros n H; auto. apply IH. apply inv2_step; auto. Qed.

Lemma mk_node_inv nl s a : Inv1 (mk_node nl s a) /\ Inv2 (mk_node nl s a).
Proof. split; intros H; cbn in H; congruence. Qed.

(* ---- order of the power cycle ------------------------------------------------------------------------ *)
From Coq Require Import ZifyBool.

Definition next_ok (c : cfg) (n : node) (o : op) (n' : node) : Prop :=
  match st n, st n' with
  | ON, ON => True
  | ON, SHUTTING_DOWN => 0 < down_d c /\ (o = Shutdown \/ o = Reset)
  | ON, OFF => down_d c <= 0 /\ o = Shutdown
  | ON, BOOTING => down_d c <= 0 /\ 0 < up_d c /\ o = Reset        (* instantaneous shutdown of a reset, then the automatic start *)
  | SHUTTING_DOWN, SHUTTING_DOWN => True
  | SHUTTING_DOWN, OFF => o = Tick /\ resetting n = false /\ down_cd n <= 0
  | SHUTTING_DOWN, BOOTING => o = Tick /\ resetting n = true /\ 0 < up_d c /\ down_cd n <= 0
  | SHUTTING_DOWN, ON => o = Tick /\ resetting n = true /\ up_d c <= 0 /\ down_cd n <= 0
  | OFF, OFF => True
  | OFF, BOOTING => 0 < up_d c /\ o = Startup
  | OFF, ON => up_d c <= 0 /\ o = Startup
  | BOOTING, BOOTING => True
  | BOOTING, ON => o = Tick /\ up_cd n <= 0
  | _, _ => False
  end.

Ltac crush_if :=
  repeat match goal with
         | |- context [if ?b then _ else _] =>
             lazymatch b with context [if _ then _ else _] => fail | _ => idtac end;
             let E := fresh "E" in destruct b eqn:E; cbn in *
         end.

(* the reset flag is only ever set while the node is shutting down *)
Definition Inv3 (n : node) : Prop := resetting n = true -> st n = SHUTTING_DOWN.

Ltac unfold_all :=
  unfold is_on, reset, power_off, power_on, tick, enable_all, disable_all,
    start_up_actions, shut_down_actions, set_st, set_up, set_down, set_reset, set_nics, set_sw in *.

Theorem power_cycle_order c n o : Inv3 n -> next_ok c n o (step c n o) /\ Inv3 (step c n o).
Proof.
  unfold Inv3. destruct n as [s u d r nl sv ap]. unfold next_ok. cbn. intros I3.
  destruct o; destruct s; cbn; repeat (progress (unfold_all; cbn; crush_if)); cbn;
  repeat split; auto; try lia; try discriminate; try congruence;
  try (intros Hr; try discriminate; specialize (I3 Hr); discriminate);
  try (exfalso; match goal with H : ?r = true |- _ => specialize (I3 H); discriminate end);
  try (exfalso; specialize (I3 eq_refl); discriminate).
Qed.

Theorem inv3_reachable c n ops : Inv3 n -> Inv3 (run c n ops).
Proof.
  unfold run. revert n. induction ops as [|o ops IH]; cbn; intros n H; auto. apply IH. apply power_cycle_order; auto.
Qed.

(* ---- timing ---------------------------------------------------------------------------------------------- *)
Definition ticks (c : cfg) (k : nat) (n : node) : node := run c n (repeat Tick k).

Lemma ticks_S c k n : ticks c (S k) n = ticks c k (tick c n).
Proof. reflexivity. Qed.

Lemma tick_sd_dec c n : st n = SHUTTING_DOWN -> 0 < down_cd n ->
  st (tick c n) = SHUTTING_DOWN /\ down_cd (tick c n) = down_cd n - 1 /\ resetting (tick c n) = resetting n.
Proof.
  destruct n as [s u d r nl sv ap]; cbn; intros -> Hd. unfold tick; cbn.
  destruct (0 <? u) eqn:E; cbn; replace (0 <? d) with true by lia; cbn; auto.
Qed.

Lemma tick_sd_done c n : st n = SHUTTING_DOWN -> down_cd n <= 0 -> resetting n = false ->
  st (tick c n) = OFF /\ resetting (tick c n) = false.
Proof.
  destruct n as [s u d r nl sv ap]; cbn; intros -> Hd ->. unfold tick; cbn.
  destruct (0 <? u) eqn:E; cbn; replace (0 <? d) with false by lia; cbn; auto.
Qed.

Lemma tick_sd_done_reset c n : st n = SHUTTING_DOWN -> down_cd n <= 0 -> resetting n = true ->
  (0 < up_d c -> st (tick c n) = BOOTING /\ up_cd (tick c n) = up_d c /\ resetting (tick c n) = false) /\
  (up_d c <= 0 -> st (tick c n) = ON /\ resetting (tick c n) = false).
Proof.
  destruct n as [s u d r nl sv ap]; cbn; intros -> Hd ->. unfold tick; cbn.
  destruct (0 <? u) eqn:E; cbn; replace (0 <? d) with false by lia; cbn; unfold power_on; cbn;
  destruct (up_d c <=? 0) eqn:F; cbn; split; intros; try lia; auto.
Qed.

Lemma tick_boot_dec c n : st n = BOOTING -> 0 < up_cd n ->
  st (tick c n) = BOOTING /\ up_cd (tick c n) = up_cd n - 1 /\ resetting (tick c n) = resetting n.
Proof.
  destruct n as [s u d r nl sv ap]; cbn; intros -> Hd. unfold tick; cbn.
  replace (0 <? u) with true by lia; cbn. destruct (0 <? d); cbn; auto.
Qed.

Lemma tick_boot_done c n : st n = BOOTING -> up_cd n <= 0 -> st (tick c n) = ON.
Proof.
  destruct n as [s u d r nl sv ap]; cbn; intros -> Hd. unfold tick; cbn.
  replace (0 <? u) with false by lia; cbn. destruct (0 <? d); cbn; auto.
Qed.

Lemma sd_ticks c k : forall n, st n = SHUTTING_DOWN -> Z.of_nat k <= down_cd n ->
  st (ticks c k n) = SHUTTING_DOWN /\ down_cd (ticks c k n) = down_cd n - Z.of_nat k /\ resetting (ticks c k n) = resetting n.
Proof.
  induction k as [|k IH]; intros n Hs Hk.
  - cbn. repeat split; auto; lia.
  - rewrite ticks_S. destruct (tick_sd_dec c n Hs ltac:(lia)) as (A & B & C).
    destruct (IH (tick c n) A ltac:(lia)) as (A' & B' & C'). repeat split; auto; try lia; try congruence.
Qed.

Lemma boot_ticks c k : forall n, st n = BOOTING -> Z.of_nat k <= up_cd n ->
  st (ticks c k n) = BOOTING /\ up_cd (ticks c k n) = up_cd n - Z.of_nat k.
Proof.
  induction k as [|k IH]; intros n Hs Hk.
  - cbn. repeat split; auto; lia.
  - rewrite ticks_S. destruct (tick_boot_dec c n Hs ltac:(lia)) as (A & B & C).
    destruct (IH (tick c n) A ltac:(lia)) as (A' & B'). repeat split; auto; try lia.
Qed.

Lemma ticks_add c a b n : ticks c (a + b) n = ticks c b (ticks c a n).
Proof. unfold ticks, run. rewrite repeat_app, fold_left_app. reflexivity. Qed.

Lemma step_shutdown_zero c n : st n = ON -> down_d c <= 0 -> resetting n = false -> st (step c n Shutdown) = OFF.
Proof.
  intros Hs Hd Hr. cbn. unfold is_on. rewrite Hs. cbn. unfold power_off.
  replace (down_d c <=? 0) with true by lia. cbn. rewrite Hr. reflexivity.
Qed.
Lemma step_shutdown_pos c n : st n = ON -> 0 < down_d c ->
  step c n Shutdown = set_down (set_st (disable_all n) SHUTTING_DOWN) (down_d c).
Proof.
  intros Hs Hd. cbn. unfold is_on. rewrite Hs. cbn. unfold power_off.
  replace (down_d c <=? 0) with false by lia. rewrite Hs. reflexivity.
Qed.
Lemma step_startup_zero c n : st n = OFF -> up_d c <= 0 -> st (step c n Startup) = ON.
Proof.
  intros Hs Hd. cbn. rewrite Hs. cbn. unfold power_on. replace (up_d c <=? 0) with true by lia. reflexivity.
Qed.
Lemma step_startup_pos c n : st n = OFF -> 0 < up_d c -> step c n Startup = set_up (set_st n BOOTING) (up_d c).
Proof.
  intros Hs Hd. cbn. rewrite Hs. cbn. unfold power_on. replace (up_d c <=? 0) with false by lia. rewrite Hs. reflexivity.
Qed.
Lemma step_reset_pos c n : st n = ON -> 0 < down_d c ->
  step c n Reset = set_down (set_st (disable_all (set_reset n true)) SHUTTING_DOWN) (down_d c).
Proof.
  intros Hs Hd. cbn. unfold is_on. rewrite Hs. cbn. unfold reset, power_off.
  replace (down_d c <=? 0) with false by lia. cbn. rewrite Hs. reflexivity.
Qed.

Lemma ticks_succ_last c k n : ticks c (S k) n = tick c (ticks c k n).
Proof. replace (S k) with (k + 1)%nat by lia. rewrite ticks_add. reflexivity. Qed.

(* a shutdown lasts the configured duration: SHUTTING_DOWN is observed for d ticks, OFF from tick d+1;
   instantaneous when d = 0 *)
Theorem dwell_shutdown c n : st n = ON -> resetting n = false ->
  let n0 := step c n Shutdown in
  (down_d c <= 0 -> st n0 = OFF) /\
  (0 < down_d c -> (forall k, Z.of_nat k <= down_d c -> st (ticks c k n0) = SHUTTING_DOWN) /\
                   st (ticks c (S (Z.to_nat (down_d c))) n0) = OFF).
Proof.
  intros Hs Hr n0. split.
  - intros Hd. apply step_shutdown_zero; auto.
  - intros Hd. assert (E : n0 = set_down (set_st (disable_all n) SHUTTING_DOWN) (down_d c)) by (apply step_shutdown_pos; auto).
    assert (S0 : st n0 = SHUTTING_DOWN) by (rewrite E; reflexivity).
    assert (D0 : down_cd n0 = down_d c) by (rewrite E; reflexivity).
    assert (R0 : resetting n0 = false) by (rewrite E; cbn; auto).
    split.
    + intros k Hk. apply sd_ticks; auto; lia.
    + rewrite ticks_succ_last.
      destruct (sd_ticks c (Z.to_nat (down_d c)) n0 S0 ltac:(lia)) as (A & B & C).
      apply tick_sd_done; auto; try lia; try congruence.
Qed.

(* a start-up lasts the configured duration *)
Theorem dwell_startup c n : st n = OFF ->
  let n0 := step c n Startup in
  (up_d c <= 0 -> st n0 = ON) /\
  (0 < up_d c -> (forall k, Z.of_nat k <= up_d c -> st (ticks c k n0) = BOOTING) /\
                 st (ticks c (S (Z.to_nat (up_d c))) n0) = ON).
Proof.
  intros Hs n0. split.
  - intros Hd. apply step_startup_zero; auto.
  - intros Hd. assert (E : n0 = set_up (set_st n BOOTING) (up_d c)) by (apply step_startup_pos; auto).
    assert (S0 : st n0 = BOOTING) by (rewrite E; reflexivity).
    assert (D0 : up_cd n0 = up_d c) by (rewrite E; reflexivity).
    split.
    + intros k Hk. apply boot_ticks; auto; lia.
    + rewrite ticks_succ_last.
      destruct (boot_ticks c (Z.to_nat (up_d c)) n0 S0 ltac:(lia)) as (A & B).
      apply tick_boot_done; auto; lia.
Qed.

(* a reset is a shutdown followed by an automatic start: SHUTTING_DOWN for d ticks, then BOOTING for u+1 ticks, then ON *)
Theorem dwell_reset c n : st n = ON -> 0 < down_d c -> 0 < up_d c ->
  let n0 := step c n Reset in
  let d := Z.to_nat (down_d c) in let u := Z.to_nat (up_d c) in
  (forall k, (k <= d)%nat -> st (ticks c k n0) = SHUTTING_DOWN) /\
  (forall k, (k <= u)%nat -> st (ticks c (S d + k) n0) = BOOTING) /\
  st (ticks c (S d + S u) n0) = ON.
Proof.
  intros Hs Hd Hu n0 d u.
  assert (E : n0 = set_down (set_st (disable_all (set_reset n true)) SHUTTING_DOWN) (down_d c)) by (apply step_reset_pos; auto).
  assert (S0 : st n0 = SHUTTING_DOWN) by (rewrite E; reflexivity).
  assert (D0 : down_cd n0 = down_d c) by (rewrite E; reflexivity).
  assert (R0 : resetting n0 = true) by (rewrite E; reflexivity).
  destruct (sd_ticks c d n0 S0 ltac:(unfold d; lia)) as (A & B & C).
  remember (ticks c d n0) as n1 eqn:N1.
  destruct (tick_sd_done_reset c n1 A ltac:(unfold d in *; lia) ltac:(congruence)) as [T _].
  destruct (T Hu) as (A2 & B2 & C2).
  assert (E1 : ticks c (S d) n0 = tick c n1) by (rewrite ticks_succ_last; congruence).
  split; [|split].
  - intros k Hk. apply sd_ticks; auto. unfold d in *; lia.
  - intros k Hk. rewrite ticks_add, E1. apply boot_ticks; auto. unfold u in *; lia.
  - rewrite ticks_add, E1. rewrite ticks_succ_last.
    destruct (boot_ticks c u (tick c n1) A2 ltac:(unfold u; lia)) as (A3 & B3).
    apply tick_boot_done; auto. unfold u in *; lia.
Qed.

(* when the node returns to ON its linked interfaces, stopped services and closed applications come back up *)
Theorem on_restores c n : st n = BOOTING -> up_cd n <= 0 ->
  let n' := tick c n in
  st n' = ON /\ Forall (fun i => linked i = true -> enabled i = true) (nics n') /\
  Forall (fun v => v <> 2) (svcs n') /\ Forall (fun v => v <> 2) (apps n').
Proof.
  destruct n as [s u d r nl sv ap]; cbn; intros -> Hd. unfold tick; cbn.
  replace (0 <? u) with false by lia; cbn.
  assert (N : Forall (fun i => linked i = true -> enabled i = true) (map (nic_enable ON) nl)).
  { induction nl as [|i l IH]; cbn; constructor; auto. unfold nic_enable. destruct (enabled i) eqn:E; auto.
    cbn. destruct (linked i) eqn:L; cbn; auto. intros; congruence. }
  assert (SV : Forall (fun v => v <> 2) (map (svc_start ON) sv)).
  { induction sv as [|v l IH]; cbn; constructor; auto. unfold svc_start; cbn. destruct (v =? 2) eqn:E; lia. }
  assert (AP : Forall (fun v => v <> 2) (map (app_run ON) ap)).
  { induction ap as [|v l IH]; cbn; constructor; auto. unfold app_run; cbn. destruct (v =? 2) eqn:E; lia. }
  destruct (0 <? d); cbn; auto.
Qed.
