From Coq Require Import ZArith List Bool Lia.
Import ListNotations.
From PV Require Import Model.Link.
Open Scope Z_scope.

Section Ind.
  Variable P : tx -> Prop.
  Hypothesis H : forall chk add up ok kids, Forall P kids -> P (Tx chk add up ok kids).
  Fixpoint tx_ind' (t : tx) : P t :=
    match t with Tx chk add up ok kids =>
      H chk add up ok kids ((fix go ks : Forall P ks :=
         match ks with [] => Forall_nil _ | k :: ks' => Forall_cons _ (tx_ind' k) (go ks') end) kids) end.
End Ind.

(* well-formed attempt: sizes are non-negative and a frame does not grow between admission and accounting *)
Inductive wf : tx -> Prop :=
  WF chk add up ok kids : 0 <= add -> add <= chk -> Forall wf kids -> wf (Tx chk add up ok kids).

(* state invariant: 0 <= carried <= load <= bw ; step relation: load - carried is preserved, carried grows *)
Definition good (bw : Z) (st : Z * Z) : Prop := 0 <= snd st /\ snd st <= fst st /\ fst st <= bw.
Definition step_ok (bw : Z) (st st' : Z * Z) : Prop :=
  good bw st' /\ fst st' - snd st' = fst st - snd st /\ snd st <= snd st'.

Lemma fold_step bw kids : Forall (fun k => forall st, good bw st -> step_ok bw st (run bw k st)) kids ->
  forall st, good bw st -> step_ok bw st (fold_left (fun s k => run bw k s) kids st).
Proof.
  induction 1 as [|k ks Hk _ IH]; cbn; intros st G.
  - unfold step_ok; repeat split; try apply G; lia.
  - destruct (Hk st G) as (G1 & D1 & M1). destruct (IH _ G1) as (G2 & D2 & M2).
    unfold step_ok; repeat split; try apply G2; lia.
Qed.

Theorem run_step bw t : wf t -> forall st, good bw st -> step_ok bw st (run bw t st).
Proof.
  induction t as [chk add up ok kids IH] using tx_ind'. intros W [load carried] G.
  inversion W as [? ? ? ? ? Ha Hc Hk]; subst. unfold good in G; cbn [fst snd] in G.
  cbn [run]. destruct (up && (load + chk <=? bw)) eqn:E.
  - apply andb_true_iff in E. destruct E as [_ E]. apply Z.leb_le in E.
    assert (Hf : Forall (fun k => forall st, good bw st -> step_ok bw st (run bw k st)) kids).
    { rewrite Forall_forall in *. intros k Hin. apply IH; auto. }
    assert (G1 : good bw (load + add, carried)) by (unfold good; cbn; lia).
    destruct (fold_step bw kids Hf _ G1) as (G2 & D2 & M2).
    destruct (fold_left (fun s k => run bw k s) kids (load + add, carried)) as [l2 c2].
    unfold good in G2; cbn [fst snd] in *.
    destruct ok; unfold step_ok, good; cbn [fst snd]; lia.
  - unfold step_ok, good; cbn [fst snd]; lia.
Qed.

(* every reachable state of every tick: 0 <= carried = load <= bandwidth *)
Theorem tick_inv bw ts : 0 <= bw -> Forall wf ts ->
  let st := run_tick bw ts in 0 <= fst st <= bw /\ snd st = fst st.
Proof.
  intros Hb W. unfold run_tick.
  assert (G0 : good bw (0, 0)) by (unfold good; cbn; lia).
  assert (Hf : Forall (fun k => forall st, good bw st -> step_ok bw st (run bw k st)) ts).
  { rewrite Forall_forall in *. intros k Hin st G. apply run_step; auto. }
  destruct (fold_step bw ts Hf _ G0) as ((A & B & C) & D & M). cbn [fst snd] in *. lia.
Qed.

(* a link whose end interfaces are not both enabled carries nothing and its load does not move *)
Theorem down_link_carries_nothing bw chk add ok kids st : run bw (Tx chk add false ok kids) st = st.
Proof. destruct st; reflexivity. Qed.

(* a frame that would overflow is dropped at the sender: nothing is delivered, nothing nested happens *)
Theorem overflow_dropped bw chk add up ok kids load carried :
  bw < load + chk -> run bw (Tx chk add up ok kids) (load, carried) = (load, carried).
Proof.
  intros H. cbn [run]. replace (load + chk <=? bw) with false by (symmetry; apply Z.leb_gt; lia).
  rewrite andb_false_r. reflexivity.
Qed.

(* the pre-repair accounting lets a reply through against a load that omits the request *)
Example post_accounting_refuted : exists bw t, wf t /\ snd (run_post bw t (0, 0)) > bw.
Proof.
  exists 8, (Tx 5 5 true true [Tx 5 5 true true []]). split.
  - repeat constructor; lia.
  - vm_compute. reflexivity.
Qed.
