From Coq Require Import ZArith List Bool Lia ZifyBool.
Import ListNotations.
From PV Require Import Model.FileHealth.
Open Scope Z_scope.

(* per-file relations between the state before and after an op *)
Definition vis_same (f f' : fl) : Prop := fv f' = fv f.
Definition vis_scanned (f f' : fl) : Prop := fv f' = fh f.
Definition vis_ok (f f' : fl) : Prop := vis_same f f' \/ vis_scanned f f'.

Lemma Forall2_map_l {A} (R : A -> A -> Prop) (f : A -> A) l : (forall x, R x (f x)) -> Forall2 R l (map f l).
Proof. intros H. induction l; cbn; constructor; auto. Qed.
Lemma Forall2_refl {A} (R : A -> A -> Prop) l : (forall x, R x x) -> Forall2 R l l.
Proof. intros H. induction l; constructor; auto. Qed.
Lemma Forall2_upd {A} (R : A -> A -> Prop) (f : A -> A) l i : (forall x, R x x) -> (forall x, R x (f x)) -> Forall2 R l (upd l i f).
Proof. intros Hr Hf. revert i. induction l as [|x l IH]; intros [|i]; cbn; constructor; auto. apply Forall2_refl; auto. Qed.
Lemma Forall2_trans' {A} (R S T : A -> A -> Prop) l1 l2 l3 :
  (forall a b c, R a b -> S b c -> T a c) -> Forall2 R l1 l2 -> Forall2 S l2 l3 -> Forall2 T l1 l3.
Proof.
  intros H H1. revert l3. induction H1; intros l3 H2; inversion H2; subst; constructor; eauto.
Qed.

Lemma Forall2_impl {A} (R S : A -> A -> Prop) l1 l2 : (forall a b, R a b -> S a b) -> Forall2 R l1 l2 -> Forall2 S l1 l2.
Proof. intros H F. induction F; constructor; auto. Qed.

Definition scan_due (g : fo) : Prop := ncd g = 1 \/ scd g = 1.

(* the three sections of a tick *)
Lemma scanned_map l : Forall2 vis_scanned l (map f_scan l).
Proof. apply Forall2_map_l; intros x; reflexivity. Qed.
Lemma fh_map_scan l : Forall2 (fun f f' => fh f' = fh f) l (map f_scan l).
Proof. apply Forall2_map_l; intros x; reflexivity. Qed.
Lemma fh_refl l : Forall2 (fun f f' : fl => fh f' = fh f) l l.
Proof. apply Forall2_refl; auto. Qed.

Lemma node_scan_tick_files g :
  (ncd g = 1 -> Forall2 vis_scanned (fls g) (fls (node_scan_tick g))) /\
  (ncd g <> 1 -> fls (node_scan_tick g) = fls g /\ gv (node_scan_tick g) = gv g) /\
  Forall2 (fun f f' => fh f' = fh f) (fls g) (fls (node_scan_tick g)) /\
  scd (node_scan_tick g) = scd g /\ rcd (node_scan_tick g) = rcd g /\ gh (node_scan_tick g) = gh g.
Proof.
  unfold node_scan_tick. destruct (0 <? ncd g) eqn:E; cbn.
  - destruct (ncd g - 1 =? 0) eqn:F; cbn.
    + destruct (existsb (fun f => fv f =? 3) (map f_scan (fls g))); cbn.
      * split; [intros _; apply scanned_map|]. split; [intros; lia|]. split; [apply fh_map_scan|auto].
      * split; [intros _; apply scanned_map|]. split; [intros; lia|]. split; [apply fh_map_scan|auto].
    + split; [intros; lia|]. split; [auto|]. split; [apply fh_refl|auto].
  - split; [intros; lia|]. split; [auto|]. split; [apply fh_refl|auto].
Qed.

Lemma scan_tick_files g :
  (scd g = 1 -> Forall2 vis_scanned (fls g) (fls (scan_tick g))) /\
  (scd g <> 1 -> fls (scan_tick g) = fls g /\ gv (scan_tick g) = gv g /\ gh (scan_tick g) = gh g) /\
  Forall2 (fun f f' => fh f' = fh f) (fls g) (fls (scan_tick g)) /\ rcd (scan_tick g) = rcd g.
Proof.
  unfold scan_tick. destruct (0 <=? scd g) eqn:E; cbn.
  - destruct (scd g - 1 =? 0) eqn:F; cbn.
    + split; [intros _; apply scanned_map|]. split; [intros; lia|]. split; [apply fh_map_scan|auto].
    + split; [intros; lia|]. split; [auto|]. split; [apply fh_refl|auto].
  - split; [intros; lia|]. split; [auto|]. split; [apply fh_refl|auto].
Qed.

Lemma restore_tick_files g : Forall2 vis_same (fls g) (fls (restore_tick g)) /\ gv (restore_tick g) = gv g.
Proof.
  unfold restore_tick. destruct (0 <=? rcd g); cbn; [|split; auto; apply Forall2_refl; reflexivity].
  destruct (rcd g - 1 =? 0); cbn; [|split; auto; apply Forall2_refl; reflexivity].
  destruct ((gh g =? 3) || (gh g =? 4)); cbn; split; auto; apply Forall2_map_l; intros x; reflexivity.
Qed.

(* a file's visible health changes only when a scan covering it completes, and then equals its true health at that moment *)
Theorem file_visible_changes_only_by_scan g o :
  Forall2 vis_ok (fls g) (fls (step g o)) /\
  ((forall i, o <> FileScan i) -> (o = Tick -> ~ scan_due g) -> Forall2 vis_same (fls g) (fls (step g o))).
Proof.
  destruct o; cbn [step].
  - split; [|intros H; exfalso; apply (H i); reflexivity]. cbn. apply Forall2_upd; [left; reflexivity|right; reflexivity].
  - split; [|intros _ _]; cbn; apply Forall2_upd; try (left; reflexivity); try reflexivity; intros x; try (left; reflexivity); reflexivity.
  - split; [|intros _ _]; cbn; apply Forall2_upd; try (left; reflexivity); try reflexivity; intros x; try (left; reflexivity); reflexivity.
  - split; [|intros _ _]; cbn; apply Forall2_upd; try (left; reflexivity); try reflexivity; intros x; try (left; reflexivity); reflexivity.
  - destruct (scd g <=? 0); cbn; split; intros; apply Forall2_refl; try (left; reflexivity); reflexivity.
  - cbn. split; intros; apply Forall2_map_l; intros x; try (left; reflexivity); reflexivity.
  - cbn. split; intros; apply Forall2_map_l; intros x; try (left; reflexivity); reflexivity.
  - destruct (rcd g <=? 0); cbn; split; intros; apply Forall2_refl; try (left; reflexivity); reflexivity.
  - cbn. split; intros; apply Forall2_refl; try (left; reflexivity); reflexivity.
  - (* Tick *)
    destruct (node_scan_tick_files g) as (N1 & N2 & N3 & N4 & N5 & N6).
    destruct (scan_tick_files (node_scan_tick g)) as (S1 & S2 & S3 & S4).
    destruct (restore_tick_files (scan_tick (node_scan_tick g))) as (R1 & R2).
    assert (A : Forall2 vis_ok (fls g) (fls (node_scan_tick g))).
    { destruct (Z.eq_dec (ncd g) 1) as [E|E].
      - eapply Forall2_impl; [|apply N1; auto]. intros; right; auto.
      - destruct (N2 E) as [-> _]. apply Forall2_refl; left; reflexivity. }
    assert (B : Forall2 (fun f f' => fv f' = fv f \/ fv f' = fh f) (fls (node_scan_tick g)) (fls (scan_tick (node_scan_tick g)))).
    { destruct (Z.eq_dec (scd (node_scan_tick g)) 1) as [E|E].
      - eapply Forall2_impl; [|apply S1; auto]. intros; right; auto.
      - destruct (S2 E) as [-> _]. apply Forall2_refl; left; reflexivity. }
    split.
    + eapply (Forall2_trans' vis_ok vis_same vis_ok); [| |exact R1].
      { intros a b c [H|H] H2; unfold vis_same, vis_scanned in *; [left|right]; congruence. }
      eapply (Forall2_trans' (fun a b => vis_ok a b /\ fh b = fh a) (fun f f' => fv f' = fv f \/ fv f' = fh f) vis_ok); [| |exact B].
      { intros a b c [[H|H] Hh] [H2|H2]; unfold vis_ok, vis_same, vis_scanned in *; try (left; congruence); right; congruence. }
      clear - A N3. induction A; inversion N3; subst; constructor; auto.
    + intros _ Hd. specialize (Hd eq_refl). unfold scan_due in Hd.
      assert (E1 : ncd g <> 1) by tauto. assert (E2 : scd g <> 1) by tauto.
      destruct (N2 E1) as [F1 _]. rewrite <- N4 in E2. destruct (S2 E2) as [F2 _].
      rewrite F2, F1 in R1. exact R1.
Qed.

(* a folder's visible health changes only when a scan of it (or of the whole node) completes *)
Theorem folder_visible_changes_only_by_scan g o : gv (step g o) <> gv g -> o = Tick /\ scan_due g.
Proof.
  destruct o; cbn [step]; try (cbn; congruence).
  - destruct (scd g <=? 0); cbn; congruence.
  - destruct (rcd g <=? 0); cbn; congruence.
  - intros H. split; auto. unfold scan_due.
    destruct (node_scan_tick_files g) as (N1 & N2 & N3 & N4 & N5 & N6).
    destruct (scan_tick_files (node_scan_tick g)) as (S1 & S2 & S3 & S4).
    destruct (restore_tick_files (scan_tick (node_scan_tick g))) as (R1 & R2).
    destruct (Z.eq_dec (ncd g) 1) as [E1|E1]; auto. destruct (Z.eq_dec (scd g) 1) as [E2|E2]; auto.
    exfalso. apply H. rewrite R2. destruct (N2 E1) as [_ G1]. rewrite <- N4 in E2. destruct (S2 E2) as (_ & G2 & _). congruence.
Qed.

(* when the folder scan completes every file shows its true health and the folder shows the worst of them *)
Theorem folder_scan_completion g : scd g = 1 ->
  let g' := scan_tick g in
  Forall (fun f => fv f = fh f) (fls g') /\ gv g' = worst (fls g') /\ gh g' = gv g' /\ scd g' = 0.
Proof.
  intros E. unfold scan_tick. replace (0 <=? scd g) with true by lia. replace (scd g - 1 =? 0) with true by lia. cbn.
  repeat split; auto; try lia. rewrite Forall_forall. intros x Hx. apply in_map_iff in Hx. destruct Hx as (y & <- & _). reflexivity.
Qed.

(* timing: a folder scan requested while none is running completes after exactly max(scan_duration, 1) ticks *)
Fixpoint ticks (k : nat) (g : fo) : fo := match k with O => g | S j => ticks j (step g Tick) end.

Lemma tick_scd g : 1 < scd g -> scd (step g Tick) = scd g - 1.
Proof.
  intros H. cbn [step].
  destruct (node_scan_tick_files g) as (_ & _ & _ & N4 & _).
  assert (S : scd (scan_tick (node_scan_tick g)) = scd g - 1).
  { unfold scan_tick. rewrite N4. replace (0 <=? scd g) with true by lia. replace (scd g - 1 =? 0) with false by lia. reflexivity. }
  unfold restore_tick. destruct (0 <=? rcd (scan_tick (node_scan_tick g))); cbn; auto.
  destruct (rcd (scan_tick (node_scan_tick g)) - 1 =? 0); cbn; auto.
  destruct ((gh (scan_tick (node_scan_tick g)) =? 3) || (gh (scan_tick (node_scan_tick g)) =? 4)); cbn; auto.
Qed.

Lemma scd_ticks k : forall g, Z.of_nat k < scd g -> scd (ticks k g) = scd g - Z.of_nat k.
Proof.
  induction k as [|k IH]; intros g H; cbn [ticks]; [lia|].
  rewrite IH; rewrite tick_scd; lia.
Qed.

Theorem folder_scan_time g : scd g <= 0 ->
  let g0 := step g FolderScan in let n := Z.to_nat (Z.max (sdur g) 1) in
  (forall k, (k < n)%nat -> scd (ticks k g0) = Z.of_nat n - Z.of_nat k) /\ scd (ticks (n - 1) g0) = 1.
Proof.
  intros H g0 n. assert (E : scd g0 = Z.max (sdur g) 1).
  { unfold g0. cbn. replace (scd g <=? 0) with true by lia. reflexivity. }
  split.
  - intros k Hk. rewrite scd_ticks; unfold n in *; lia.
  - rewrite scd_ticks; unfold n in *; lia.
Qed.

(* the whole-node scan: requested, it completes after exactly max(node_scan_duration, 1) ticks *)
Lemma tick_ncd g : 1 < ncd g -> ncd (step g Tick) = ncd g - 1.
Proof.
  intros H. cbn [step].
  assert (N : ncd (node_scan_tick g) = ncd g - 1).
  { unfold node_scan_tick. replace (0 <? ncd g) with true by lia. cbn. replace (ncd g - 1 =? 0) with false by lia. reflexivity. }
  assert (S : ncd (scan_tick (node_scan_tick g)) = ncd g - 1).
  { unfold scan_tick. destruct (0 <=? scd (node_scan_tick g)); cbn; auto. destruct (scd (node_scan_tick g) - 1 =? 0); cbn; auto. }
  unfold restore_tick. destruct (0 <=? rcd (scan_tick (node_scan_tick g))); cbn; auto.
  destruct (rcd (scan_tick (node_scan_tick g)) - 1 =? 0); cbn; auto.
  destruct ((gh (scan_tick (node_scan_tick g)) =? 3) || (gh (scan_tick (node_scan_tick g)) =? 4)); cbn; auto.
Qed.
Lemma ncd_ticks k : forall g, Z.of_nat k < ncd g -> ncd (ticks k g) = ncd g - Z.of_nat k.
Proof. induction k as [|k IH]; intros g H; cbn [ticks]; [lia|]. rewrite IH; rewrite tick_ncd; lia. Qed.

Theorem node_scan_time g :
  let g0 := step g NodeScan in let n := Z.to_nat (Z.max (ndur g) 1) in ncd (ticks (n - 1) g0) = 1.
Proof. intros g0 n. rewrite ncd_ticks; unfold g0, n; cbn; lia. Qed.

(* a folder restore completes after exactly max(restore_duration, 1) ticks *)
Lemma tick_rcd g : 1 < rcd g -> rcd (step g Tick) = rcd g - 1.
Proof.
  intros H. cbn [step].
  destruct (node_scan_tick_files g) as (_ & _ & _ & _ & N5 & _).
  destruct (scan_tick_files (node_scan_tick g)) as (_ & _ & _ & S4).
  unfold restore_tick. rewrite S4, N5. replace (0 <=? rcd g) with true by lia. cbn. replace (rcd g - 1 =? 0) with false by lia. reflexivity.
Qed.
Lemma rcd_ticks k : forall g, Z.of_nat k < rcd g -> rcd (ticks k g) = rcd g - Z.of_nat k.
Proof. induction k as [|k IH]; intros g H; cbn [ticks]; [lia|]. rewrite IH; rewrite tick_rcd; lia. Qed.

Theorem folder_restore_time g : rcd g <= 0 ->
  let g0 := step g FolderRestore in let n := Z.to_nat (Z.max (rdur g) 1) in rcd (ticks (n - 1) g0) = 1.
Proof.
  intros H g0 n. assert (E : rcd g0 = Z.max (rdur g) 1).
  { unfold g0. cbn. replace (rcd g <=? 0) with true by lia. reflexivity. }
  rewrite rcd_ticks; unfold n in *; lia.
Qed.

Theorem folder_restore_completion g : rcd g = 1 ->
  let g' := restore_tick g in Forall (fun f => fh f <> 3) (fls g') /\ gh g' <> 3 /\ gh g' <> 4.
Proof.
  intros E. unfold restore_tick. replace (0 <=? rcd g) with true by lia. replace (rcd g - 1 =? 0) with true by lia. cbn.
  assert (F : Forall (fun f => fh f <> 3) (map f_repair (fls g))).
  { rewrite Forall_forall. intros x Hx. apply in_map_iff in Hx. destruct Hx as (y & <- & _). cbn. destruct (fh y =? 3) eqn:Q; lia. }
  destruct ((gh g =? 3) || (gh g =? 4)) eqn:Q; cbn; repeat split; auto; lia.
Qed.
