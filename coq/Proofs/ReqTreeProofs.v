From Coq Require Import ZArith List Bool.
Import ListNotations.
From PV Require Import Model.ReqTree.

Section Requests.
  Variables (St Key : Type).
  Variable key_eqb : Key -> Key -> bool.
  Hypothesis key_eqb_eq : forall a b, key_eqb a b = true <-> a = b.

  Notation rtree := (rtree St Key).
  Notation validator := (validator St Key).

  (* Spec: the request reaches a handler: its path is in the tree (first entry with that key, as in a dict
     lookup) and every validator along the path holds *)
  Inductive reaches : rtree -> list Key -> St -> Prop :=
  | R_leaf h r s : reaches (Leaf h) r s
  | R_mgr kids k opts s v sub pre post :
      kids = pre ++ (k, (v, sub)) :: post ->
      (forall k' x, In (k', x) pre -> k' <> k) ->
      v opts s = true -> reaches sub opts s -> reaches (Mgr kids) (k :: opts) s.

  (* the path exists in the tree (whatever the validators say) *)
  Inductive in_tree : rtree -> list Key -> Prop :=
  | T_leaf h r : in_tree (Leaf h) r
  | T_mgr kids k opts v sub pre post :
      kids = pre ++ (k, (v, sub)) :: post ->
      (forall k' x, In (k', x) pre -> k' <> k) ->
      in_tree sub opts -> in_tree (Mgr kids) (k :: opts).

  Section Ind.
    Variable P : rtree -> Prop.
    Hypothesis HL : forall h, P (Leaf h).
    Hypothesis HM : forall kids, Forall (fun e => P (snd (snd e))) kids -> P (Mgr kids).
    Fixpoint rtree_ind' (t : rtree) : P t :=
      match t with
      | Leaf h => HL h
      | Mgr kids => HM kids ((fix go l : Forall (fun e => P (snd (snd e))) l :=
                               match l with [] => Forall_nil _ | e :: tl => Forall_cons e (rtree_ind' (snd (snd e))) (go tl) end) kids)
      end.
  End Ind.

  Lemma key_refl k : key_eqb k k = true. Proof. apply key_eqb_eq; auto. Qed.
  Lemma key_neq a b : key_eqb a b = false <-> a <> b.
  Proof. destruct (key_eqb a b) eqn:E; split; intro H; try discriminate; try (apply key_eqb_eq in E; contradiction); auto.
         intro; subst. rewrite key_refl in E; discriminate. Qed.

  Lemma reaches_cons_hit k opts s v sub tl :
    reaches (Mgr ((k, (v, sub)) :: tl)) (k :: opts) s <-> v opts s = true /\ reaches sub opts s.
  Proof.
    split.
    - inversion 1 as [|? ? ? ? v0 sub0 pre post Ek Hpre Hv Hr]; subst.
      destruct pre as [|[k0 x0] pre]; cbn in Ek.
      + inversion Ek; subst; auto.
      + injection Ek as E1 E2 E3. exfalso. eapply (Hpre k0 x0); [left; reflexivity|congruence].
    - intros [Hv Hr]. eapply (R_mgr _ k opts s v sub [] tl); auto; try (intros ? ? []).
  Qed.

  Lemma reaches_cons_miss k k' opts s v sub tl : k' <> k ->
    reaches (Mgr ((k', (v, sub)) :: tl)) (k :: opts) s <-> reaches (Mgr tl) (k :: opts) s.
  Proof.
    intros Hne. split.
    - inversion 1 as [|? ? ? ? v0 sub0 pre post Ek Hpre Hv Hr]; subst.
      destruct pre as [|[k0 x0] pre]; cbn in Ek; inversion Ek; subst; [contradiction|].
      eapply (R_mgr _ k opts s v0 sub0 pre post); auto. intros; eapply Hpre; right; eauto.
    - inversion 1 as [|? ? ? ? v0 sub0 pre post Ek Hpre Hv Hr]; subst.
      eapply (R_mgr _ k opts s v0 sub0 ((k', (v, sub)) :: pre) post); auto.
      intros k0 x [Hin|Hin]; [inversion Hin; subst; auto|eauto].
  Qed.

  Lemma reaches_nil_kids k opts s : ~ reaches (Mgr []) (k :: opts) s.
  Proof. inversion 1 as [|? ? ? ? ? ? pre post E]; subst. destruct pre; discriminate. Qed.

  Lemma reaches_nil_req kids s : ~ reaches (Mgr kids) [] s.
  Proof. inversion 1. Qed.

  (* C11: the mask predicate is exactly "would reach its handler" *)
  Theorem check_valid_iff_reaches : forall t r s, check_valid key_eqb t r s = true <-> reaches t r s.
  Proof.
    induction t as [h|kids IH] using rtree_ind'; intros r s; cbn [check_valid].
    - split; [constructor|auto].
    - destruct r as [|k opts]; [split; [discriminate|intro H; destruct (reaches_nil_req _ _ H)]|].
      induction kids as [|[k' [v sub]] tl IHk].
      + split; [discriminate|intro H; destruct (reaches_nil_kids _ _ _ H)].
      + inversion IH as [|? ? Hsub Htl]; subst. cbn in Hsub.
        destruct (key_eqb k k') eqn:E.
        * apply key_eqb_eq in E; subst k'. rewrite andb_true_iff, Hsub, reaches_cons_hit. tauto.
        * apply key_neq in E. rewrite (IHk Htl). rewrite reaches_cons_miss; [tauto|congruence].
  Qed.

  (* C05: a refused request leaves the state unchanged, is answered Failure or Unreachable, never Success *)
  Theorem dispatch_refused_frame : forall t r s, ~ reaches t r s ->
    fst (dispatch key_eqb t r s) = s /\
    (snd (dispatch key_eqb t r s) = Failure \/ snd (dispatch key_eqb t r s) = Unreachable).
  Proof.
    induction t as [h|kids IH] using rtree_ind'; intros r s Hn.
    - exfalso; apply Hn; constructor.
    - cbn [dispatch]. destruct r as [|k opts]; [split; [reflexivity|right; reflexivity]|].
      induction kids as [|[k' [v sub]] tl IHk]; [split; [reflexivity|right; reflexivity]|].
      inversion IH as [|? ? Hsub Htl]; subst. cbn in Hsub.
      destruct (key_eqb k k') eqn:E.
      + apply key_eqb_eq in E; subst k'. destruct (v opts s) eqn:Hv; [|split; [reflexivity|left; reflexivity]].
        apply Hsub. intro Hr. apply Hn. apply reaches_cons_hit; auto.
      + apply key_neq in E. apply IHk; auto. intro Hr. apply Hn. apply reaches_cons_miss; [congruence|auto].
  Qed.


  (* precise classification of every answer *)
  Inductive answer_spec : rtree -> list Key -> St -> St * status -> Prop :=
  | A_leaf h r s : answer_spec (Leaf h) r s (h r s)
  | A_empty kids s : answer_spec (Mgr kids) [] s (s, Unreachable)
  | A_missing kids k opts s : (forall v sub, ~ In (k, (v, sub)) kids) -> answer_spec (Mgr kids) (k :: opts) s (s, Unreachable)
  | A_refused kids k opts s v sub pre post :
      kids = pre ++ (k, (v, sub)) :: post -> (forall k' x, In (k', x) pre -> k' <> k) ->
      v opts s = false -> answer_spec (Mgr kids) (k :: opts) s (s, Failure)
  | A_descend kids k opts s v sub pre post a :
      kids = pre ++ (k, (v, sub)) :: post -> (forall k' x, In (k', x) pre -> k' <> k) ->
      v opts s = true -> answer_spec sub opts s a -> answer_spec (Mgr kids) (k :: opts) s a.

  Theorem dispatch_answer_spec : forall t r s, answer_spec t r s (dispatch key_eqb t r s).
  Proof.
    induction t as [h|kids IH] using rtree_ind'; intros r s.
    - constructor.
    - cbn [dispatch]. destruct r as [|k opts]; [constructor|].
      assert (G : forall pre, (forall k' x, In (k', x) pre -> k' <> k) ->
                  forall tl, Forall (fun e => forall r s, answer_spec (snd (snd e)) r s (dispatch key_eqb (snd (snd e)) r s)) tl ->
                  answer_spec (Mgr (pre ++ tl)) (k :: opts) s
                    ((fix find (l : list (Key * (validator * rtree))) : St * status :=
                        match l with
                        | [] => (s, Unreachable)
                        | (k', (v, sub)) :: tl0 =>
                            if key_eqb k k' then (if v opts s then dispatch key_eqb sub opts s else (s, Failure)) else find tl0
                        end) tl)).
      { intros pre Hpre tl. revert pre Hpre. induction tl as [|[k' [v sub]] tl IHt]; intros pre Hpre HF.
        - rewrite app_nil_r. apply A_missing. intros v sub Hin. apply (Hpre _ _ Hin). reflexivity.
        - inversion HF as [|? ? Hsub Htl]; subst. cbn in Hsub.
          destruct (key_eqb k k') eqn:E.
          + apply key_eqb_eq in E; subst k'. destruct (v opts s) eqn:Hv.
            * eapply A_descend; eauto.
            * eapply A_refused; eauto.
          + apply key_neq in E.
            replace (pre ++ (k', (v, sub)) :: tl) with ((pre ++ [(k', (v, sub))]) ++ tl) by (rewrite <- app_assoc; reflexivity).
            apply IHt; auto. intros k0 x Hin. apply in_app_or in Hin. destruct Hin as [Hin|[Hin|[]]]; eauto.
            inversion Hin; subst; congruence. }
      apply (G [] (fun _ _ H => match H with end) kids IH).
  Qed.

  (* Only a request that reaches its handler can change state: the handler is invoked iff reaches *)
  Theorem dispatch_reaches_invokes : forall t r s, reaches t r s ->
    exists (h : handler St Key) (opts : list Key), dispatch key_eqb t r s = h opts s.
  Proof.
    induction t as [h|kids IH] using rtree_ind'; intros r s Hr.
    - exists h, r. reflexivity.
    - cbn [dispatch]. destruct r as [|k opts]; [destruct (reaches_nil_req _ _ Hr)|].
      induction kids as [|[k' [v sub]] tl IHk]; [destruct (reaches_nil_kids _ _ _ Hr)|].
      inversion IH as [|? ? Hsub Htl]; subst. cbn in Hsub.
      destruct (key_eqb k k') eqn:E.
      + apply key_eqb_eq in E; subst k'. apply reaches_cons_hit in Hr. destruct Hr as [Hv Hr]. rewrite Hv. auto.
      + apply key_neq in E. apply IHk; auto. apply reaches_cons_miss in Hr; [auto|congruence].
  Qed.

  (* C11 corollaries *)
  Corollary masked_out_never_succeeds : forall (t : rtree) (r : list Key) (s : St),
    check_valid key_eqb t r s = false -> snd (dispatch key_eqb t r s) <> Success /\ fst (dispatch key_eqb t r s) = s.
  Proof.
    intros t r s H. assert (Hn : ~ reaches t r s).
    { intro Hr. apply check_valid_iff_reaches in Hr. congruence. }
    destruct (dispatch_refused_frame t r s Hn) as [H1 [H2|H2]]; split; auto; rewrite H2; discriminate.
  Qed.

  Corollary allowed_reaches_handler : forall (t : rtree) (r : list Key) (s : St),
    check_valid key_eqb t r s = true -> exists (h : handler St Key) (opts : list Key), dispatch key_eqb t r s = h opts s.
  Proof. intros t r s H. apply dispatch_reaches_invokes. apply check_valid_iff_reaches; auto. Qed.
End Requests.
