(* Gen = Model: the threshold-bin kernels translated from the current source are the model's `categorise`. *)
From Coq Require Import ZArith Bool.
From PV Require Import Model.Obs Gen.GenObs.
Open Scope Z_scope.
Theorem gen_categorise_mne_count : forall lo me hi c, GenObs.categorise_mne_count hi me lo c = categorise lo me hi c.
Proof. reflexivity. Qed.
Theorem gen_categorise_num_executions : forall lo me hi c, GenObs.categorise_num_executions hi me lo c = categorise lo me hi c.
Proof. reflexivity. Qed.
Theorem gen_categorise_num_access : forall lo me hi c, GenObs.categorise_num_access hi me lo c = categorise lo me hi c.
Proof. reflexivity. Qed.
