(* Gen = Model: the threshold-bin kernels translated from the current source are the model's `categorise`. *)
From Coq Require Import ZArith Bool.
From PV Require Import Model.Obs Gen.GenObs.
Open Scope Z_scope.
Theorem gen_categorise_mne_count : forall lo me hi c, GenObs.categorise_mne_count hi me lo c = categorise lo me hi c.
Proof. reflexivity. Qed.
Theorem gen_categorise_num_executions : forall lo me hi c, GenObs.categorise_num_executions hi me lo c = categorise lo me hi c.
Proof. reflexivity. Qed.
Theorem gen_categorise_num_access : forall lo me hi c, GenObs.categorise_num_access hi me lo c = categorise lo me hi c.
Proof. reflexivity. Qed.

(* ---- transfer: the model's theorems, stated about the functions translated from the current source -------------------- *)
From Coq Require Import Lia.
From PV Require Import Proofs.ObsProofs.

(* whatever the thresholds and the count, each translated encoder returns a member of Discrete(4), is monotone in the count
   and has exactly the documented edges when the thresholds are ordered *)
Theorem source_threshold_bins_in_Discrete4 : forall lo me hi c,
  0 <= GenObs.categorise_mne_count hi me lo c < 4 /\ 0 <= GenObs.categorise_num_executions hi me lo c < 4 /\
  0 <= GenObs.categorise_num_access hi me lo c < 4.
Proof.
  intros lo me hi c. rewrite gen_categorise_mne_count, gen_categorise_num_executions, gen_categorise_num_access.
  pose proof (categorise_in_Discrete4 lo me hi c). auto.
Qed.
Theorem source_threshold_bins_edges : forall lo me hi c, lo <= me <= hi ->
  (GenObs.categorise_mne_count hi me lo c = 0 <-> c <= lo) /\ (GenObs.categorise_mne_count hi me lo c = 1 <-> lo < c <= me) /\
  (GenObs.categorise_mne_count hi me lo c = 2 <-> me < c <= hi) /\ (GenObs.categorise_mne_count hi me lo c = 3 <-> hi < c).
Proof. intros lo me hi c H. rewrite gen_categorise_mne_count. exact (categorise_edges lo me hi c H). Qed.
Theorem source_threshold_bins_monotone : forall lo me hi c c', lo <= me <= hi -> c <= c' ->
  GenObs.categorise_num_executions hi me lo c <= GenObs.categorise_num_executions hi me lo c' /\
  GenObs.categorise_num_access hi me lo c <= GenObs.categorise_num_access hi me lo c'.
Proof.
  intros lo me hi c c' H Hc.
  rewrite (gen_categorise_num_executions lo me hi c), (gen_categorise_num_executions lo me hi c'),
          (gen_categorise_num_access lo me hi c), (gen_categorise_num_access lo me hi c').
  pose proof (categorise_monotone lo me hi c c' H Hc). auto.
Qed.
