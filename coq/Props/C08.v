(* C08 -- packets reach exactly their addressee via best routes, and forwarding ends.  Statements only. *)
From Coq Require Import ZArith List Bool.
Import ListNotations.
From PV Require Import Model.Route Proofs.RouteProofs Proofs.Propagate.
From PV Require Model.Device Proofs.DeviceProofs.
Open Scope Z_scope.

(* the chosen route is, among the routes covering the destination, one of greatest prefix length and, among those, of
   least metric (the first such in table order wins, since the comparison is strict); the default route is used only if
   no route covers the destination; None only if there is no default either -- for every table and destination *)
Theorem c08_best_route_is_longest_prefix_then_lowest_metric :
  (forall r : route, 0 <= r_plen r) -> forall routes dflt d,
  match find_best routes dflt d with
  | Some r => (In r routes /\ covers r d = true /\ forall r', In r' routes -> covers r' d = true -> beats r r')
              \/ (dflt = Some r /\ forall r', In r' routes -> covers r' d = false)
  | None => dflt = None /\ forall r', In r' routes -> covers r' d = false
  end.
Proof. exact best_route_spec. Qed.

Theorem c08_host_uses_default_gateway_off_link : forall i gw d,
  (on_link i d = true -> host_next_hop i gw d = Some d) /\ (on_link i d = false -> host_next_hop i gw d = gw).
Proof. exact host_next_hop_spec. Qed.

Theorem c08_router_uses_connected_subnet_else_best_route : forall ifs routes dflt d,
  ((exists i, In i ifs /\ on_link i d = true) -> router_next_hop ifs routes dflt d = Some d) /\
  ((forall i, In i ifs -> on_link i d = false) ->
     router_next_hop ifs routes dflt d = match find_best routes dflt d with Some r => Some (r_hop r) | None => None end).
Proof. exact router_next_hop_spec. Qed.

(* forwarding ends: if every forwarding hop lowers the TTL, the nested propagation of a frame over any wiring and any
   device models needs at most TTL+1 nesting levels (more fuel changes nothing) *)
Theorem c08_propagation_terminates :
  forall (node port frame gstate : Type) (wire : node -> port -> option (node * port))
         (handle : gstate -> node -> port -> frame -> gstate * list (port * frame) * bool)
         (ttl : frame -> nat),
  (forall s n p f s' outs d, handle s n p f = (s', outs, d) -> forall q f', In (q, f') outs -> (ttl f' < ttl f)%nat) ->
  forall k fuel1 fuel2 s n p f, (ttl f < k)%nat -> (k <= fuel1)%nat -> (k <= fuel2)%nat ->
  prop node port frame gstate wire handle fuel1 s n p f = prop node port frame gstate wire handle fuel2 s n p f.
Proof. exact propagation_terminates. Qed.

(* a payload is delivered only along a path every device of which forwards it (used with the device models of C06) *)
Theorem c08_delivery_implies_open_path :
  forall (node port frame gstate K B : Type) (wire : node -> port -> option (node * port))
         (handle : gstate -> node -> port -> frame -> gstate * list (port * frame) * bool)
         (key : frame -> K) (bstate : gstate -> B)
         (open_hop : B -> node -> port -> port -> K -> Prop) (accepts : B -> node -> port -> K -> Prop),
  (forall s n p f s' outs d, handle s n p f = (s', outs, d) ->
      bstate s' = bstate s /\
      (forall q f', In (q, f') outs -> key f' = key f /\ open_hop (bstate s) n p q (key f)) /\
      (d = true -> accepts (bstate s) n p (key f))) ->
  forall fuel s n p f s' del, prop node port frame gstate wire handle fuel s n p f = (s', del) ->
  bstate s' = bstate s /\
  forall n' p', In (n', p') del -> open_path node port K B wire open_hop accepts (bstate s) (key f) n p n' p'.
Proof. exact delivered_implies_open_path. Qed.

(* ... and the models of host, switch, router and firewall frame handling (Model/Device.v) do lower the TTL on every hop, so
   for every wiring of such devices the propagation of a frame ends within TTL+1 levels *)
Theorem c08_forwarding_ends_for_the_device_models : forall (wire : nat -> nat -> option (nat * nat)) k fuel1 fuel2 s n p f,
  (Z.to_nat (Device.f_ttl f) < k)%nat -> (k <= fuel1)%nat -> (k <= fuel2)%nat ->
  DeviceProofs.propagate wire fuel1 s n p f = DeviceProofs.propagate wire fuel2 s n p f.
Proof. exact DeviceProofs.propagation_ends. Qed.

(* non-vacuity: overlapping prefixes, a metric tie (first wins), default route as last resort *)
Example c08_example :
  run_case ([mk 167772160 4278190080 8 1 0; mk 167837696 4294901760 16 2 5; mk 167837696 4294901760 16 3 5; mk 167837696 4294901760 16 4 1],
            Some (mk 0 0 0 9 0), [167837697; 167772161; 3232235777])
  = [4; 1; 9].
Proof. vm_compute. reflexivity. Qed.
