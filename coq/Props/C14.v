(* C14 -- visible health changes only by scanning; fixes and scans take their set time.  Statements only. *)
From Coq Require Import ZArith List Bool.
Import ListNotations.
From PV Require Import Model.Software Proofs.SoftwareProofs Model.FileHealth Proofs.FileHealthProofs.
Open Scope Z_scope.

Theorem c14_software_visible_changes_only_by_scan : forall st o,
  let st' := fst (svc_step st o) in
  hv (sh (snd st')) <> hv (sh (snd st)) -> scan_op o /\ hv (sh (snd st')) = ha (sh (snd st)).
Proof. exact svc_visible_changes_only_by_scan. Qed.

Theorem c14_software_visible_is_last_scan : forall ops st, hv (sh (snd st)) = ghost (sh (snd st)) ->
  let st' := fold_left (fun x o => fst (svc_step x o)) ops st in hv (sh (snd st')) = ghost (sh (snd st')).
Proof. exact svc_visible_is_last_scan. Qed.

Theorem c14_software_true_health_changes_only_by_events : forall st o,
  let st' := fst (svc_step st o) in
  ha (sh (snd st')) <> ha (sh (snd st)) -> health_event o (ha (sh (snd st))) (ha (sh (snd st'))).
Proof. exact svc_actual_changes_only_by_events. Qed.

Theorem c14_fix_time : forall h, ha h = COMPROMISED \/ ha h = GOOD ->
  let h0 := fst (h_fix h) in let n := Z.to_nat (Z.max (fdur h) 1) in
  snd (h_fix h) = true /\ (forall k, (k < n)%nat -> ha (h_ticks k h0) = FIXING) /\ ha (h_ticks n h0) = GOOD.
Proof. exact fix_time. Qed.

(* ---- files and folders ------------------------------------------------------------------------------------------- *)
(* every file's visible health after an op is either unchanged or equals its true health at that moment; it is unchanged
   unless the op is a scan of that file or a tick in which a folder or whole-node scan completes *)
Theorem c14_file_visible_changes_only_by_scan : forall g o,
  Forall2 vis_ok (fls g) (fls (FileHealth.step g o)) /\
  ((forall i, o <> FileScan i) -> (o = FileHealth.Tick -> ~ scan_due g) -> Forall2 vis_same (fls g) (fls (FileHealth.step g o))).
Proof. exact file_visible_changes_only_by_scan. Qed.

Theorem c14_folder_visible_changes_only_by_scan : forall g o,
  gv (FileHealth.step g o) <> gv g -> o = FileHealth.Tick /\ scan_due g.
Proof. exact folder_visible_changes_only_by_scan. Qed.

Theorem c14_folder_scan_completion : forall g, scd g = 1 ->
  let g' := scan_tick g in
  Forall (fun f => fv f = fh f) (fls g') /\ gv g' = worst (fls g') /\ gh g' = gv g' /\ scd g' = 0.
Proof. exact folder_scan_completion. Qed.

Theorem c14_folder_scan_time : forall g, scd g <= 0 ->
  let g0 := FileHealth.step g FolderScan in let n := Z.to_nat (Z.max (sdur g) 1) in
  (forall k, (k < n)%nat -> scd (ticks k g0) = Z.of_nat n - Z.of_nat k) /\ scd (ticks (n - 1) g0) = 1.
Proof. exact folder_scan_time. Qed.

Theorem c14_node_scan_time : forall g,
  let g0 := FileHealth.step g NodeScan in let n := Z.to_nat (Z.max (ndur g) 1) in ncd (ticks (n - 1) g0) = 1.
Proof. exact node_scan_time. Qed.

Theorem c14_folder_restore_time : forall g, rcd g <= 0 ->
  let g0 := FileHealth.step g FolderRestore in let n := Z.to_nat (Z.max (rdur g) 1) in rcd (ticks (n - 1) g0) = 1.
Proof. exact folder_restore_time. Qed.

Theorem c14_folder_restore_completion : forall g, rcd g = 1 ->
  let g' := restore_tick g in Forall (fun f => fh f <> 3) (fls g') /\ gh g' <> 3 /\ gh g' <> 4.
Proof. exact folder_restore_completion. Qed.

Example c14_example :
  FileHealth.run_case (2, 1, 1, 1, 0, [(1, 0); (1, 0)],
     [FileCorrupt 0; FolderScan; FileHealth.Tick; FileCorrupt 1; FileHealth.Tick; FileRepair 0; NodeScan; FileHealth.Tick])
  = [1;0;3;0;1;0] ++ [1;0;3;0;1;0] ++ [1;0;3;0;1;0] ++ [1;0;3;0;3;0] ++ [3;3;3;3;3;3] ++ [3;3;1;3;3;3] ++ [3;3;1;3;3;3] ++ [3;3;1;1;3;3].
Proof. vm_compute. reflexivity. Qed.
