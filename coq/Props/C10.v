(* C10 -- reward = weighted sum of components; shared rewards use same-step values.  Statements only. *)
From Coq Require Import List Arith Bool Relations ZArith QArith.
Import ListNotations.
From PV Require Import Model.Reward Proofs.RewardProofs.

(* topological_sort puts every agent in the order, each after all the agents whose reward it shares -- for every acyclic
   sharing graph of any size *)
Theorem c10_topological_sort_is_dependencies_first : forall g fuel vis stack, acyclic g -> topo fuel g = Some (vis, stack) ->
  forall a b, In a (map fst g) -> edge g a b -> exists pre post, stack = pre ++ a :: post /\ In b pre.
Proof. exact deps_first. Qed.

(* evaluated in such an order (no agent twice), every agent's reward equals its own weighted components plus weight x
   the reward the named agent has in the SAME step (the final table), whatever the previous-step values were *)
Theorem c10_shared_reward_uses_same_step_values : forall ags order r0,
  NoDup order ->
  (forall pre a post x, order = pre ++ a :: post -> find_agent ags a = Some x -> forall t w, In (t, w) (a_shares x) -> In t pre) ->
  forall a, In a order -> final_ok ags (eval_order ags order r0) a.
Proof. exact eval_order_correct. Qed.

(* the sharing equations have one solution: the rewards do not depend on the order agents are declared or evaluated in *)
Theorem c10_rewards_independent_of_declaration_order : forall ags order r r',
  (forall pre a post x, order = pre ++ a :: post -> find_agent ags a = Some x -> forall t w, In (t, w) (a_shares x) -> In t pre) ->
  (forall a, In a order -> exists x, find_agent ags a = Some x) ->
  (forall a, In a order -> final_ok ags r a) -> (forall a, In a order -> final_ok ags r' a) ->
  forall a, In a order -> get r a == get r' a.
Proof. exact rewards_order_independent. Qed.

Theorem c10_sticky_component_holds_its_value : forall prev, sticky_step true prev None = prev.
Proof. exact sticky_holds_until_next_event. Qed.
Theorem c10_non_sticky_component_returns_to_zero : forall prev, sticky_step false prev None = 0.
Proof. exact non_sticky_returns_to_zero. Qed.
Theorem c10_qualifying_event_sets_the_value : forall sticky prev b, sticky_step sticky prev (Some b) = if b then 1 else -1.
Proof. exact event_sets_value. Qed.

Theorem c10_episode_total_is_sum_of_step_rewards : forall steps acc, total steps acc == acc + fold_right Qplus 0 steps.
Proof. exact total_is_sum. Qed.

(* non-vacuity: a triangle evaluated dependencies-first; a two-cycle rejected *)
Example c10_example :
  (run_case [(0, 2048, [(2, 4); (1, 2)]); (1, -4096, [(2, 4)]); (2, 1024, [])]
   = [1; 1536; -3072; 1024] /\
   run_case [(0, 0, [(1, 4)]); (1, 0, [(0, 4)])] = [-1])%Z.
Proof. vm_compute. split; reflexivity. Qed.
