(* C09 -- observations faithfully encode the simulation's ground truth.  Statements only. *)
From Coq Require Import ZArith List Bool.
Import ListNotations.
From PV Require Import Model.Obs Proofs.ObsProofs Model.Nmne Proofs.NmneProofs.
Open Scope Z_scope.

(* documented bin edges of the threshold encoders, and monotonicity *)
Theorem c09_threshold_bins_have_the_documented_edges : forall lo me hi c, lo <= me <= hi ->
  (categorise lo me hi c = 0 <-> c <= lo) /\ (categorise lo me hi c = 1 <-> lo < c <= me) /\
  (categorise lo me hi c = 2 <-> me < c <= hi) /\ (categorise lo me hi c = 3 <-> hi < c).
Proof. exact categorise_edges. Qed.
Theorem c09_threshold_bins_monotone : forall lo me hi c c', lo <= me <= hi -> c <= c' -> categorise lo me hi c <= categorise lo me hi c'.
Proof. exact categorise_monotone. Qed.
Theorem c09_link_band_zero_iff_idle : forall l b, 0 <= l -> 0 < b -> (link_band l b = 0 <-> l = 0).
Proof. exact link_band_zero_iff. Qed.

(* visible health exactly when scanning is required, true health otherwise *)
Theorem c09_visible_or_true_health_selection : forall rs s,
  svc_observe rs (Some s) = ODict [(k_op, OInt (s_op s)); (k_health, OInt (if rs then s_visible s else s_actual s))].
Proof. exact svc_health_selection. Qed.

(* all components of a node that is not ON read as the default encoding, the power state itself stays visible *)
Theorem c09_node_not_on_reads_default : forall c h, h_power h <> 1 ->
  host_observe c h = ODict [(k_status, OInt (h_power h));
                            (k_services, ODict (enum_from 1 (map (fun _ => svc_default) (svc_slots c))));
                            (k_apps, ODict (enum_from 1 (map (fun _ => app_default) (app_slots c))))].
Proof. exact host_off_reads_default. Qed.

(* slot alignment: entry j + i of a slot dictionary numbered from j is the i-th configured component (nothing is shifted
   or dropped, the first included) *)
Theorem c09_slot_alignment : forall (A : Type) (l : list A) (i : nat) a, nth_error l i = Some a ->
  forall j, In (KInt (j + Z.of_nat i), a) (enum_from j l).
Proof. exact @slot_alignment. Qed.

(* the NMNE leaf of an interface is the bin of the number of malicious frames captured, per direction, since the previous
   observation of that interface made while its host was ON (frames captured while the host was observed as not ON count
   towards the next observation); a host that is not ON reads the default *)
Theorem c09_nmne_leaf_counts_events_since_the_last_observation : forall lo me hi s ops,
  synced s -> no_on_observation ops ->
  snd (nstep lo me hi (nrun lo me hi s ops) (Observe true)) =
  [categorise lo me hi (count_dir true ops); categorise lo me hi (count_dir false ops)] /\
  synced (fst (nstep lo me hi (nrun lo me hi s ops) (Observe true))).
Proof. exact observation_counts_events_since_last. Qed.
Theorem c09_nmne_leaf_of_a_host_that_is_not_on_is_the_default : forall lo me hi s, nstep lo me hi s (Observe false) = (s, [0; 0]).
Proof. exact off_observation_is_default. Qed.

Example c09_example :
  host_observe {| svc_scan := true; app_scan := false; thr := (0, 5, 10); svc_slots := [Some 1%nat; None]; app_slots := [] |}
               {| h_power := 1; h_services := fun _ => Some {| s_op := 1; s_actual := 3; s_visible := 1 |}; h_apps := fun _ => None |}
  = ODict [(k_status, OInt 1); (k_services, ODict [(KInt 1, ODict [(k_op, OInt 1); (k_health, OInt 1)]); (KInt 2, svc_default)]); (k_apps, ODict [])].
Proof. vm_compute. reflexivity. Qed.
