(* C15 -- the file system stays structurally consistent under any operation sequence. *)
From Coq Require Import ZArith List Bool.
Import ListNotations.
From PV Require Import Model.Fs Proofs.FsProofs.
Open Scope Z_scope.

(* in every reachable state, for every sequence of file-system requests and ticks: within every folder live file names
   are unique, no file is both live and deleted or listed twice, the deleted flag agrees with membership of the
   deleted set; the same for folders (see the records FInv and SInv) *)
Theorem c15_invariant_every_reachable_state : forall ops, SInv (run init ops).
Proof. exact fs_inv_reachable. Qed.

Theorem c15_invariant_preserved_by_every_operation : forall s o, SInv s -> SInv (fst (step s o)).
Proof. exact step_inv. Qed.

Theorem c15_delete_moves_to_deleted_set : forall nx g n f, FInv nx g -> find_name n (live g) = Some f ->
  let g' := fst (g_delete g n) in ~ In (fid f) (ids (live g')) /\ In (fid f) (ids (dead g')).
Proof. exact delete_moves_to_deleted. Qed.

Theorem c15_restore_moves_back_to_live_set : forall nx g n f, FInv nx g -> find_name n (live g) = None ->
  find_name n (dead g) = Some f ->
  let g' := fst (g_restore g n) in In (fid f) (ids (live g')) /\ ~ In (fid f) (ids (dead g')).
Proof. exact restore_moves_back. Qed.

Theorem c15_deleted_file_unavailable : forall s gn n g,
  find_folder gn (folders s) = Some g -> find_name n (live g) = None -> step s (DeleteFile gn n) = (s, Failure).
Proof. exact deleted_file_unavailable. Qed.

(* ... also while the node is not ON, when nothing else progresses *)
Theorem c15_counters_zero_at_tick_start_while_off : forall s, ncreate (fst (step s TickOff)) = 0 /\ ndelete (fst (step s TickOff)) = 0 /\
  folders (fst (step s TickOff)) = folders s /\ dfolders (fst (step s TickOff)) = dfolders s.
Proof. exact counters_zero_at_tick_start_off. Qed.

Theorem c15_counters_zero_at_tick_start : forall s, ncreate (fst (step s Tick)) = 0 /\ ndelete (fst (step s Tick)) = 0.
Proof. exact counters_zero_at_tick_start. Qed.

Theorem c15_create_existing_file_refused_and_changes_nothing : forall s gn n g f,
  find_folder gn (folders s) = Some g -> find_name n (live g) = Some f -> step s (CreateFile gn n false) = (s, Failure).
Proof. exact create_existing_file_refused. Qed.

Theorem c15_create_existing_folder_is_noop : forall s n g,
  find_folder n (folders s) = Some g -> step s (CreateFolder n) = (s, Success).
Proof. exact create_existing_folder_noop. Qed.

(* non-vacuity: delete, re-create, restore on the same name *)
Example c15_example :
  run_case [CreateFile 1 7 false; DeleteFile 1 7; CreateFile 1 7 false; RestoreFile 1 7; CreateFile 1 7 false]
  = [1; -10;0;0;-11;-12; -10;1;0;-11;7;0;-12; -20; -30;1;0] ++ [1; -10;0;0;-11;-12; -10;1;0;-11;-12;7;1; -20; -30;1;1] ++
    [1; -10;0;0;-11;-12; -10;1;0;-11;7;0;-12;7;1; -20; -30;2;1] ++ [1; -10;0;0;-11;-12; -10;1;0;-11;7;0;-12;7;1; -20; -30;2;1] ++
    [2; -10;0;0;-11;-12; -10;1;0;-11;7;0;-12;7;1; -20; -30;2;1].
Proof. vm_compute. reflexivity. Qed.
