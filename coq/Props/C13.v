(* C13 -- services and applications follow their lifecycle; only running software works.
   Statements only; proofs in Proofs/SoftwareProofs.v. *)
From Coq Require Import ZArith List Bool.
Import ListNotations.
From PV Require Import Model.Software Proofs.SoftwareProofs.
Open Scope Z_scope.

(* the permission rule on each service request is exactly its documented source state *)
Theorem c13_guard_is_documented_source_state : forall s v, svc_guard s v = true <-> documented_source v (so s).
Proof. exact svc_guard_iff. Qed.

(* a request is accepted exactly in its documented source states on a powered-on node and then makes the documented
   transition; otherwise it is refused and changes nothing *)
Theorem c13_service_request_accepted_iff_source_state : forall on s v,
  (on = true /\ documented_source v (so s) ->
     so (snd (fst (svc_step (on, s) (Req v)))) = svc_target v (so s) /\ fst (fst (svc_step (on, s) (Req v))) = on) /\
  (~ (on = true /\ documented_source v (so s)) -> svc_step (on, s) (Req v) = ((on, s), 2)).
Proof. exact svc_request_spec. Qed.

(* every change of operating state, under any op, is a documented transition *)
Theorem c13_service_moves_only_along_documented_transitions : forall st o,
  svc_move_ok o (so (snd st)) (so (snd (fst (svc_step st o)))).
Proof. exact svc_moves_documented. Qed.

Theorem c13_application_requests : forall on a v, (v = Scan \/ v = Close \/ v = Fix) ->
  (on = true /\ ao a = A_RUNNING -> fst (fst (app_step (on, a) (Req v))) = on /\
       ao (snd (fst (app_step (on, a) (Req v)))) = match v with Close => A_CLOSED | _ => A_RUNNING end) /\
  (~ (on = true /\ ao a = A_RUNNING) -> app_step (on, a) (Req v) = ((on, a), 2)).
Proof. exact app_request_spec. Qed.

(* timed transitions complete after the configured number of ticks *)
Theorem c13_restart_time : forall s, so s = S_RUNNING -> 0 <= rdur s ->
  let s0 := fst (svc_do s Restart) in
  (forall k, Z.of_nat k <= rdur s -> so (svc_ticks k s0) = S_RESTARTING) /\
  so (svc_ticks (S (Z.to_nat (rdur s))) s0) = S_RUNNING.
Proof. exact restart_time. Qed.

Theorem c13_install_time : forall a, ao a = A_CLOSED ->
  let a0 := snd (fst (app_step (true, a) Install)) in
  let n := Z.to_nat (Z.max (idur a) 1) in
  (forall k, (k < n)%nat -> ao (app_ticks k a0) = A_INSTALLING) /\
  ao (app_ticks n a0) = A_RUNNING /\ ha (ah (app_ticks n a0)) = GOOD.
Proof. exact install_time. Qed.

Example c13_example :
  run_case (true, 1, 1, 0, 2, 1, [Req Restart; Req Disable; Tick; Tick; Tick; Req Enable; Req Start; Req Compromise; Req Fix; Tick])
  = [1;6;1;0] ++ [1;4;1;0] ++ [1;4;1;0] ++ [1;4;1;0] ++ [1;4;1;0] ++ [1;2;1;0] ++ [1;1;1;0] ++ [1;1;3;0] ++ [1;1;2;0] ++ [1;1;1;0].
Proof. vm_compute. reflexivity. Qed.
