(* C17 -- database: password-gated connections, connection-gated queries, restorable data.  Statements only; proofs in
   Proofs/DatabaseProofs.v; the model is Model/Database.v (service lifecycle from Model/Software.v). *)
From Coq Require Import ZArith List Bool.
Import ListNotations.
From PV Require Import Model.Software Model.Database Proofs.DatabaseProofs.
Open Scope Z_scope.

(* a connect request is answered 200 exactly when the node is on, the service running and of health GOOD / FIXING /
   COMPROMISED, the password is the configured one, and there is a free slot; then exactly one fresh connection id is added,
   otherwise the connection table is unchanged *)
Theorem c17_connect_only_with_password_running_and_capacity : forall d pw, let '(d', r) := dstep d (Connect pw) in
  (r = 200 <-> connect_allowed d pw) /\
  (r = 200 -> d_conns d' = d_conns d ++ [d_next d] /\ d_next d' = d_next d + 1 /\ d_file d' = d_file d /\ d_st d' = d_st d) /\
  (r <> 200 -> d_conns d' = d_conns d /\ d_next d' = d_next d /\ d_file d' = d_file d).
Proof. exact connect_spec. Qed.

(* in every reachable state live connection ids are distinct, were issued (below the counter) and respect the capacity *)
Theorem c17_connection_table_invariant : forall d ops, Inv d -> Inv (drun d ops).
Proof. exact inv_reachable. Qed.

(* a query is served (200) only on a live connection of a running service of good health on a powered-on node with the file
   present; DELETE compromises and ENCRYPT corrupts the stored file, reads leave it alone, anything not served changes nothing *)
Theorem c17_queries_only_on_live_connections : forall d cid q, let '(d', r) := dstep d (Query cid q) in
  (r = 200 -> In cid (d_conns d) /\ node_on d = true /\ running d = true /\ hlth d = GOOD /\ d_file d <> 0 /\
              d_conns d' = d_conns d /\ d_st d' = d_st d /\
              match q with
              | DELETE => d_file d' = 2
              | ENCRYPT => d_file d' = 3
              | SELECT => d_file d' = d_file d /\ (d_file d = 1 \/ d_file d = 3)
              | UNKNOWN => False
              | _ => d_file d' = d_file d
              end) /\
  (r <> 200 -> d' = d).
Proof. exact query_spec. Qed.

(* a connection id the server has closed, or an id it has not issued yet handed out, is never live again, whatever follows *)
Theorem c17_closed_connections_stay_closed : forall ops d c, Inv d -> ~ In c (d_conns d) -> c < d_next d -> ~ In c (d_conns (drun d ops)).
Proof. exact closed_stays_closed. Qed.

(* reads of compromised data fail *)
Theorem c17_reads_of_compromised_data_fail : forall d cid, d_file d = 2 -> snd (dstep d (Query cid SELECT)) <> 200.
Proof. exact compromised_reads_fail. Qed.

(* ... until it is restored: the file's health changes only by a served DELETE / ENCRYPT, a restore (explicit or at the end of
   a fix), or deletion of the file *)
Theorem c17_file_health_changes_only_by : forall d o, d_file (fst (dstep d o)) <> d_file d ->
  match o with
  | Query c DELETE | Query c ENCRYPT => snd (dstep d o) = 200
  | Restore => snd (dstep d o) = 1
  | FileDelete => True
  | Sw Tick => hlth d = FIXING
  | _ => False
  end.
Proof. exact file_changes_only_by. Qed.

(* backup copies the current health; restore installs the copy and sets the service's health GOOD; a backup taken while the
   data was healthy therefore restores to good health *)
Theorem c17_restore_of_a_healthy_backup_is_healthy : forall d1 d2,
  d_file d1 = 1 -> snd (dstep d1 Backup) = 1 ->
  d_backup d2 = d_backup (fst (dstep d1 Backup)) -> snd (dstep d2 Restore) = 1 ->
  d_file (fst (dstep d2 Restore)) = 1 /\ hlth (fst (dstep d2 Restore)) = GOOD.
Proof. exact good_backup_restores_good. Qed.

(* while the service is stopped / paused / restarting or its node is off: no connect, query, disconnect, backup or restore is
   served, and nothing changes *)
Theorem c17_unavailable_service_serves_nothing : forall d, can_act d = false ->
  (forall pw, dstep d (Connect pw) = (d, -1)) /\ (forall c q, dstep d (Query c q) = (d, -1)) /\
  (forall c o, dstep d (Disconnect c o) = (d, -1)) /\ dstep d Backup = (d, 0) /\ dstep d Restore = (d, 0).
Proof. exact unavailable_serves_nothing. Qed.

(* non-vacuity: wrong then right password; DELETE on the live connection compromises; SELECT then fails; a disconnect closes
   the id and a later DELETE with it is refused; backup of damaged data + restore does not repair; healthy backup does *)
Example c17_example :
  run_case (mkdb 1 1 1 1 2 (Some 7) 2 1 1,
            [Backup; Connect (Some 8); Connect (Some 7); Query 0 DELETE; Query 0 SELECT; Disconnect 0 true; Query 0 ENCRYPT; Restore; Sw (Req Stop); Connect (Some 7)])
  = [1; 1;1;1;0;1;1;  401; 1;1;1;0;1;1;  200; 1;1;1;1;1;1;  200; 1;1;1;1;2;1;  404; 1;1;1;1;2;1;  500; 1;1;1;0;2;1;  401; 1;1;1;0;2;1;
     1; 1;1;1;0;1;1;  1; 1;2;1;0;1;1;  -1; 1;2;1;0;1;1].
Proof. vm_compute. reflexivity. Qed.
Example c17_invariant_holds_initially : Inv (mkdb 1 1 1 2 2 (Some 7) 3 1 1).
Proof. exact inv_init. Qed.
