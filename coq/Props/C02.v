(* C02 -- every observation is a member of the declared observation space.  Statements only. *)
From Coq Require Import ZArith List Bool.
Import ListNotations.
From PV Require Import Model.Obs Proofs.ObsProofs.
Open Scope Z_scope.

(* leaf encoders stay inside their Discrete ranges for EVERY count, traffic value and load *)
Theorem c02_threshold_bins_in_Discrete4 : forall lo me hi c, 0 <= categorise lo me hi c < 4.
Proof. exact categorise_in_Discrete4. Qed.
Theorem c02_traffic_band_in_Discrete11 : forall t s, 0 <= t -> 0 < s -> 0 <= traffic_band t s < 11.
Proof. exact traffic_band_in_Discrete11. Qed.
Theorem c02_link_band_in_Discrete11 : forall l b, 0 <= l -> 0 < b -> 0 <= link_band l b < 11.
Proof. exact link_band_in_Discrete11. Qed.
Theorem c02_file_counts_in_Discrete4 : forall c, 0 <= c -> 0 <= clamp3 c < 4.
Proof. exact clamp3_in_Discrete4. Qed.

(* components, for every value of the simulator's enums and absent components *)
Theorem c02_service_in_space : forall rs st, (forall s, st = Some s -> svc_valid s) -> contains svc_space (svc_observe rs st) = true.
Proof. exact svc_in_space. Qed.
Theorem c02_application_in_space : forall rs lo me hi st, (forall s, st = Some s -> app_valid s) ->
  contains app_space (app_observe rs lo me hi st) = true.
Proof. exact app_in_space. Qed.
Theorem c02_file_in_space : forall rs wa lo me hi st, (forall s, st = Some s -> file_valid s) ->
  contains (file_space wa) (file_observe rs wa lo me hi st) = true.
Proof. exact file_in_space. Qed.
Theorem c02_interface_in_space : forall lo me hi st, contains nic_space (nic_observe lo me hi st) = true.
Proof. exact nic_in_space. Qed.

(* a host with any number of configured and padded slots, whatever its power state, is in its declared space; the space
   depends on the configuration only *)
Theorem c02_host_in_space : forall c h, host_valid h -> contains (host_space c) (host_observe c h) = true.
Proof. exact host_in_space. Qed.

Example c02_example :
  run_case (1, [0; 5; 10; 11]) = [3] /\ run_case (2, [153600; 102400]) = [10] /\ run_case (3, [0; 100]) = [0] /\ run_case (4, [5]) = [3].
Proof. vm_compute. repeat split; reflexivity. Qed.
