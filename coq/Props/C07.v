(* C07 -- ACL verdict = first matching rule by position, else the implicit action.
   Only statements, each closed by `exact`; proofs live in Proofs/AclProofs.v. *)
From Coq Require Import ZArith List Bool.
Import ListNotations.
From PV Require Import Model.Acl Proofs.AclProofs.
Open Scope Z_scope.

(* the boolean matcher of the code decides exactly "every specified field matches" *)
Theorem c07_matches_iff_all_specified_fields_match :
  forall r p, matches r p = true <-> rule_matches r p.
Proof. exact matches_spec. Qed.

(* a wildcard mask selects exactly the bits that are ignored *)
Theorem c07_wildcard_is_bitwise : forall ip base wc,
  ip_matches_masked_range ip base wc = true <->
  forall n, 0 <= n -> Z.testbit wc n = false -> Z.testbit ip n = Z.testbit base n.
Proof. exact masked_range_bits. Qed.

(* verdict: lowest-positioned matching rule, else the implicit action -- for every rule list and packet *)
Theorem c07_verdict_is_first_match : forall s p,
  let '(b, oi, _) := is_permitted s p in
  match oi with
  | Some i => exists r, first_match (a_rules s) p i r /\ b = permitted_b (r_action r)
  | None => no_match (a_rules s) p /\ b = permitted_b (r_action (a_implicit s))
  end.
Proof. exact is_permitted_spec. Qed.

(* hit counter: exactly the deciding rule (or the implicit rule) is incremented, nothing else changes *)
Theorem c07_only_deciding_counter_changes : forall s p,
  let '(_, oi, s') := is_permitted s p in
  length (a_rules s') = length (a_rules s) /\ a_max s' = a_max s /\
  match oi with
  | Some i => exists r, nth_error (a_rules s) i = Some (Some r) /\ a_implicit s' = a_implicit s /\
                        nth_error (a_rules s') i = Some (Some (bump r)) /\
                        forall j, j <> i -> nth_error (a_rules s') j = nth_error (a_rules s) j
  | None => a_rules s' = a_rules s /\ a_implicit s' = bump (a_implicit s)
  end.
Proof. exact is_permitted_frame. Qed.

(* add / remove change only the addressed position and never fail inside the bounds *)
Theorem c07_add_rule_changes_only_its_position : forall s pos r, wf s ->
  let '(oc, s') := add_rule s pos r in
  if in_bounds s pos
  then oc = Done /\ wf s' /\ a_implicit s' = a_implicit s /\
       nth_error (a_rules s') (Z.to_nat pos) = Some (Some r) /\
       forall j, j <> Z.to_nat pos -> nth_error (a_rules s') j = nth_error (a_rules s) j
  else oc = ValueError /\ s' = s.
Proof. exact add_rule_frame. Qed.

Theorem c07_remove_rule_changes_only_its_position : forall s pos, wf s ->
  let '(oc, s') := remove_rule s pos in
  if in_bounds s pos
  then oc = Done /\ wf s' /\ a_implicit s' = a_implicit s /\
       nth_error (a_rules s') (Z.to_nat pos) = Some None /\
       forall j, j <> Z.to_nat pos -> nth_error (a_rules s') j = nth_error (a_rules s) j
  else oc = ValueError /\ s' = s.
Proof. exact remove_rule_frame. Qed.

(* the well-formedness hypothesis above holds in every reachable state *)
Theorem c07_wf_every_reachable_state : forall imp m ops, 1 <= m -> wf (fst (run_ops (acl_init imp m) ops)).
Proof. exact wf_reachable. Qed.

Theorem c07_shadowing : forall s p i j ri rj,
  nth_error (a_rules s) i = Some (Some ri) -> nth_error (a_rules s) j = Some (Some rj) ->
  (i < j)%nat -> rule_matches ri p -> fst (fst (is_permitted s p)) = permitted_b (r_action ri) \/
  exists k rk, (k < i)%nat /\ nth_error (a_rules s) k = Some (Some rk) /\ rule_matches rk p.
Proof. exact shadowing. Qed.

(* non-vacuity: a concrete list with a shadowed rule, a wildcard rule and port 0 *)
Example c07_example :
  run_case (2, 25, [Add 3 (mk 1 (Some 1) (Some 3232235776) (Some 255) None None None (Some 80));
                    Add 1 (mk 2 None None None None None (Some 0) None);
                    Check (mkp 1 3232235786 167772161 (Some 5000) (Some 80));
                    Check (mkp 1 3232235786 167772161 (Some 0) (Some 80));
                    Check (mkp 3 1 2 None None); Add 24 (mk 1 None None None None None None None)])
  = [1; 1; 1; 3; 0; 1; 0; -1; -2] ++
    [-1; 1; -1; 1; -1; -1; -1; -1; -1; -1; -1; -1; -1; -1; -1; -1; -1; -1; -1; -1; -1; -1; -1; -1; 1].
Proof. vm_compute. reflexivity. Qed.
