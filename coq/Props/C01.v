(* C01 -- stepping / resetting keeps the episode contract.  Statements only; proofs in Proofs/EpisodeProofs.v; the model of the
   bookkeeping is Model/Episode.v.  That a step never raises is a statement about the code: the model of request dispatch is
   total (C05), the rest of that clause is checked by exploration (see the evidence). *)
From Coq Require Import ZArith List Bool.
Import ListNotations.
From PV Require Import Model.Episode Proofs.EpisodeProofs.
Open Scope Z_scope.

Theorem c01_after_k_steps_tick_history_and_total : forall rs e0,
  let e := run (reset e0) (steps_only rs) in
  e_tick e = Z.of_nat (length rs) /\ Forall (fun h => h = Z.of_nat (length rs)) (e_hist e) /\ e_total e = fold_right Z.add 0 rs /\
  length (e_hist e) = length (e_hist e0).
Proof. exact after_k_steps. Qed.

Theorem c01_truncated_exactly_when_the_maximum_is_reached : forall rs e0, 0 < e_max e0 ->
  truncated (run (reset e0) (steps_only rs)) = true <-> e_max e0 <= Z.of_nat (length rs).
Proof. exact truncated_exactly_at_max. Qed.
Theorem c01_first_truncation_is_at_the_maximum : forall rs e0, 0 < e_max e0 -> (Z.of_nat (length rs) <= e_max e0) ->
  (truncated (run (reset e0) (steps_only rs)) = true <-> Z.of_nat (length rs) = e_max e0).
Proof. exact first_truncation_is_at_max. Qed.

Theorem c01_reset_starts_a_clean_episode : forall e0 ops,
  let e := reset (run e0 ops) in
  e_tick e = 0 /\ e_total e = 0 /\ Forall (fun h => h = 0) (e_hist e) /\ truncated e = (e_max e <=? 0) /\ e_episode e = e_episode (run e0 ops) + 1.
Proof. exact reset_starts_a_clean_episode. Qed.

Theorem c01_each_step_is_one_tick_and_one_record_per_agent : forall e r,
  e_tick (step e r) = e_tick e + 1 /\ e_hist (step e r) = map (fun h => h + 1) (e_hist e) /\ e_episode (step e r) = e_episode e.
Proof. exact step_advances_one_tick. Qed.

(* non-vacuity: 3 agents, maximum 4: an abandoned episode of 2 steps, a reset, then 5 steps *)
Example c01_example :
  run_case (4, 3, [Step 5; Step (-2); Reset; Step 1; Step 1; Step 1; Step 1; Step 1])
  = [1;0;5;0;1;1;1;  2;0;3;0;2;2;2;  0;0;0;1;0;0;0;  1;0;1;1;1;1;1;  2;0;2;1;2;2;2;  3;0;3;1;3;3;3;  4;1;4;1;4;4;4;  5;1;5;1;5;5;5].
Proof. vm_compute. reflexivity. Qed.
