(* C05 -- requests resolve to a documented status; refused requests change nothing.
   The theorems quantify over every state type, key type, tree shape, validator and handler. *)
From Coq Require Import ZArith List Bool.
Import ListNotations.
From PV Require Import Model.ReqTree Proofs.ReqTreeProofs.

Section C05.
  Variables (St Key : Type) (key_eqb : Key -> Key -> bool).
  Hypothesis key_eqb_eq : forall a b, key_eqb a b = true <-> a = b.

  (* every answer is classified: unreachable (empty request / unknown key), failure (first false validator),
     or whatever the handler at the end of the path returns *)
  Theorem c05_every_answer_is_classified : forall (t : rtree St Key) r s,
    answer_spec St Key t r s (dispatch key_eqb t r s).
  Proof. exact (dispatch_answer_spec St Key key_eqb key_eqb_eq). Qed.

  (* a request that does not reach a handler leaves the state exactly as it was and is never 'success' *)
  Theorem c05_refused_requests_change_nothing : forall (t : rtree St Key) r s,
    ~ reaches St Key t r s ->
    fst (dispatch key_eqb t r s) = s /\
    (snd (dispatch key_eqb t r s) = Failure \/ snd (dispatch key_eqb t r s) = Unreachable).
  Proof. exact (dispatch_refused_frame St Key key_eqb key_eqb_eq). Qed.

  (* a request whose path exists and whose validators all hold is handed to that component's handler *)
  Theorem c05_reaching_requests_are_routed_to_the_handler : forall (t : rtree St Key) r s,
    reaches St Key t r s -> exists (h : handler St Key) (opts : list Key), dispatch key_eqb t r s = h opts s.
  Proof. exact (dispatch_reaches_invokes St Key key_eqb key_eqb_eq). Qed.
End C05.

(* non-vacuity: a two-level tree with a guarded edge; one refused, one unknown, one reaching request *)
Example c05_example :
  let t := DMgr [(1, (true, DMgr [(7, (false, DLeaf 70 1)); (8, (true, DLeaf 80 2))])); (2, (true, DLeaf 20 1))] in
  (run_case (t, [1; 7]), run_case (t, [1; 9]), run_case (t, [1; 8; 5]), run_case (t, [1]))%Z
  = ([2; 0; -1; 0], [3; 0; -1; 0], [2; 1; 80; 1], [3; 0; -1; 0])%Z.
Proof. vm_compute. reflexivity. Qed.
