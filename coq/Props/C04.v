(* C04 -- episodes and environment instances are isolated from one another.  What a theorem carries of it: the model of the
   class-level NMNE settings that every build assigns.  A reset after any history sees what a fresh process would see
   (c04_reset_behaves_like_a_fresh_environment); two live instances do interfere (c04_live_instances_interfere_refuted, a known
   finding).  Isolation of everything else (files, rules, sessions, software, power, caches, counters, agent memory) is decided by
   the differential runs of the harness in separate processes; recorded as partial. *)
From Coq Require Import ZArith List Bool.
Import ListNotations.
From PV Require Import Model.Isolation Proofs.IsolationProofs.
Open Scope Z_scope.

Theorem c04_after_a_build_every_step_sees_its_own_scenario_settings : forall ops p i c,
  Forall no_build ops -> Forall (fun v => v = wanted c) (itrace (fst (istep p (Build i c))) ops).
Proof. exact after_build_steps_see_own_settings. Qed.

Theorem c04_reset_behaves_like_a_fresh_environment : forall ops p i c, Forall no_build ops ->
  itrace (fst (istep p (Build i c))) ops = itrace (fst (istep fresh (Build i c))) ops.
Proof. exact reset_equals_fresh. Qed.

(* the full statement -- also for two live instances -- is false of the faithful model *)
Theorem c04_live_instances_interfere_refuted : exists c0 c1,
  itrace fresh [Build 0 c0; Step 0; Build 1 c1; Step 0] <> itrace fresh [Build 0 c0; Step 0; Step 0].
Proof. exact live_instances_interfere_refuted. Qed.

Example c04_example : Isolation.run_case [Build 0 (Some 1); Step 0; Close 0; Build 1 None; Step 1; Build 0 (Some 1); Step 1] = [1; 1; 0; 0; 1; 1].
Proof. vm_compute. reflexivity. Qed.
