(* C16 -- logins need valid credentials; remote commands need a live session.  Statements only. *)
From Coq Require Import ZArith List Bool.
Import ListNotations.
From PV Require Import Model.Session Proofs.SessionProofs.
Open Scope Z_scope.

Theorem c16_authentication_means_valid_credentials : forall s n p, auth s n p = true ->
  on s = true /\ exists u, In u (users s) /\ uname u = n /\ udis u = false /\ upw u = p.
Proof. exact auth_spec. Qed.

Theorem c16_login_needs_valid_credentials_and_free_session_slot : forall s o s', step s o = (s', true) ->
  match o with
  | LocalLogin n p => auth s n p = true
  | RemoteLogin n p | RemoteLoginDirect n p => auth s n p = true /\ Z.of_nat (length (rem s)) < maxrem s
  | _ => True
  end.
Proof. exact login_sound. Qed.

Theorem c16_remote_session_limit_every_reachable_state : forall m tl tr ops, 0 <= m -> lim (run (init m tl tr) ops).
Proof. exact lim_reachable. Qed.

Theorem c16_command_runs_only_on_a_live_session : forall s i,
  (snd (step s (Command i)) = true -> on s = true /\ exists x, In x (rem s) /\ sid x = i /\ sconn x = true) /\
  (snd (step s (Command i)) = false -> fst (step s (Command i)) = s).
Proof. exact command_requires_live_session. Qed.

Theorem c16_logout_ends_the_session : forall s i,
  snd (step s (RemoteLogout i)) = true -> ~ has_session (fst (step s (RemoteLogout i))) i.
Proof. exact logout_ends_session. Qed.

Theorem c16_password_change_ends_all_sessions_of_the_user : forall s n c new, snd (step s (ChangePw n c new)) = true ->
  let s' := fst (step s (ChangePw n c new)) in
  (forall x, In x (rem s') -> suser x <> n) /\ (forall x, loc s' = Some x -> suser x <> n).
Proof. exact password_change_ends_sessions. Qed.

Theorem c16_inactivity_timeout_boundary : forall s t,
  let s' := fst (step s (Tick t)) in
  (forall x, In x (rem s') -> t < slast x + tmo_r s) /\ (forall x, loc s' = Some x -> t < slast x + tmo_l s) /\
  (forall x, In x (rem s) -> t < slast x + tmo_r s -> In x (rem s')).
Proof. exact timeout_ends_sessions. Qed.

Theorem c16_last_enabled_admin_never_disabled : forall m tl tr ops,
  exists u, In u (users (run (init m tl tr) ops)) /\ uadmin u = true /\ udis u = false.
Proof. exact last_admin_kept. Qed.

Example c16_example :
  run_case (3, 30, 4, [RemoteLogin 0 0; Command 0; Tick 1; Tick 4; Command 0; Tick 8; Command 0; RemoteLogin 0 7; ChangePw 0 0 5; RemoteLogin 0 5; Command 1])
  = [1; 0; 0; 1; 0; -1; -1; -2; 0; 0; -9; 1; 0; 0; 1; 0; -1; -1; -2; 0; 0; -9; 1; 0; 0; 1; 0; -1; -1; -2; 0; 0; -9;
     1; 0; 0; 1; 0; -1; -1; -2; -9; 0; 0; 0; 1; 0; -1; -1; -2; -9; 1; 0; 0; 1; 0; -1; -1; -2; -9; 0; 0; 0; 1; 0; -1; -1; -2; -9;
     0; 0; 0; 1; 0; -1; -1; -2; -9; 1; 0; 5; 1; 0; -1; -1; -2; -9; 1; 0; 5; 1; 0; -1; -1; -2; 1; 0; -9; 1; 0; 5; 1; 0; -1; -1; -2; 1; 0; -9].
Proof. vm_compute. reflexivity. Qed.
