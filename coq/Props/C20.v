(* C20 -- the simulation built from a scenario file is what the file says.  Statements only; proofs in Proofs/BuildProofs.v;
   the model of scenario loading is Model/Build.v (rows of the declared inventory), its identifiers Model/BuildKeys.v. *)
From Coq Require Import ZArith List Bool Permutation.
Import ListNotations.
From PV Require Import Model.BuildKeys Model.Build Model.Acl Proofs.AclProofs Proofs.BuildProofs.
Open Scope Z_scope.

(* scenario files that differ only in the order of keys within mappings -- at any depth -- declare the same inventory:
   sorting every mapping by key does not change the multiset of rows, for every well-formed scenario tree *)
Theorem c20_key_order_is_irrelevant_to_the_inventory : forall c, wfb c = true -> Permutation (build (canon c)) (build c).
Proof. exact build_canon. Qed.
Theorem c20_scenarios_equal_up_to_key_order_declare_the_same : forall c c',
  wfb c = true -> wfb c' = true -> canon c = canon c' -> Permutation (build c) (build c').
Proof. exact key_order_irrelevant. Qed.

(* rules loaded from a position-keyed mapping (distinct, in-range positions), in whatever order the mapping lists them, sit at
   exactly their stated positions and leave every other position as it was *)
Theorem c20_acl_rules_sit_at_their_stated_positions : forall ents s,
  wf s -> NoDup (map fst ents) -> (forall e, In e ents -> in_bounds s (fst e) = true) ->
  wf (load_acl s ents) /\ a_max (load_acl s ents) = a_max s /\
  (forall p r, In (p, r) ents -> nth_error (a_rules (load_acl s ents)) (Z.to_nat p) = Some (Some r)) /\
  (forall j, (forall e, In e ents -> Z.to_nat (fst e) <> j) -> nth_error (a_rules (load_acl s ents)) j = nth_error (a_rules s) j).
Proof. exact load_acl_positions. Qed.

(* every route of the scenario's list is a row of the table, at its index; nothing is merged or dropped *)
Theorem c20_every_declared_route_is_in_the_table_in_order : forall host l i k r, nth_error l k = Some r ->
  nth_error (route_rows host i l) k =
  Some [4; host; i + Z.of_nat k; scalar K_address (-1) r; scalar K_subnet_mask MASK24 r; scalar K_next_hop_ip_address (-1) r; scalar K_metric 0 r].
Proof. exact route_rows_complete. Qed.
Theorem c20_route_table_has_one_entry_per_declared_route : forall host l i, length (route_rows host i l) = length l.
Proof. exact route_rows_length. Qed.

(* non-vacuity: a router with ports, an ACL rule at 5 (plus the default ARP / ICMP permits), two routes to one prefix; the
   same scenario with every mapping's keys reversed has the same canonical form and the same sorted inventory *)
Definition ex_router (rev : bool) : cfg :=
  let o {A} (l : list A) := if rev then List.rev l else l in
  CMap (o [(K_simulation, CMap [(K_network, CMap (o [(K_nodes, CList [CMap (o [
     (K_hostname, CInt 1000); (K_type, CInt T_router);
     (K_ports, CMap (o [(1, CMap (o [(K_ip_address, CInt 167772417); (K_subnet_mask, CInt 4294967040)])); (2, CMap [(K_ip_address, CInt 167772673)])]));
     (K_acl, CMap (o [(5, CMap (o [(K_action, CInt E_DENY); (K_protocol, CInt 1); (K_dst_port, CInt 80)])); (23, CMap [(K_action, CInt E_PERMIT)])]));
     (K_routes, CList [CMap (o [(K_address, CInt 168427520); (K_next_hop_ip_address, CInt 167772674); (K_metric, CInt 1000)]);
                       CMap (o [(K_address, CInt 168427520); (K_next_hop_ip_address, CInt 167772675); (K_metric, CInt 5000)])])])]);
     (K_links, CList [])]))])]).
Example c20_example :
  wfb (ex_router false) = true /\ canon (ex_router false) = canon (ex_router true) /\ Build.run_case (ex_router false) = Build.run_case (ex_router true) /\
  Build.run_case (ex_router false) =
  [7; 1; 1000; T_router; 1; 0; 0; 0;   5; 2; 1000; 1; 167772417; 4294967040;   5; 2; 1000; 2; 167772673; 4294967040;
   12; 3; 1000; 0; 5; E_DENY; 1; -1; -1; -1; -1; -1; 80;   12; 3; 1000; 0; 22; E_PERMIT; -1; -1; -1; -1; -1; 219; 219;   12; 3; 1000; 0; 23; E_PERMIT; -1; -1; -1; -1; -1; -1; -1;
   7; 4; 1000; 0; 168427520; 4294967040; 167772674; 1000;   7; 4; 1000; 1; 168427520; 4294967040; 167772675; 5000].
Proof. vm_compute. repeat split; reflexivity. Qed.
