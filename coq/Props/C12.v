(* C12 -- power states gate everything a node does, with the configured timing.
   Statements only; proofs in Proofs/PowerProofs.v.  All theorems hold for every duration (0 included), every list of
   interfaces / services / applications and every sequence of requests and ticks. *)
From Coq Require Import ZArith List Bool.
Import ListNotations.
From PV Require Import Model.Power Proofs.PowerProofs.
Open Scope Z_scope.

(* the node moves only along ON -> SHUTTING_DOWN -> OFF -> BOOTING -> ON (instantaneous legs when a duration is 0,
   a reset being a shutdown followed by an automatic start) *)
Theorem c12_power_cycle_order : forall c n o, Inv3 n -> next_ok c n o (step c n o) /\ Inv3 (step c n o).
Proof. exact power_cycle_order. Qed.
Theorem c12_reset_flag_only_while_shutting_down : forall c n ops, Inv3 n -> Inv3 (run c n ops).
Proof. exact inv3_reachable. Qed.

(* while a node is not ON all of its interfaces are disabled -- in every reachable state *)
Theorem c12_not_on_interfaces_disabled : forall c n ops, Inv1 n -> Inv1 (run c n ops).
Proof. exact not_on_nics_disabled. Qed.

(* once OFF no service is running or paused and no application is open -- in every reachable state *)
Theorem c12_off_no_running_software : forall c n ops, Inv2 n -> Inv2 (run c n ops).
Proof. exact off_no_running_software. Qed.

(* every request other than start-up is refused while the node is not ON; start-up is refused unless it is OFF *)
Theorem c12_not_on_requests_refused : forall c n o, st n <> ON -> o <> Tick -> o <> Startup -> step c n o = n.
Proof. exact not_on_requests_refused. Qed.
Theorem c12_startup_refused_unless_off : forall c n, st n <> OFF -> step c n Startup = n.
Proof. exact startup_refused_unless_off. Qed.

(* configured timing *)
Theorem c12_dwell_shutdown : forall c n, st n = ON -> resetting n = false ->
  let n0 := step c n Shutdown in
  (down_d c <= 0 -> st n0 = OFF) /\
  (0 < down_d c -> (forall k, Z.of_nat k <= down_d c -> st (ticks c k n0) = SHUTTING_DOWN) /\
                   st (ticks c (S (Z.to_nat (down_d c))) n0) = OFF).
Proof. exact dwell_shutdown. Qed.

Theorem c12_dwell_startup : forall c n, st n = OFF ->
  let n0 := step c n Startup in
  (up_d c <= 0 -> st n0 = ON) /\
  (0 < up_d c -> (forall k, Z.of_nat k <= up_d c -> st (ticks c k n0) = BOOTING) /\
                 st (ticks c (S (Z.to_nat (up_d c))) n0) = ON).
Proof. exact dwell_startup. Qed.

Theorem c12_dwell_reset : forall c n, st n = ON -> 0 < down_d c -> 0 < up_d c ->
  let n0 := step c n Reset in
  let d := Z.to_nat (down_d c) in let u := Z.to_nat (up_d c) in
  (forall k, (k <= d)%nat -> st (ticks c k n0) = SHUTTING_DOWN) /\
  (forall k, (k <= u)%nat -> st (ticks c (S d + k) n0) = BOOTING) /\
  st (ticks c (S d + S u) n0) = ON.
Proof. exact dwell_reset. Qed.

(* when the node returns to ON its linked interfaces, services and applications come back up *)
Theorem c12_on_restores : forall c n, st n = BOOTING -> up_cd n <= 0 ->
  let n' := tick c n in
  st n' = ON /\ Forall (fun i => linked i = true -> enabled i = true) (nics n') /\
  Forall (fun v => v <> 2) (svcs n') /\ Forall (fun v => v <> 2) (apps n').
Proof. exact on_restores. Qed.

(* the invariants' premises hold of every freshly built node *)
Theorem c12_initial_state_satisfies_invariants : forall nl s a, Inv1 (mk_node nl s a) /\ Inv2 (mk_node nl s a).
Proof. exact mk_node_inv. Qed.

(* non-vacuity *)
Example c12_example :
  run_case (1, 2, [(true, true)], [1; 2], [1], [Shutdown; Tick; Tick; Tick; Startup; Tick; Tick])
  = [4;0;1;2;1] ++ [4;0;1;2;1] ++ [4;0;1;2;1] ++ [2;0;2;2;2] ++ [3;0;2;2;2] ++ [3;0;2;2;2] ++ [1;1;1;1;1].
Proof. vm_compute. reflexivity. Qed.
