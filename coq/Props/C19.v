(* C19 -- scripted green/red agents act only when and how their settings allow.  Statements only. *)
From Coq Require Import ZArith List Bool QArith Sorting.Permutation Sorting.Sorted.
Import ListNotations.
From PV Require Import Model.Scripted Proofs.ScriptedProofs.
Open Scope Z_scope.

(* for every draw stream satisfying randint's contract: the first action falls in the start window, consecutive actions
   are frequency +- variance apart, and a periodic agent acts at most max_executions times *)
Theorem c19_periodic_agent_schedule : forall c draws n,
  0 <= p_svar c -> 0 <= p_var c < p_freq c ->
  draws_ok (p_svar c) (firstn 1 draws) -> draws_ok (p_var c) (skipn (if p_dm c then 2 else 1) draws) ->
  let ts := action_times c draws n in
  gaps_ok (p_freq c) (p_var c) ts /\
  (forall x, hd_error ts = Some x ->
     if p_dm c then x = Z.max 0 (p_start c) else Z.max 0 (p_start c - p_svar c) <= x <= Z.max 0 (p_start c + p_svar c)) /\
  (p_dm c = false -> 0 <= p_max c -> Z.of_nat (length ts) <= p_max c).
Proof. exact periodic_schedule. Qed.

(* numpy's choice as an inverse CDF: whatever the uniform draw in [0, sum p), the selected index has positive probability *)
Theorem c19_zero_probability_action_never_selected : forall ps acc u i0,
  (acc <= u)%Q -> (u < acc + qsum ps)%Q ->
  exists p, nth_error ps (choose ps acc u i0 - i0)%nat = Some p /\ (0 < p)%Q.
Proof. exact zero_probability_never_chosen. Qed.

(* the probability vector lists the mapping's values by ascending action index, whatever order the mapping was written in *)
Theorem c19_probability_vector_ordered_by_action_index : forall m, keys_sorted (sort_kv m) /\ Permutation m (sort_kv m).
Proof. exact sort_kv_sorted_perm. Qed.

(* kill chain: no stage is skipped and the bookkeeping invariant is preserved *)
Theorem c19_kill_chain_stages_in_order : forall last s o, 2 <= last < NOT_STARTED -> kwf last s ->
  (k_cur s = FAILED \/ k_cur s = SUCCEEDED -> o <> KProgress) ->
  kmove last (k_cur s) (k_cur (k_step last s o)) /\ (o <> KFail -> k_cur s <> FAILED -> kwf last (k_step last s o)).
Proof. exact kill_chain_order. Qed.

(* whatever made the attacker's request come back other than "success" (refused, target gone, still pending), the stage
   is not left forwards: it is held when stages are repeated and the chain fails otherwise *)
Theorem c19_unsuccessful_response_never_advances : forall last s rs,
  k_cur (k_step last s (KReturn false rs)) = (if rs then k_cur s else FAILED) /\
  k_next (k_step last s (KReturn false rs)) = k_next s /\
  k_step last s (KReturn true rs) = s.
Proof. exact unsuccessful_response_never_advances. Qed.
(* a chain that ended without being concluded and is set to repeat restarts from NOT_STARTED with the stage progress re-armed *)
Theorem c19_restart_begins_the_first_stage_from_its_start : forall last s,
  (k_cur s = SUCCEEDED \/ k_cur s = FAILED) -> k_done s = false ->
  let s' := k_step last s (KOutcome true) in k_cur s' = NOT_STARTED /\ k_next s' = 1 /\ k_prog s' = 0.
Proof. exact restart_rearms_first_stage. Qed.
Example c19_example :
  run_case (3, 1, 4, 1, 3, false, [1; -1; 0; 1; 0], 30) = [4; 7; 11] /\
  choice [1 # 2; 0; 1 # 2]%Q (1 # 2)%Q = 2%nat /\ map snd (sort_kv [(2, 0%Q); (1, (1 # 2)%Q); (0, (1 # 2)%Q)]) = [1 # 2; 1 # 2; 0]%Q.
Proof. vm_compute. repeat split; reflexivity. Qed.
