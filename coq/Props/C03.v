(* C03 -- same scenario, seed and actions give the same trajectory, in any process.  What a theorem can carry of this property:
   the kernels whose ORDER reaches behaviour are functions of their request alone.  That nothing else (string-hash order,
   object identities, wall-clock time, logging) reaches behaviour is a statement about the interpreter and the whole code base;
   it is decided by the cross-process differential of the harness (see the evidence) and is recorded as partial. *)
From Coq Require Import ZArith List Bool.
Import ListNotations.
From PV Require Import Model.Determinism Proofs.DeterminismProofs.
Open Scope Z_scope.

(* nmap's target enumeration lists every requested address exactly once ... *)
Theorem c03_scan_targets_enumerated_once : forall l, NoDup (dedupe l) /\ forall x, In x (dedupe l) <-> In x l.
Proof. exact dedupe_spec. Qed.
(* ... in the order of first occurrence in the request: a function of the request list alone *)
Theorem c03_scan_targets_in_request_order : forall l, dedupe l = first_occurrences l.
Proof. exact dedupe_is_first_occurrences. Qed.

Example c03_example : Determinism.run_case [Addr 9; Net 5 3; Addr 6; Addr 9; Net 4 2] = [9; 5; 6; 7; 4].
Proof. vm_compute. reflexivity. Qed.
