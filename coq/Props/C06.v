(* C06 -- blocking is effective: a host cut off from another cannot affect it.  Statements only; proofs in
   Proofs/DeviceProofs.v and Proofs/Propagate.v; the device models are Model/Device.v. *)
From Coq Require Import ZArith List Bool.
Import ListNotations.
From PV Require Import Model.Acl Model.Device Proofs.Propagate Proofs.DeviceProofs.
From PV Require Model.Route.
Open Scope Z_scope.

(* a router that decides to deny a frame emits nothing, hands nothing to its own software, and changes nothing but a hit
   counter (strip_router forgets counters and the ARP cache; the ARP cache is unchanged too) *)
Theorem c06_router_deny_is_silent : forall r p f r' outs d,
    router_step r p f = (r', outs, d, Denied) ->
    outs = [] /\ d = false /\ strip_router r' = strip_router r /\ r_arp r' = r_arp r.
Proof. exact router_deny_silent. Qed.

(* ... and it does decide to deny whenever the rule list's verdict on a frame that reached it is deny *)
Theorem c06_router_denies_when_the_verdict_is_deny : forall r p f i f1,
    nth_error (r_ifs r) p = Some i -> router_nic_rx i f = Some f1 -> r_on r = true -> router_permits r f1 = false ->
    exists r', router_step r p f = (r', [], false, Denied).
Proof. exact router_denies. Qed.

(* the same for a firewall, whether the first (arrival zone) or the second (destination zone) list says deny *)
Theorem c06_firewall_deny_is_silent : forall w p f w' outs d ls,
    fw_step w p f = (w', outs, d, Denied, ls) -> outs = [] /\ d = false /\ strip_fw w' = strip_fw w.
Proof. exact firewall_deny_silent. Qed.

(* a frame a firewall forwards was permitted by the list of its arrival zone and by a second list *)
Theorem c06_firewall_forwards_only_what_two_lists_permit : forall w p f w' outs d dc ls q f',
    fw_step w p f = (w', outs, d, dc, ls) -> In (q, f') outs ->
    exists f1 z1 z2, key f1 = key f /\ first_list p = Some z1 /\ fw_verdict w z1 f1 = true /\ fw_verdict w z2 f1 = true /\
                     ls = [zl_code z1; zl_code z2].
Proof. exact firewall_forward_permitted_twice. Qed.

(* handling a frame never changes what "blocked" means (power, enabled flags, rules minus counters, routes), forwards only
   frames with the same protocol / addresses / ports, and only through an open device *)
Theorem c06_handling_keeps_the_blocking_state : forall s n p f s' outs d, net_handle s n p f = (s', outs, d) ->
    bstate s' = bstate s /\
    (forall q f', In (q, f') outs -> key f' = key f /\ open_hop (bstate s) n p q (key f)) /\
    (d = true -> accepts (bstate s) n p (key f)).
Proof. exact net_handle_sound. Qed.

(* for every wiring of hosts, switches, routers and firewalls, every state and every frame: a delivery point of the
   synchronous propagation is the end of a path every hop of which was open for that frame *)
Theorem c06_delivery_needs_an_open_path : forall (wire : nat -> nat -> option (nat * nat)) fuel s n p f s' del,
    propagate wire fuel s n p f = (s', del) ->
    bstate s' = bstate s /\ forall n' p', In (n', p') del -> path wire (bstate s) (key f) n p n' p'.
Proof. exact delivery_needs_open_path. Qed.

(* the property: if the nodes reachable from A through open hops (S) do not include B, nothing A injects reaches B *)
Theorem c06_blocked_means_no_delivery : forall (wire : nat -> nat -> option (nat * nat)) fuel s n p f (S : nat -> Prop) nB pB,
    (forall x p q y p', S x -> wire x q = Some (y, p') -> open_hop (bstate s) x p q (key f) -> S y) ->
    S n -> ~ S nB -> ~ In (nB, pB) (snd (propagate wire fuel s n p f)).
Proof. exact separated_no_delivery. Qed.

(* what closes a device for a flow *)
Theorem c06_router_off_is_closed : forall r p q k, r_on r = false -> ~ dev_open (DRouter r) p q k /\ ~ dev_accepts (DRouter r) p k.
Proof. exact router_off_is_closed. Qed.
Theorem c06_router_deny_is_closed : forall r p q k,
  (forall f1, key f1 = k -> router_permits r f1 = false) -> ~ dev_open (DRouter r) p q k /\ ~ dev_accepts (DRouter r) p k.
Proof. exact router_deny_is_closed. Qed.
Theorem c06_firewall_deny_is_closed : forall w p q k z1,
  first_list p = Some z1 -> (forall f1, key f1 = k -> fw_verdict w z1 f1 = false) ->
  ~ dev_open (DFirewall w) p q k /\ ~ dev_accepts (DFirewall w) p k.
Proof. exact firewall_first_list_deny_is_closed. Qed.
Theorem c06_disabled_port_is_closed : forall r s w p q k,
  (if_up r p = false \/ if_up r q = false -> ~ dev_open (DRouter r) p q k) /\
  (port_up (s_up s) p = false \/ port_up (s_up s) q = false -> ~ dev_open (DSwitch s) p q k) /\
  (if_up (w_base w) p = false \/ if_up (w_base w) q = false -> ~ dev_open (DFirewall w) p q k).
Proof. intros r s w p q k. split; [apply port_down_is_closed_router|split; [apply port_down_is_closed_switch|apply port_down_is_closed_firewall]]. Qed.
Theorem c06_host_off_or_interface_down_accepts_nothing : forall h p f,
  (wf_host h -> h_on h = false -> host_handle h p f = (h, [], false)) /\
  (forall i, nth_error (h_nics h) p = Some i -> n_up i = false -> host_handle h p f = (h, [], false)).
Proof. intros h p f. split; [apply host_off_accepts_nothing|apply host_interface_down_accepts_nothing]. Qed.

(* non-vacuity: host A (node 0) -- router (node 1) -- host B (node 2, listening on 80); a TCP frame from A to B:80 is
   delivered at B when the router's list permits it and nowhere when a deny rule covers it *)
Definition ex_wire (n p : nat) : option (nat * nat) :=
  match n, p with 1%nat, 0%nat => Some (0%nat, 0%nat) | 1%nat, 1%nat => Some (2%nat, 0%nat) | 0%nat, 0%nat => Some (1%nat, 0%nat) | 2%nat, 0%nat => Some (1%nat, 1%nat) | _, _ => None end.
Definition ex_net (acl : acl_state) : net :=
  [DHost {| h_on := true; h_nics := [mknic 167772418 4294967040 11 1]; h_open := []; h_nmap := false |};
   DRouter (mkrouter 1 acl [mknic 167772417 4294967040 21 1; mknic 167772673 4294967040 22 1] [219] [(167772674, 1, 33)] [] None);
   DHost {| h_on := true; h_nics := [mknic 167772674 4294967040 33 1]; h_open := [80]; h_nmap := false |}].
Definition ex_frame : frame := mkframe 1 167772418 167772674 (Some 5000) (Some 80) 0 64 21 11.
Example c06_example :
  snd (propagate ex_wire 70 (ex_net (mkacl 1 [])) 1 0 ex_frame) = [(2%nat, 0%nat)] /\
  snd (propagate ex_wire 70 (ex_net (mkacl 1 [(0, mk 2 (Some 1) (Some 167772418) None None None None None)])) 1 0 ex_frame) = [].
Proof. vm_compute. split; reflexivity. Qed.

