(* C18 -- a link never carries more than its bandwidth in a tick; down links carry nothing. *)
From Coq Require Import ZArith List Bool.
Import ListNotations.
From PV Require Import Model.Link Proofs.LinkProofs.
Open Scope Z_scope.

(* for every list of transmission call trees in a tick (requests, nested replies, floods, bursts), starting from the
   zero load of pre_timestep: the load equals the data actually carried and never exceeds the bandwidth *)
Theorem c18_load_never_exceeds_bandwidth : forall bw ts, 0 <= bw -> Forall wf ts ->
  let st := run_tick bw ts in 0 <= fst st <= bw /\ snd st = fst st.
Proof. exact tick_inv. Qed.

(* the same at every intermediate point of every call tree *)
Theorem c18_every_step_keeps_the_invariant : forall bw t, wf t -> forall st, good bw st -> step_ok bw st (run bw t st).
Proof. exact run_step. Qed.

Theorem c18_down_link_carries_nothing : forall bw chk add ok kids st, run bw (Tx chk add false ok kids) st = st.
Proof. exact down_link_carries_nothing. Qed.

Theorem c18_overflowing_frame_dropped_at_sender : forall bw chk add up ok kids load carried,
  bw < load + chk -> run bw (Tx chk add up ok kids) (load, carried) = (load, carried).
Proof. exact overflow_dropped. Qed.

Theorem c18_loads_start_at_zero : forall bw, run_tick bw [] = (0, 0).
Proof. reflexivity. Qed.

(* the accounting order that the repair replaced does violate the property (regression witness) *)
Theorem c18_add_after_delivery_refuted : exists bw t, wf t /\ snd (run_post bw t (0, 0)) > bw.
Proof. exact post_accounting_refuted. Qed.

(* non-vacuity: request with nested reply on a link of the order of one frame; the reply is dropped at the sender *)
Example c18_example :
  run_case (8, [Tx 5 5 true true [Tx 5 5 true true []]; Tx 3 3 true false []; Tx 3 3 true true []; Tx 1 1 false true []])
  = [5; 5; 8; 8; 8; 8].
Proof. vm_compute. reflexivity. Qed.
