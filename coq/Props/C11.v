(* C11 -- the action mask agrees with what the simulator would refuse. *)
From Coq Require Import ZArith List Bool.
Import ListNotations.
From PV Require Import Model.ReqTree Proofs.ReqTreeProofs.

Section C11.
  Variables (St Key : Type) (key_eqb : Key -> Key -> bool).
  Hypothesis key_eqb_eq : forall a b, key_eqb a b = true <-> a = b.

  (* mask entry = true exactly when executing the request now would reach its handler *)
  Theorem c11_mask_iff_reaches_handler : forall (t : rtree St Key) r s,
    check_valid key_eqb t r s = true <-> reaches St Key t r s.
  Proof. exact (check_valid_iff_reaches St Key key_eqb key_eqb_eq). Qed.

  Theorem c11_masked_out_never_succeeds : forall (t : rtree St Key) (r : list Key) (s : St),
    check_valid key_eqb t r s = false ->
    snd (dispatch key_eqb t r s) <> Success /\ fst (dispatch key_eqb t r s) = s.
  Proof. exact (masked_out_never_succeeds St Key key_eqb key_eqb_eq). Qed.

  Theorem c11_allowed_is_never_refused_by_a_validator : forall (t : rtree St Key) (r : list Key) (s : St),
    check_valid key_eqb t r s = true ->
    exists (h : handler St Key) (opts : list Key), dispatch key_eqb t r s = h opts s.
  Proof. exact (allowed_reaches_handler St Key key_eqb key_eqb_eq). Qed.
End C11.

(* non-vacuity: a guarded intermediate edge above an unguarded leaf (the shape the original walk got wrong) *)
Example c11_example :
  run_case (DMgr [(1, (false, DMgr [(2, (true, DLeaf 5 1))]))], [1; 2])%Z = [2; 0; -1; 0]%Z /\
  run_case (DMgr [(1, (true, DMgr [(2, (true, DLeaf 5 1))]))], [1; 2])%Z = [1; 1; 5; 1]%Z.
Proof. vm_compute. split; reflexivity. Qed.
