#!/usr/bin/env python3
"""Regenerate /verif/MANIFEST.json from the per-property table below (kept in one place so it stays valid)."""
import json, os
HERE = os.path.dirname(os.path.dirname(os.path.abspath(__file__)))
props = [json.loads(l) for l in open(os.path.join(HERE, "properties.jsonl"))]
TB = ("Coq 8.16.1 kernel + vm_compute; no axioms declared (Print Assumptions per theorem in the evidence); hand-written "
      "executable Gallina model tied to /repo by a correspondence check on every run (implementation vs `Eval vm_compute` "
      "of the model on the same generated inputs) and, where listed, by the py2coq translator with a re-proved Gen = Model; "
      "Python harness, generators and spec oracles are trusted; see DESIGN.md section 8")
CLAIMS = {
 "C15": dict(design="6/C15", technique="Coq proof (structural invariant preserved by every file-system op, hence in every reachable state) + per-op partition correspondence + direct invariant checks",
   text="coq/Props/C15.v proves for the model of FileSystem/Folder/File container logic, for every sequence of create/delete/restore requests on files and folders, folder restores and ticks: within every folder live file names are unique, no file or folder is both live and deleted or listed twice, deleted flags agree with membership of the deleted sets, live folder names are unique; deleting moves an item to the deleted set, restoring moves it back, a deleted file is unavailable, counters are zero at the start of each tick, creating an existing file is refused without change and creating an existing folder is a no-op. Tied to the code by comparing the whole live/deleted partition (names, flags, order, counters, statuses) after every op of random and bounded-exhaustive sequences (request API and agent actions, conflicting names) with vm_compute of the model; the invariant is also checked directly on the objects and on describe_state."),
 "C12": dict(design="6/C12", technique="Coq proof (power machine invariants for all durations and op sequences, cycle-order table, exact dwell times by countdown induction) + per-op state correspondence + direct property monitors",
   text="coq/Props/C12.v proves for the model of Node.power_on/power_off/reset/apply_timestep, for every duration (0 included), every list of interfaces/services/applications and every sequence of requests and ticks: the state moves only along the power cycle (explicit transition table), interfaces are all disabled whenever the node is not ON, no service runs and no application is open when OFF, every request but start-up is refused while not ON, shutdown/start-up/reset last exactly the configured number of ticks, and interfaces, services and applications come back up at ON. Tied to base.py by comparing the full observable state after every op of random request/tick sequences on computers, servers, switches, routers and firewalls of generated networks with vm_compute of the model; the harness also checks the property directly (transition table, dwell timelines per duration pair, no frame accepted or sent by a non-ON node)."),
 "C05": dict(design="6/C05", technique="Coq proof (dispatch classified for every tree/validator/handler; refused => state unchanged) + live-tree correspondence + permission-table and state-diff search",
   text="coq/Props/C05.v proves, for every request tree, validator, handler and state of the model of RequestManager.__call__, that every answer is classified (unreachable / failure by the first false validator / the handler's answer), that a request which does not reach a handler returns the state unchanged and is never success, and that a reaching request is handed to the handler. The model is tied to core.py on every run by executing requests (every action type x every component, existing and missing, plus missing/misspelt/truncated path mutations) on live trees at disrupted states and comparing with vm_compute of the model on the dumped path subtree; the search also compares uuid-normalised describe_state before/after refused requests and checks the documented permission table on ground-truth objects."),
 "C11": dict(design="6/C11", technique="Coq proof (check_valid = true <-> reaches handler, corollaries) + per-step all-entries mask vs independent tree walk vs documented table vs execution",
   text="coq/Props/C11.v proves, for every tree and state of the model of RequestManager.check_valid, that the mask predicate is true exactly when dispatch would reach the handler, hence masked-out never succeeds and allowed is never refused by a validator. Tied to the code by correspondence on executed entries and, at every step, by comparing every entry of a widened action map (whole action space, existing and missing components) with an independent walk of the live tree, with the documented masking table evaluated on simulator objects, and with the outcome of executing one entry per step (validator probe reveals refusals below the registered leaf)."),
 "C18": dict(design="6/C18", technique="Coq proof (invariant 0 <= carried = load <= bandwidth by nested induction over transmission call trees) + call-tree correspondence + independent carried-data tally",
   text="coq/Props/C18.v proves for every list of transmission call trees in a tick (requests with nested replies, floods, bursts; any sizes with add <= chk) that the link load equals the data carried and never exceeds the bandwidth, that loads start at zero, that a down link carries nothing and an overflowing frame is dropped at the sender; a refutation theorem records that add-after-delivery accounting breaks it. Tied to Link/AirSpace by wrappers that record the real call trees per link per tick (tight bandwidths from half a frame up, wireless channel of one frame) and compare loads with vm_compute of the model; an independent tally of delivered bytes is checked against the bandwidth after every attempt."),
 "C07": dict(design="6/C07", technique="Coq proof (first-match scan, wildcard bit lemma, frame lemmas, reachable-state invariant) + translator/correspondence tie + spec-oracle search",
   text="Theorems in coq/Props/C07.v prove, for every rule list, packet and op sequence of the model, that the verdict is that of the lowest-positioned rule whose specified fields all match (wildcards bitwise), else the implicit action; that exactly the deciding counter is incremented; that add/remove touch only the addressed slot. The model is tied to router.py by correspondence through the Python API, the agent-action request path and scenario loading on every run, and an independent spec oracle searches for concrete failing inputs."),
}
checks, na = [], []
for p in props:
    pid = p["id"]
    if pid in CLAIMS:
        c = CLAIMS[pid]
        checks.append({
            "property_id": pid, "quick_cmd": "./check %s --tier quick" % pid, "thorough_cmd": "./check %s --tier thorough" % pid,
            "evidence_file": "/verif/evidence/%s.json" % pid, "replay_cmd_template": "./check %s --replay {path}" % pid,
            "engine": "coq-model+correspondence",
            "level_claimed": {"category": "proof", "text": c["text"], "design_ref": "DESIGN.md section " + c["design"]},
            "level_note": c.get("note", TB), "technique": c["technique"]})
    else:
        na.append({"property_id": pid, "reason": "check not built yet in this revision (work in progress; see DESIGN.md section 12)"})
m = {"version": 1, "setup_cmd": "./setup.sh",
     "hooks": {"guard": "PRIMAITE_VERIF", "enable": "none needed: the harness monkey-patches inside its own process; PRIMAITE_VERIF=1 is exported by ./check but no /repo source reads it",
               "baseline_off_cmd": "python3 /verif/tools/run_baseline.py /repo", "source_commits": [], "add_only": True},
     "engines": [{"name": "coq-model+correspondence", "path": "/verif/check", "serves_properties": [c["property_id"] for c in checks],
                  "kind_free_text": "Coq 8.16.1 development under /verif/coq (Model/, Proofs/, Props/) + Python correspondence/search harness under /verif/harness + py2coq translator under /verif/translator"}],
     "checks": checks, "not_applicable": na,
     "notes": "All checks: ./check Cxx --tier quick|thorough; VERIF_SEED honoured; evidence rewritten on every run; known findings in /verif/known_findings.json."}
json.dump(m, open(os.path.join(HERE, "MANIFEST.json"), "w"), indent=1)
print("claimed:", [c["property_id"] for c in checks], "not_applicable:", len(na))
