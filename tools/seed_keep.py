#!/usr/bin/env python3
"""keep a confirmed seeded defect under /verif/seeded/<id>/ and record which checks catch it.
usage: seed_keep.py <src_dir> <id> <Cxx,Cyy> [patchfile]   (runs the quick checks with the patch applied, then reverts)"""
import json, os, shutil, subprocess, sys
src, sid, checks = sys.argv[1], sys.argv[2], sys.argv[3].split(",")
patch = sys.argv[4] if len(sys.argv) > 4 else os.path.join(src, "patch.diff")
dst = os.path.join("/verif/seeded", sid)
os.makedirs(dst, exist_ok=True)
shutil.copy(patch, os.path.join(dst, "patch.diff"))
shutil.copy(os.path.join(src, "demo.py"), os.path.join(dst, "demo.py"))
meta = json.load(open(os.path.join(src, "meta.json")))
assert subprocess.run(["git", "-C", "/repo", "diff", "--quiet"]).returncode == 0, "repo dirty"
env = dict(os.environ, PYTHONPATH="/repo/src", HOME="/tmp/seed_home")
def demo():
    p = subprocess.run(["/venv/bin/python", os.path.join(dst, "demo.py")], cwd="/repo", env=env, capture_output=True, text=True, timeout=900)
    return p.returncode, (p.stdout + p.stderr)[-300:]
clean = demo()
subprocess.run(["git", "-C", "/repo", "apply", os.path.join(dst, "patch.diff")], check=True)
try:
    mutated = demo()
    res = {}
    for c in checks:
        p = subprocess.run(["./check", c, "--tier", "quick"], cwd="/verif", capture_output=True, text=True, timeout=3000)
        lines = [l for l in p.stdout.splitlines() if l.startswith("VIOLATION") or "what:" in l or "broken obligation" in l]
        res[c] = {"exit": p.returncode, "lines": [l[:300] for l in lines[:6]]}
finally:
    subprocess.run(["git", "-C", "/repo", "checkout", "--", "."], check=True)
meta["confirmed"] = {"demo_clean_exit": clean[0], "demo_mutated_exit": mutated[0], "demo_mutated_tail": mutated[1],
                     "checks_run_with_patch": res, "baseline": meta.get("baseline")}
meta["detected_by"] = [c for c, r in res.items() if r["exit"] == 1]
json.dump(meta, open(os.path.join(dst, "meta.json"), "w"), indent=1)
print(sid, "demo clean/mutated exit:", clean[0], mutated[0], "detected_by:", meta["detected_by"])
for c, r in res.items():
    for l in r["lines"][:3]:
        print("   ", c, l[:200])
