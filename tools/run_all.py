#!/usr/bin/env python3
"""run every claimed check (quick by default) on the current tree; usage: run_all.py [--tier thorough] [--seeds 1,2,3] [-j 4]"""
import argparse, json, os, subprocess, sys, time
from concurrent.futures import ThreadPoolExecutor
ap = argparse.ArgumentParser(); ap.add_argument("--tier", default="quick"); ap.add_argument("--seeds", default=""); ap.add_argument("-j", type=int, default=4)
ap.add_argument("--only", default="")
a = ap.parse_args()
here = os.path.dirname(os.path.dirname(os.path.abspath(__file__)))
m = json.load(open(os.path.join(here, "MANIFEST.json")))
ids = [c["property_id"] for c in m["checks"] if not a.only or c["property_id"] in a.only.split(",")]
seeds = [int(s) for s in a.seeds.split(",") if s] or [None]
def one(job):
    pid, seed = job
    env = dict(os.environ)
    if seed is not None:
        env["VERIF_SEED"] = str(seed)
    t = time.time()
    p = subprocess.run(["./check", pid, "--tier", a.tier], cwd=here, env=env, capture_output=True, text=True)
    lines = [l for l in p.stdout.splitlines() if l.startswith(("VIOLATION", "KNOWN-FINDING")) or "what:" in l or "broken obligation" in l]
    return pid, seed, p.returncode, round(time.time() - t), lines, p.stdout.splitlines()[-1:] 
bad = 0
with ThreadPoolExecutor(max_workers=a.j) as ex:
    for pid, seed, rc, dt, lines, last in ex.map(one, [(i, s) for s in seeds for i in ids]):
        print("%s seed=%s exit=%d %ds %s" % (pid, seed, rc, dt, last[0] if last else ""))
        for l in lines[:6]:
            print("     ", l[:300])
        bad += rc != 0
sys.exit(1 if bad else 0)
