#!/bin/bash
# usage: tools/try_mutant.sh <patch.diff> <Cxx> [<Cyy> ...]   -- apply to /repo, run quick checks, revert
P="$1"; shift
cd /repo && git diff --quiet || { echo "repo dirty"; exit 2; }
git -C /repo apply "$P" || { echo "patch does not apply"; exit 2; }
for c in "$@"; do
  ( cd /verif && ./check $c --tier ${TIER:-quick} 2>&1 | grep -E "VIOLATION|what:|broken obligation|^C[0-9]+ " | cut -c1-400 | head -12 )
done
git -C /repo checkout -- . && git -C /repo status --short | head -3
