#!/usr/bin/env python3
"""Run PrimAITE's pinned baseline suite (guard OFF) on a tree and compare with /root/.vp/BASELINE.json.

usage: run_baseline.py [repo_dir]   (default /repo).  exit 0 iff every stable_pass test passes.
"""
import json, os, subprocess, sys, tempfile, xml.etree.ElementTree as ET

repo = sys.argv[1] if len(sys.argv) > 1 else "/repo"
base = json.load(open("/root/.vp/BASELINE.json"))
want = set(base["stable_pass"])
tmp = tempfile.mkdtemp(prefix="vbl_")
junit = os.path.join(tmp, "junit.xml")
env = dict(os.environ)
env.pop("PRIMAITE_VERIF", None)
env["HOME"] = tmp
env["PYTHONPATH"] = os.path.join(repo, "src")
cmd = ["/venv/bin/python", "-m", "pytest", "-ra", "-q", "-p", "no:cacheprovider", "--timeout=900",
       "--continue-on-collection-errors", f"--junitxml={junit}"]
p = subprocess.run(cmd, cwd=repo, env=env, stdout=subprocess.PIPE, stderr=subprocess.STDOUT, text=True)
passed = set()
for tc in ET.parse(junit).getroot().iter("testcase"):
    if not any(ch.tag in ("failure", "error", "skipped") for ch in tc):
        passed.add(f"{tc.get('classname')}::{tc.get('name')}")
missing = sorted(want - passed)
print(f"baseline: {len(want)} expected, {len(want & passed)} passed, {len(missing)} missing; total passed {len(passed)}")
for m in missing[:40]:
    print("  MISSING", m)
subprocess.run(["rm", "-r", tmp])
sys.exit(1 if missing else 0)
