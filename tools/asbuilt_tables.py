#!/usr/bin/env python3
"""Rewrite the generated tables of DESIGN.md section 13 (defects repaired, seeded changes) from known_findings.json and seeded/*/meta.json."""
import glob, json, os, re
HERE = os.path.dirname(os.path.dirname(os.path.abspath(__file__)))
p = os.path.join(HERE, "DESIGN.md")
s = open(p).read()
kf = json.load(open(os.path.join(HERE, "known_findings.json")))["findings"]
fixed = sorted([f for f in kf if f["status"] == "fixed"], key=lambda f: (f["property"], f["commit"]))
t1 = "| property | commit | what failed |\n|---|---|---|\n" + "\n".join("| %s | `%s` | %s |" % (f["property"], f["commit"], f["what"].replace("|", "/")) for f in fixed)
rows = []
for d in sorted(glob.glob(os.path.join(HERE, "seeded", "*", ""))):
    m = json.load(open(os.path.join(d, "meta.json")))
    first = m.get("summary", "").replace("\n", " ").split(". ")[0]
    if len(first) > 210:
        first = first[:207] + "..."
    rows.append("| `%s` | %s | %s |" % (os.path.basename(d.rstrip("/")), ", ".join(m.get("detected_by") or []), first.replace("|", "/")))
t2 = "| seed | detected by | change |\n|---|---|---|\n" + "\n".join(rows)
s = re.sub(r"<!-- FIXED-TABLE-BEGIN -->.*?<!-- FIXED-TABLE-END -->", lambda m: "<!-- FIXED-TABLE-BEGIN -->\n" + t1 + "\n<!-- FIXED-TABLE-END -->", s, flags=re.S)
s = re.sub(r"<!-- SEEDED-TABLE-BEGIN -->.*?<!-- SEEDED-TABLE-END -->", lambda m: "<!-- SEEDED-TABLE-BEGIN -->\n" + t2 + "\n<!-- SEEDED-TABLE-END -->", s, flags=re.S)
open(p, "w").write(s)
print("fixed:", len(fixed), "seeded:", len(rows))
