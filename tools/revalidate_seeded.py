#!/usr/bin/env python3
"""Apply every seeded change in turn, run the check(s) of its property (quick), expect a VIOLATION, revert.  Never run this
concurrently with other checks: it edits /repo's working tree (and restores it)."""
import json, os, subprocess, sys, glob
HERE = os.path.dirname(os.path.dirname(os.path.abspath(__file__)))
only = sys.argv[1:]
bad = []
assert subprocess.run(["git", "-C", "/repo", "diff", "--quiet"]).returncode == 0, "repo dirty"
for d in sorted(glob.glob(os.path.join(HERE, "seeded", "*", ""))):
    sid = os.path.basename(d.rstrip("/"))
    if only and sid not in only:
        continue
    meta = json.load(open(os.path.join(d, "meta.json")))
    pid = sid.split("_")[0]
    if subprocess.run(["git", "-C", "/repo", "apply", os.path.join(d, "patch.diff")]).returncode != 0:
        print(sid, "PATCH DOES NOT APPLY"); bad.append(sid); continue
    try:
        p = subprocess.run(["./check", pid, "--tier", "quick"], cwd=HERE, capture_output=True, text=True)
        hit = p.returncode == 1 and "VIOLATION property=%s" % pid in p.stdout
        concrete = any(l.startswith("VIOLATION") and "no-failing-input-found" not in l for l in p.stdout.splitlines())
        print(sid, "detected" if hit else "MISSED", "(concrete replay)" if concrete else "(broken obligation only)" if hit else "", p.stdout.splitlines()[-1][:120])
        if not hit:
            bad.append(sid)
    finally:
        subprocess.run(["git", "-C", "/repo", "checkout", "--", "."])
print("missed:", bad)
sys.exit(1 if bad else 0)
