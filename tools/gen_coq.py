#!/usr/bin/env python3
"""(Re)generate coq/Gen/*.v from /repo's current source with the py2coq translator (setup and every check run)."""
import os, sys
HERE = os.path.dirname(os.path.dirname(os.path.abspath(__file__)))
sys.path.insert(0, os.path.join(HERE, "translator"))
import py2coq
repo = os.environ.get("PV_REPO", "/repo")
for g, k in py2coq.KERNELS.items():
    path = os.path.join(HERE, "coq", k["gen"])
    os.makedirs(os.path.dirname(path), exist_ok=True)
    try:
        text = py2coq.translate(g, repo)
    except Exception as e:      # the translator refuses the current source: the checks tied to this group report it
        text = "(* translation of kernel group %s refused: %r *)\n" % (g, e)
    if not os.path.exists(path) or open(path).read() != text:
        open(path, "w").write(text)
    print("generated", k["gen"])
