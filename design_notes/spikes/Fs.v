(* Design-round spike (not framework code): folder-level file-system invariant (C15), repaired model vs today's. *)
From Coq Require Import List Arith Bool Lia.
Import ListNotations.

Record file := { fid : nat; fname : nat; fdel : bool }.
Record folder := { live : list file; dead : list file; next : nat }.

Definition find_name (n : nat) (l : list file) : option file := find (fun f => Nat.eqb (fname f) n) l.
Definition remove_id (i : nat) (l : list file) : list file := filter (fun f => negb (Nat.eqb (fid f) i)) l.
Definition undel (f : file) := {| fid := fid f; fname := fname f; fdel := false |}.
Definition del (f : file) := {| fid := fid f; fname := fname f; fdel := true |}.

Inductive op := Create (name : nat) (force : bool) | Delete (name : nat) | Restore (name : nat).
Inductive out := Ok | Refused | Raised.

(* repaired request-level semantics (candidate_fixes.diff) *)
Definition step_fixed (d : folder) (o : op) : folder * out :=
  match o with
  | Create n force =>
      match find_name n (live d) with
      | Some _ => (d, if force then Ok else Refused)          (* existing: re-add same object / refuse *)
      | None => ({| live := live d ++ [{| fid := next d; fname := n; fdel := false |}]; dead := dead d; next := S (next d) |}, Ok)
      end
  | Delete n =>
      match find_name n (live d) with
      | Some f => ({| live := remove_id (fid f) (live d); dead := dead d ++ [del f]; next := next d |}, Ok)
      | None => (d, Refused)
      end
  | Restore n =>
      match find_name n (live d) with
      | Some _ => (d, Ok)                                      (* get_file(include_deleted) finds the live one first *)
      | None => match find_name n (dead d) with
                | Some f => ({| live := live d ++ [undel f]; dead := remove_id (fid f) (dead d); next := next d |}, Ok)
                | None => (d, Refused)
                end
      end
  end.

(* today's semantics: create never finds the existing file; restore does not remove from [dead] *)
Definition step_today (d : folder) (o : op) : folder * out :=
  match o with
  | Create n force =>
      match find_name n (live d) with
      | Some _ => if force then ({| live := live d ++ [{| fid := next d; fname := n; fdel := false |}]; dead := dead d; next := S (next d) |}, Ok)
                  else (d, Raised)
      | None => ({| live := live d ++ [{| fid := next d; fname := n; fdel := false |}]; dead := dead d; next := S (next d) |}, Ok)
      end
  | Delete n => step_fixed d (Delete n)
  | Restore n =>
      match find_name n (live d) with
      | Some _ => (d, Ok)
      | None => match find_name n (dead d) with
                | Some f => ({| live := live d ++ [undel f]; dead := dead d; next := next d |}, Ok)
                | None => (d, Refused)
                end
      end
  end.

Definition ids (l : list file) := map fid l.
Definition names (l : list file) := map fname l.
Record Inv (d : folder) : Prop := {
  i_names : NoDup (names (live d));
  i_idl   : NoDup (ids (live d));
  i_idd   : NoDup (ids (dead d));
  i_disj  : forall i, In i (ids (live d)) -> In i (ids (dead d)) -> False;
  i_fresh : forall i, In i (ids (live d) ++ ids (dead d)) -> i < next d;
  i_live  : Forall (fun f => fdel f = false) (live d);
  i_dead  : Forall (fun f => fdel f = true) (dead d) }.

Lemma find_name_some n l f : find_name n l = Some f -> In f l /\ fname f = n.
Proof. unfold find_name. intro H. apply find_some in H. destruct H as [H E]. apply Nat.eqb_eq in E. auto. Qed.
Lemma find_name_none n l : find_name n l = None -> ~ In n (names l).
Proof. unfold find_name, names. intros H Hin. apply in_map_iff in Hin. destruct Hin as (f & E & Hf).
       pose proof (find_none _ _ H f Hf) as C. cbn in C. rewrite E, Nat.eqb_refl in C. discriminate. Qed.

Lemma ids_remove i l : ids (remove_id i l) = filter (fun j => negb (Nat.eqb j i)) (ids l).
Proof. unfold ids, remove_id. induction l as [|f l IH]; cbn; auto. destruct (Nat.eqb (fid f) i); cbn; rewrite IH; auto. Qed.
Lemma in_remove_id f i l : In f (remove_id i l) <-> In f l /\ fid f <> i.
Proof. unfold remove_id. rewrite filter_In, negb_true_iff, Nat.eqb_neq. tauto. Qed.
Lemma NoDup_filter {A} (p : A -> bool) l : NoDup l -> NoDup (filter p l).
Proof. induction 1; cbn; [constructor|]. destruct (p x); auto. constructor; auto. rewrite filter_In; tauto. Qed.
Lemma names_remove_sub i l n : In n (names (remove_id i l)) -> In n (names l).
Proof. unfold names. rewrite !in_map_iff. intros (f & E & H). apply in_remove_id in H. exists f; tauto. Qed.
Lemma NoDup_names_remove i l : NoDup (names l) -> NoDup (names (remove_id i l)).
Proof. unfold names, remove_id. induction l as [|f l IH]; cbn; intro H; [constructor|].
       inversion H; subst. destruct (negb (Nat.eqb (fid f) i)); cbn; auto. constructor; auto.
       intro C. apply H2. apply in_map_iff in C. destruct C as (g & E & Hg). apply filter_In in Hg. apply in_map_iff. exists g; tauto. Qed.

Lemma in_ids_remove j i l : In j (ids (remove_id i l)) <-> In j (ids l) /\ j <> i.
Proof. rewrite ids_remove, filter_In, negb_true_iff, Nat.eqb_neq. tauto. Qed.
Lemma ids_app a b : ids (a ++ b) = ids a ++ ids b. Proof. apply map_app. Qed.
Lemma names_app a b : names (a ++ b) = names a ++ names b. Proof. apply map_app. Qed.
Lemma NoDup_snoc {A} (l : list A) x : NoDup l -> ~ In x l -> NoDup (l ++ [x]).
Proof. intros H Hn. apply (NoDup_Add (a:=x) (l:=l)). { rewrite <- (app_nil_r l) at 1. apply Add_app. } auto. Qed.

Theorem step_fixed_inv d o : Inv d -> Inv (fst (step_fixed d o)).
Proof.
  intros [Hn Hl Hd Hx Hf Hlv Hdd]. destruct o as [n force|n|n]; cbn [step_fixed].
  - destruct (find_name n (live d)) eqn:E; cbn [fst]; [constructor; auto|].
    apply find_name_none in E. constructor; cbn.
    + rewrite names_app. apply NoDup_snoc; auto.
    + rewrite ids_app. apply NoDup_snoc; auto. intro C. specialize (Hf (next d) ltac:(apply in_or_app; auto)). lia.
    + auto.
    + intros i Hi Hd'. rewrite ids_app in Hi. apply in_app_or in Hi. destruct Hi as [Hi|[<-|[]]]; [eauto|].
      specialize (Hf (next d) ltac:(apply in_or_app; auto)). lia.
    + intros i Hi. rewrite ids_app, <- app_assoc in Hi. apply in_app_or in Hi. destruct Hi as [Hi|Hi].
      * specialize (Hf i ltac:(apply in_or_app; auto)). lia.
      * cbn in Hi. destruct Hi as [<-|Hi]; [lia|]. specialize (Hf i ltac:(apply in_or_app; auto)). lia.
    + apply Forall_app; split; auto.
    + auto.
  - destruct (find_name n (live d)) as [f|] eqn:E; cbn [fst]; [|constructor; auto].
    apply find_name_some in E. destruct E as [Hin _].
    assert (Hfi : In (fid f) (ids (live d))) by (apply in_map; auto).
    constructor; cbn.
    + apply NoDup_names_remove; auto.
    + rewrite ids_remove. apply NoDup_filter; auto.
    + rewrite ids_app. apply NoDup_snoc; auto. cbn. intro C. eauto.
    + intros i Hi Hd'. apply in_ids_remove in Hi. destruct Hi as [Hi Hne]. rewrite ids_app in Hd'.
      apply in_app_or in Hd'. destruct Hd' as [|[E|[]]]; [eauto|]. cbn in E. congruence.
    + intros i Hi. apply in_app_or in Hi. destruct Hi as [Hi|Hi].
      * apply in_ids_remove in Hi. apply Hf. apply in_or_app; tauto.
      * rewrite ids_app in Hi. apply in_app_or in Hi. destruct Hi as [Hi|[<-|[]]]; apply Hf; apply in_or_app; auto.
    + rewrite Forall_forall in *. intros g Hg. apply in_remove_id in Hg. apply Hlv; tauto.
    + apply Forall_app; split; auto.
  - destruct (find_name n (live d)) as [g|] eqn:E; cbn [fst]; [constructor; auto|].
    destruct (find_name n (dead d)) as [f|] eqn:E2; cbn [fst]; [|constructor; auto].
    apply find_name_none in E. apply find_name_some in E2. destruct E2 as [Hin Hnm].
    assert (Hfi : In (fid f) (ids (dead d))) by (apply in_map; auto).
    constructor; cbn.
    + rewrite names_app. apply NoDup_snoc; auto. cbn. congruence.
    + rewrite ids_app. apply NoDup_snoc; auto. cbn. intro C. eauto.
    + rewrite ids_remove. apply NoDup_filter; auto.
    + intros i Hi Hd'. apply in_ids_remove in Hd'. destruct Hd' as [Hd' Hne]. rewrite ids_app in Hi.
      apply in_app_or in Hi. destruct Hi as [|[E'|[]]]; [eauto|]. cbn in E'. congruence.
    + intros i Hi. apply in_app_or in Hi. destruct Hi as [Hi|Hi].
      * rewrite ids_app in Hi. apply in_app_or in Hi. destruct Hi as [Hi|[<-|[]]]; apply Hf; apply in_or_app; auto.
      * apply in_ids_remove in Hi. apply Hf. apply in_or_app; tauto.
    + apply Forall_app; split; auto.
    + rewrite Forall_forall in *. intros g Hg. apply in_remove_id in Hg. apply Hdd; tauto.
Qed.

Definition empty := {| live := []; dead := []; next := 0 |}.
Theorem fs_inv_reachable ops : Inv (fold_left (fun d o => fst (step_fixed d o)) ops empty).
Proof.
  assert (H : Inv empty) by (constructor; cbn; try constructor; try (intros ? []); intros ? ? []).
  revert H. generalize empty. induction ops as [|o ops IH]; cbn; intros d H; auto. apply IH, step_fixed_inv; auto.
Qed.

Example restore_lists_file_twice_refuted :
  exists ops, let d := fold_left (fun d o => fst (step_today d o)) ops empty in
              exists i, In i (ids (live d)) /\ In i (ids (dead d)).
Proof. exists [Create 7 false; Delete 7; Restore 7]. cbn. exists 0; auto. Qed.
Example create_existing_duplicates_refuted :
  exists ops, ~ NoDup (names (live (fold_left (fun d o => fst (step_today d o)) ops empty))).
Proof. exists [Create 7 false; Create 7 true]. cbn. intro H. inversion H as [|? ? Hn]; subst. apply Hn; left; auto. Qed.
Print Assumptions fs_inv_reachable.
