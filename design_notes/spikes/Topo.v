(* Design-round spike (not framework code): topological_sort of game/science.py is dependencies-first
   on every acyclic graph (C10).  Nodes are nat; the graph is the Python dict as an association list. *)
From Coq Require Import List Arith Bool Lia Relations.
Import ListNotations.

Definition graph := list (nat * list nat).
Fixpoint lookup (n : nat) (g : graph) : option (list nat) :=
  match g with [] => None | (k, v) :: t => if Nat.eqb n k then Some v else lookup n t end.
Definition succs (g : graph) (n : nat) : list nat := match lookup n g with Some l => l | None => [] end.
Definition mem (n : nat) (l : list nat) : bool := existsb (Nat.eqb n) l.

Definition st := (list nat * list nat)%type.   (* visited, stack *)

Fixpoint dfs (fuel : nat) (g : graph) (n : nat) (s : st) : option st :=
  match fuel with
  | O => None
  | S f =>
      let '(vis, stack) := s in
      if mem n vis then Some s else
      match fold_left (fun acc m => match acc with None => None | Some s' => dfs f g m s' end)
                      (succs g n) (Some (n :: vis, stack)) with
      | None => None
      | Some (vis', stack') => Some (vis', stack' ++ [n])
      end
  end.

Definition topo (fuel : nat) (g : graph) : option st :=
  fold_left (fun acc e => match acc with None => None | Some s => dfs fuel g (fst e) s end) g (Some ([], [])).

(* ---- spec ---- *)
Definition edge (g : graph) (a b : nat) : Prop := In b (succs g a).
Definition path (g : graph) := clos_trans nat (edge g).
Definition acyclic (g : graph) : Prop := forall x, ~ path g x x.
(* every node of the stack has all its successors strictly earlier *)
Definition ordered (g : graph) (stack : list nat) : Prop :=
  forall pre x post, stack = pre ++ x :: post -> forall y, edge g x y -> In y pre.

Lemma mem_In n l : mem n l = true <-> In n l.
Proof. unfold mem. rewrite existsb_exists. split; [intros (x & H & E); apply Nat.eqb_eq in E; subst; auto|intro; exists n; split; auto; apply Nat.eqb_refl]. Qed.

Record Inv (g : graph) (gray : list nat) (s : st) : Prop := {
  inv_cover : forall x, In x (fst s) -> In x (snd s) \/ In x gray;
  inv_sub   : forall x, In x (snd s) -> In x (fst s);
  inv_gray  : forall x, In x gray -> In x (fst s);
  inv_ord   : ordered g (snd s) }.

Lemma ordered_app_one g stack n :
  ordered g stack -> (forall y, edge g n y -> In y stack) -> ordered g (stack ++ [n]).
Proof.
  intros Ho Hn pre x post E y Hy.
  destruct post as [|p post].
  - apply app_inj_tail in E. destruct E; subst. auto.
  - assert (exists post', post' ++ [n] = p :: post) as [post' Hp].
    { destruct (exists_last (l:=p :: post)) as (l' & a & El); [discriminate|].
      rewrite El in E. rewrite app_comm_cons, app_assoc in E. apply app_inj_tail in E. destruct E; subst. eauto. }
    rewrite <- Hp in E. rewrite app_comm_cons, app_assoc in E. apply app_inj_tail in E. destruct E as [E _].
    eapply Ho; eauto.
Qed.

(* the fold over successors, stated once for an arbitrary step function with the dfs contract *)
Section Fold.
  Variables (g : graph) (gray : list nat) (step : nat -> st -> option st).
  Variable ms_all : list nat.
  Hypothesis step_ok : forall m s s', In m ms_all -> Inv g gray s -> step m s = Some s' ->
      Inv g gray s' /\ In m (snd s') /\ (exists new, snd s' = snd s ++ new) /\ (forall x, In x (fst s) -> In x (fst s')).
  Lemma fold_ok : forall ms s s', incl ms ms_all -> Inv g gray s ->
      fold_left (fun acc m => match acc with None => None | Some s0 => step m s0 end) ms (Some s) = Some s' ->
      Inv g gray s' /\ (forall m, In m ms -> In m (snd s')) /\ (exists new, snd s' = snd s ++ new)
      /\ (forall x, In x (fst s) -> In x (fst s')).
  Proof.
    induction ms as [|m ms IH]; cbn [fold_left]; intros s s' Hincl HI H.
    - inversion H; subst. split; [auto|]. split; [intros ? []|]. split; [exists []; rewrite app_nil_r; auto|auto].
    - destruct (step m s) as [s1|] eqn:E.
      + destruct (step_ok m s s1) as (HI1 & Hm & [new1 Hn1] & Hv1); auto; [apply Hincl; left; auto|].
        destruct (IH s1 s') as (HI' & Hall & [new2 Hn2] & Hv2); auto; [intros ? ?; apply Hincl; right; auto|].
        split; [auto|]. split; [|split; [|auto]].
        * intros m' [<-|Hin]; auto. rewrite Hn2. apply in_or_app; auto.
        * exists (new1 ++ new2). rewrite Hn2, Hn1, app_assoc; auto.
      + exfalso. clear -H. induction ms; cbn in H; [discriminate|auto].
  Qed.
End Fold.

Theorem dfs_ok g : acyclic g -> forall fuel n gray s s',
  Inv g gray s -> (forall x, In x gray -> path g x n) -> dfs fuel g n s = Some s' ->
  Inv g gray s' /\ In n (snd s') /\ (exists new, snd s' = snd s ++ new) /\ (forall x, In x (fst s) -> In x (fst s')).
Proof.
  intros Hac. induction fuel as [|f IH]; intros n gray [vis stack] s' HI Hg H; [discriminate|].
  cbn [dfs] in H. destruct (mem n vis) eqn:Em.
  - inversion H; subst. apply mem_In in Em. split; [auto|]. split; [|split; [exists []; rewrite app_nil_r; auto|auto]].
    destruct (inv_cover _ _ _ HI n Em) as [|Hgr]; auto. exfalso. apply (Hac n). auto.
  - assert (Hnv : ~ In n vis) by (intro C; apply mem_In in C; congruence).
    match type of H with match ?F with _ => _ end = _ => destruct F as [[vis1 stack1]|] eqn:EF end; [|discriminate].
    inversion H; subst; clear H.
    assert (HI0 : Inv g (n :: gray) (n :: vis, stack)).
    { destruct HI as [c s0 gr o]; cbn in *. constructor; cbn.
      - intros x [->|Hx]; [right; left; auto|]. destruct (c x Hx); [left|right; right]; auto.
      - intros x Hx; right; auto.
      - intros x [->|Hx]; [left; auto|right; auto].
      - auto. }
    destruct (fold_ok g (n :: gray) (dfs f g) (succs g n)) with (ms := succs g n) (s := (n :: vis, stack)) (s' := (vis1, stack1))
      as (HI1 & Hall & [new Hnew] & Hv); auto.
    { intros m s0 s1 Hm HIs Hd. eapply IH; eauto.
      intros x [->|Hx]; [apply t_step; exact Hm|]. eapply t_trans; [apply Hg; auto|apply t_step; exact Hm]. }
    { apply incl_refl. }
    cbn in *. destruct HI1 as [c1 s1 gr1 o1]; cbn in *.
    split; [|split; [|split]]; cbn.
    + constructor; cbn.
      * intros x Hx. destruct (c1 x Hx) as [|[<-|]]; [left; apply in_or_app; auto|left; apply in_or_app; right; left; auto|auto].
      * intros x Hx. apply in_app_or in Hx. destruct Hx as [|[<-|[]]]; [auto|apply Hv; left; auto].
      * intros x Hx. apply gr1; right; auto.
      * apply ordered_app_one; auto.
    + apply in_or_app; right; left; auto.
    + exists (new ++ [n]). rewrite Hnew, app_assoc; auto.
    + intros x Hx. apply Hv; right; auto.
Qed.

Lemma fold_left_map' {A B C} (F : A -> C -> A) (f : B -> C) l a :
  fold_left F (map f l) a = fold_left (fun acc e => F acc (f e)) l a.
Proof. revert a; induction l as [|e l IH]; cbn; auto. Qed.

(* the driver: every key of the graph ends up in the stack, and the stack is ordered *)
Theorem topo_ok g fuel s : acyclic g -> topo fuel g = Some s ->
  ordered g (snd s) /\ forall a, In a (map fst g) -> In a (snd s).
Proof.
  intros Hac H. unfold topo in H.
  destruct (fold_ok g [] (fun n s => dfs fuel g n s) (map fst g)) with (ms := map fst g) (s := (@nil nat, @nil nat)) (s' := s)
    as (HI & Hall & _ & _).
  - intros m s0 s1 _ HI0 Hd. eapply dfs_ok; eauto. intros x [].
  - apply incl_refl.
  - constructor; cbn; [intros ? []|intros ? []|intros ? []|]. intros pre0 x0 post0 E0. destruct pre0; cbn in E0; discriminate.
  - rewrite <- H. apply fold_left_map'.
  - split; [apply (inv_ord _ _ _ HI)|auto].
Qed.

(* dependencies-first, as update_agents needs it *)
Corollary deps_first g fuel vis stack : acyclic g -> topo fuel g = Some (vis, stack) ->
  forall a b, In a (map fst g) -> edge g a b ->
  exists pre post, stack = pre ++ a :: post /\ In b pre.
Proof.
  intros Hac H a b Ha Hab. destruct (topo_ok g fuel _ Hac H) as [Ho Hall]. cbn in *.
  destruct (in_split _ _ (Hall a Ha)) as (pre & post & E). exists pre, post. split; auto. eapply Ho; eauto.
Qed.
Print Assumptions deps_first.
