From Coq Require Import ZArith List Bool Lia.
Import ListNotations. Open Scope Z_scope.
Inductive tx := Tx (size : Z) (nested : list tx).

Section Ind.
  Variable P : tx -> Prop.
  Hypothesis H : forall s kids, Forall P kids -> P (Tx s kids).
  Fixpoint tx_ind' (t : tx) : P t :=
    match t with Tx s kids => H s kids ((fix go ks : Forall P ks := match ks with [] => Forall_nil _ | k :: ks' => Forall_cons _ (tx_ind' k) (go ks') end) kids) end.
End Ind.

Fixpoint run_post (bw : Z) (t : tx) (load : Z) {struct t} : Z :=
  match t with Tx s kids =>
    if load + s <=? bw then fold_left (fun l k => run_post bw k l) kids load + s else load end.
Fixpoint run_pre (bw : Z) (t : tx) (load : Z) {struct t} : Z :=
  match t with Tx s kids =>
    if load + s <=? bw then fold_left (fun l k => run_pre bw k l) kids (load + s) else load end.
Inductive nonneg : tx -> Prop := NN s kids : 0 <= s -> Forall nonneg kids -> nonneg (Tx s kids).

Lemma fold_inv (f : Z -> tx -> Z) bw kids : 
  Forall (fun k => forall l, l <= bw -> l <= f l k <= bw) kids ->
  forall l, l <= bw -> l <= fold_left f kids l <= bw.
Proof. induction 1 as [|k ks Hk _ IH]; cbn; intros l Hl; [lia|]. specialize (Hk l Hl). specialize (IH (f l k) ltac:(lia)). lia. Qed.

Theorem run_pre_inv bw t : nonneg t -> forall load, load <= bw -> load <= run_pre bw t load <= bw.
Proof.
  induction t as [s kids IH] using tx_ind'. intros Hn load Hl. inversion Hn as [? ? Hs Hk]; subst.
  cbn [run_pre]. destruct (load + s <=? bw) eqn:E; [|lia]. apply Z.leb_le in E.
  assert (Hf : Forall (fun k => forall l, l <= bw -> l <= run_pre bw k l <= bw) kids).
  { rewrite Forall_forall in *. intros k Hin. apply IH; auto. }
  pose proof (fold_inv (fun l k => run_pre bw k l) bw kids Hf (load + s) E). lia.
Qed.

Example post_refuted : exists bw t, nonneg t /\ run_post bw t 0 > bw.
Proof. exists 8, (Tx 5 [Tx 5 []]). split; [repeat constructor; lia| vm_compute; reflexivity]. Qed.
Print Assumptions run_pre_inv.
