(* Design-round spike (not framework code): request tree dispatch / check_valid, C05 + C11. *)
From Coq Require Import List Bool.
Import ListNotations.

Section Requests.
  Variables (St Key : Type).
  Variable key_eqb : Key -> Key -> bool.
  Hypothesis key_eqb_eq : forall a b, key_eqb a b = true <-> a = b.

  Inductive status := Success | Failure | Unreachable.
  Definition handler   := list Key -> St -> St * status.
  Definition validator := list Key -> St -> bool.

  Inductive rtree := Leaf (h : handler) | Mgr (kids : list (Key * (validator * rtree))).

  Fixpoint lookup {B} (k : Key) (l : list (Key * B)) : option B :=
    match l with [] => None | (k', b) :: t => if key_eqb k k' then Some b else lookup k t end.

  (* RequestManager.__call__, in the shape the translator emits; [Leaf h] plays request_type.func *)
  Fixpoint dispatch (t : rtree) (r : list Key) (s : St) {struct t} : St * status :=
    match t with
    | Leaf h => h r s
    | Mgr kids =>
        match r with
        | [] => (s, Unreachable)          (* request[0] on an empty list: modelled as unreachable *)
        | k :: opts =>
            (fix find (l : list (Key * (validator * rtree))) : St * status :=
               match l with
               | [] => (s, Unreachable)
               | (k', (v, sub)) :: tl =>
                   if key_eqb k k' then (if v opts s then dispatch sub opts s else (s, Failure)) else find tl
               end) kids
        end
    end.

  (* check_valid as written today: validator consulted only at a leaf *)
  Fixpoint check_valid (t : rtree) (r : list Key) (s : St) (leaf_guard : bool) {struct t} : bool :=
    match t with
    | Leaf _ => leaf_guard
    | Mgr kids =>
        match r with
        | [] => false
        | k :: opts =>
            (fix find (l : list (Key * (validator * rtree))) : bool :=
               match l with
               | [] => false
               | (k', (v, sub)) :: tl =>
                   if key_eqb k k' then check_valid sub opts s (v opts s) else find tl
               end) kids
        end
    end.

  (* repaired walk: every edge's validator *)
  Fixpoint check_valid_fixed (t : rtree) (r : list Key) (s : St) {struct t} : bool :=
    match t with
    | Leaf _ => true
    | Mgr kids =>
        match r with
        | [] => false
        | k :: opts =>
            (fix find (l : list (Key * (validator * rtree))) : bool :=
               match l with
               | [] => false
               | (k', (v, sub)) :: tl =>
                   if key_eqb k k' then (v opts s && check_valid_fixed sub opts s) else find tl
               end) kids
        end
    end.

  (* Spec: the request reaches a handler *)
  Inductive reaches : rtree -> list Key -> St -> Prop :=
  | R_leaf h r s : reaches (Leaf h) r s
  | R_mgr kids k opts s v sub pre post :
      kids = pre ++ (k, (v, sub)) :: post ->
      (forall k' x, In (k', x) pre -> k' <> k) ->
      v opts s = true -> reaches sub opts s -> reaches (Mgr kids) (k :: opts) s.

  Section Ind.
    Variable P : rtree -> Prop.
    Hypothesis HL : forall h, P (Leaf h).
    Hypothesis HM : forall kids, Forall (fun e => P (snd (snd e))) kids -> P (Mgr kids).
    Fixpoint rtree_ind' (t : rtree) : P t :=
      match t with
      | Leaf h => HL h
      | Mgr kids => HM kids ((fix go l : Forall (fun e => P (snd (snd e))) l :=
                               match l with [] => Forall_nil _ | e :: tl => Forall_cons e (rtree_ind' (snd (snd e))) (go tl) end) kids)
      end.
  End Ind.

  Lemma key_refl k : key_eqb k k = true. Proof. apply key_eqb_eq; auto. Qed.
  Lemma key_neq a b : key_eqb a b = false <-> a <> b.
  Proof. destruct (key_eqb a b) eqn:E; split; intro H; try discriminate; try (apply key_eqb_eq in E; contradiction); auto.
         intro; subst. rewrite key_refl in E; discriminate. Qed.

  Theorem check_valid_fixed_iff : forall t r s, check_valid_fixed t r s = true <-> reaches t r s.
  Proof.
    induction t as [h|kids IH] using rtree_ind'; intros r s; cbn [check_valid_fixed].
    - split; [constructor|auto].
    - destruct r as [|k opts]; [split; [discriminate|inversion 1]|].
      induction kids as [|[k' [v sub]] tl IHk].
      + split; [discriminate|]. inversion 1 as [|? ? ? ? ? ? pre post E]; subst; try (destruct pre; discriminate).
      + inversion IH as [|? ? Hsub Htl]; subst. cbn in Hsub.
        destruct (key_eqb k k') eqn:E.
        * apply key_eqb_eq in E; subst k'. rewrite andb_true_iff, Hsub. split.
          -- intros [Hv Hr]. eapply (R_mgr _ k opts s v sub [] tl); auto; try (intros ? ? []).
          -- inversion 1 as [|? ? ? ? v0 sub0 pre post Ek Hpre Hv Hr]; subst.
             destruct pre as [|[k0 x0] pre].
             ++ cbn in Ek. inversion Ek; subst; auto.
             ++ cbn in Ek. injection Ek as E1 E2 E3. exfalso. eapply (Hpre k0 x0); [left; reflexivity|congruence].
        * apply key_neq in E. rewrite (IHk Htl). split.
          -- inversion 1 as [|? ? ? ? v0 sub0 pre post Ek Hpre Hv Hr]; subst.
             eapply (R_mgr _ k opts s v0 sub0 ((k', (v, sub)) :: pre) post); auto.
             intros k0 x [Hin|Hin]; [inversion Hin; subst; auto|eauto].
          -- inversion 1 as [|? ? ? ? v0 sub0 pre post Ek Hpre Hv Hr]; subst.
             destruct pre as [|[k0 x0] pre]; cbn in Ek; inversion Ek; subst; [contradiction|].
             eapply (R_mgr _ k opts s v0 sub0 pre post); auto. intros; eapply Hpre; right; eauto.
  Qed.

  (* refused requests change nothing and are never Success *)
  Theorem dispatch_refused_frame : forall t r s, ~ reaches t r s ->
    fst (dispatch t r s) = s /\ snd (dispatch t r s) <> Success.
  Proof.
    induction t as [h|kids IH] using rtree_ind'; intros r s Hn.
    - exfalso; apply Hn; constructor.
    - cbn [dispatch]. destruct r as [|k opts]; [split; [reflexivity|discriminate]|].
      induction kids as [|[k' [v sub]] tl IHk]; [split; [reflexivity|discriminate]|].
      inversion IH as [|? ? Hsub Htl]; subst. cbn in Hsub.
      destruct (key_eqb k k') eqn:E.
      + apply key_eqb_eq in E; subst k'. destruct (v opts s) eqn:Hv; [|split; [reflexivity|discriminate]].
        apply Hsub. intro Hr. apply Hn. eapply (R_mgr _ k opts s v sub [] tl); auto; try (intros ? ? []).
      + apply key_neq in E. apply IHk; auto. intro Hr. apply Hn.
        inversion Hr as [|? ? ? ? v0 sub0 pre post Ek Hpre Hv Hr']; subst.
        eapply (R_mgr _ k opts s v0 sub0 ((k', (v, sub)) :: pre) post); auto.
        intros k0 x [Hin|Hin]; [inversion Hin; subst; auto|eauto].
  Qed.
End Requests.

(* today's check_valid is refuted: a guarded edge above an unguarded leaf *)
Example check_valid_refuted :
  exists (t : rtree unit nat) r s,
    check_valid unit nat Nat.eqb t r s true = true /\ ~ reaches unit nat t r s.
Proof.
  exists (Mgr _ _ [(1, ((fun _ _ => false), Mgr _ _ [(2, ((fun _ _ => true), Leaf _ _ (fun _ s => (s, Success))))]))]).
  exists [1; 2], tt. split; [reflexivity|].
  inversion 1 as [|? ? ? ? v sub pre post E Hpre Hv Hr]; subst.
  destruct pre as [|? pre]; cbn in E; inversion E; subst; [discriminate|destruct pre; discriminate].
Qed.
Print Assumptions check_valid_fixed_iff.
Print Assumptions dispatch_refused_frame.
