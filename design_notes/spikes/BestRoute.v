(* Design-round spike (not framework code): RouteTable.find_best_route = longest prefix, lowest metric, first on ties (C08). *)
From Coq Require Import ZArith List Bool Lia.
Import ListNotations. Open Scope Z_scope.

Record route := { r_net : Z; r_plen : Z; r_hop : Z; r_metric : Z }.   (* metric as Z here; Q in the real model *)
Section R.
  Variable covers : route -> Z -> bool.          (* destination_ip in IPv4Network(address/mask) : ipaddress contract *)

  (* loop state: (best_route, longest_prefix, lowest_metric); lowest_metric = None encodes float("inf") *)
  Definition st := (option route * Z * option Z)%type.
  Definition better (r : route) (s : st) : bool :=
    let '(_, lp, lm) := s in
    (r_plen r >? lp) || ((r_plen r =? lp) && match lm with None => true | Some m => r_metric r <? m end).
  Definition step (d : Z) (s : st) (r : route) : st :=
    if covers r d then (if better r s then (Some r, r_plen r, Some (r_metric r)) else s) else s.
  Definition find_best (routes : list route) (dflt : option route) (d : Z) : option route :=
    match fst (fst (fold_left (step d) routes (None, -1, None))) with
    | Some r => Some r
    | None => dflt
    end.

  Definition beats (a b : route) : Prop := r_plen b < r_plen a \/ (r_plen b = r_plen a /\ r_metric a <= r_metric b).

  (* invariant of the scan over a prefix [seen] *)
  Definition Inv (d : Z) (seen : list route) (s : st) : Prop :=
    let '(b, lp, lm) := s in
    match b with
    | None => lp = -1 /\ lm = None /\ forall r, In r seen -> covers r d = false
    | Some r => In r seen /\ covers r d = true /\ lp = r_plen r /\ lm = Some (r_metric r) /\
                forall r', In r' seen -> covers r' d = true -> beats r r'
    end.

  Hypothesis plen_nonneg : forall r, 0 <= r_plen r.

  Lemma step_inv d seen s r : Inv d seen s -> Inv d (seen ++ [r]) (step d s r).
  Proof.
    destruct s as [[b lp] lm]. unfold step, Inv. intro H.
    destruct (covers r d) eqn:Ec.
    - destruct b as [b|].
      + destruct H as (Hin & Hc & -> & -> & Hbest). cbn [better].
        destruct ((r_plen r >? r_plen b) || (r_plen r =? r_plen b) && (r_metric r <? r_metric b)) eqn:Eb.
        * repeat split; auto; [apply in_or_app; right; left; auto|].
          intros r' Hin' Hc'. apply in_app_or in Hin'. destruct Hin' as [Hin'|[<-|[]]].
          -- specialize (Hbest r' Hin' Hc'). unfold beats in *. lia.
          -- unfold beats; lia.
        * repeat split; auto; [apply in_or_app; auto|].
          intros r' Hin' Hc'. apply in_app_or in Hin'. destruct Hin' as [Hin'|[<-|[]]]; auto.
          unfold beats. lia.
      + destruct H as (-> & -> & Hnone). cbn [better]. pose proof (plen_nonneg r).
        replace ((r_plen r >? -1) || (r_plen r =? -1) && true) with true by lia.
        repeat split; auto; [apply in_or_app; right; left; auto|].
        intros r' Hin' Hc'. apply in_app_or in Hin'. destruct Hin' as [Hin'|[<-|[]]].
        * rewrite Hnone in Hc'; auto; discriminate.
        * unfold beats; lia.
    - destruct b as [b|].
      + destruct H as (Hin & Hc & -> & -> & Hbest). repeat split; auto; [apply in_or_app; auto|].
        intros r' Hin' Hc'. apply in_app_or in Hin'. destruct Hin' as [Hin'|[<-|[]]]; auto. congruence.
      + destruct H as (-> & -> & Hnone). repeat split; auto.
        intros r' Hin'. apply in_app_or in Hin'. destruct Hin' as [Hin'|[<-|[]]]; auto.
  Qed.

  Lemma fold_inv d : forall rs seen s, Inv d seen s -> Inv d (seen ++ rs) (fold_left (step d) rs s).
  Proof.
    induction rs as [|r rs IH]; cbn [fold_left]; intros seen s H; [rewrite app_nil_r; auto|].
    replace (seen ++ r :: rs) with ((seen ++ [r]) ++ rs) by (rewrite <- app_assoc; auto).
    apply IH. apply step_inv; auto.
  Qed.

  Theorem best_route_spec routes dflt d :
    match find_best routes dflt d with
    | Some r => (In r routes /\ covers r d = true /\ forall r', In r' routes -> covers r' d = true -> beats r r')
                \/ (dflt = Some r /\ forall r', In r' routes -> covers r' d = false)
    | None => dflt = None /\ forall r', In r' routes -> covers r' d = false
    end.
  Proof.
    unfold find_best. pose proof (fold_inv d routes [] (None, -1, None)) as H. cbn [app] in H.
    assert (H0 : Inv d [] (None, -1, None)) by (cbn; repeat split; auto; intros ? []).
    specialize (H H0). destruct (fold_left (step d) routes (None, -1, None)) as [[b lp] lm]. cbn [fst].
    unfold Inv in H. destruct b as [b|].
    - left. destruct H as (Hin & Hc & _ & _ & Hb). auto.
    - destruct H as (_ & _ & Hn). destruct dflt; [right|]; auto.
  Qed.
End R.
Print Assumptions best_route_spec.
