(* Design-round spike (not framework code): observation-space membership for a host with padded service slots (C02/C09). *)
From Coq Require Import ZArith List Bool Lia.
Import ListNotations. Open Scope Z_scope.

Inductive key := KStr (s : nat) | KInt (i : Z).         (* names are interned by the harness *)
Inductive space := Discrete (n : Z) | SDict (fields : list (key * space)).
Inductive obs := OInt (v : Z) | ODict (fields : list (key * obs)).

Definition key_eqb a b := match a, b with KStr x, KStr y => Nat.eqb x y | KInt x, KInt y => Z.eqb x y | _, _ => false end.

(* gymnasium Dict.contains: same keys (we keep order too: both sides are built by the same traversal) *)
Fixpoint contains (s : space) (o : obs) {struct o} : bool :=
  match s, o with
  | Discrete n, OInt v => (0 <=? v) && (v <? n)
  | SDict fs, ODict os =>
      (fix go (fs : list (key * space)) (os : list (key * obs)) {struct os} : bool :=
         match fs, os with
         | [], [] => true
         | (k, s') :: fs', (k', o') :: os' => key_eqb k k' && contains s' o' && go fs' os'
         | _, _ => false
         end) fs os
  | _, _ => false
  end.

(* ---- ServiceObservation ---- *)
Definition k_op := KStr 1. Definition k_health := KStr 2.
Record svc_state := { s_op : Z; s_actual : Z; s_visible : Z }.
Definition svc_space := SDict [(k_op, Discrete 7); (k_health, Discrete 5)].
Definition svc_default := ODict [(k_op, OInt 0); (k_health, OInt 0)].
Definition svc_observe (requires_scan : bool) (st : option svc_state) : obs :=
  match st with
  | None => svc_default
  | Some s => ODict [(k_op, OInt (s_op s)); (k_health, OInt (if requires_scan then s_visible s else s_actual s))]
  end.
(* ranges as extracted from the simulator's enums: ServiceOperatingState 1..6, SoftwareHealthState 0..4 *)
Definition svc_valid (s : svc_state) := 1 <= s_op s <= 6 /\ 0 <= s_actual s <= 4 /\ 0 <= s_visible s <= 4.

Lemma svc_in_space rs st : (forall s, st = Some s -> svc_valid s) -> contains svc_space (svc_observe rs st) = true.
Proof.
  destruct st as [s|]; intros H; [|reflexivity]. destruct (H s eq_refl) as (A & B & C).
  cbn. destruct rs; repeat (apply andb_true_intro; split); try reflexivity; lia.
Qed.

(* ---- HostObservation: operating_status + SERVICES {1..n}, slots padded with absent services ---- *)
Definition k_status := KStr 3. Definition k_services := KStr 4.
Fixpoint enum_from {A} (i : Z) (l : list A) : list (key * A) :=
  match l with [] => [] | a :: t => (KInt i, a) :: enum_from (i + 1) t end.

Record host_cfg := { requires_scan : bool; slots : list (option nat) (* Some name = configured, None = padding *) }.
Record host_state := { h_power : Z; h_services : nat -> option svc_state }.
Definition host_space (c : host_cfg) : space :=
  SDict ((k_status, Discrete 5) ::
         (if slots c then [] else [(k_services, SDict (enum_from 1 (map (fun _ => svc_space) (slots c))))])).
Definition slot_obs (c : host_cfg) (h : host_state) (sl : option nat) : obs :=
  svc_observe (requires_scan c) (match sl with Some n => h_services h n | None => None end).
(* node present: services observed only when ON (1); otherwise defaults; operating_status always the true value *)
Definition host_observe (c : host_cfg) (h : host_state) : obs :=
  let svcs := if h_power h =? 1 then map (slot_obs c h) (slots c) else map (fun _ => svc_default) (slots c) in
  ODict ((k_status, OInt (h_power h)) ::
         (if slots c then [] else [(k_services, ODict (enum_from 1 svcs))])).
Definition host_valid (h : host_state) := 1 <= h_power h <= 4 /\ forall n s, h_services h n = Some s -> svc_valid s.

Lemma contains_enum : forall (ss : list space) (os : list obs) i,
  Forall2 (fun s o => contains s o = true) ss os ->
  contains (SDict (enum_from i ss)) (ODict (enum_from i os)) = true.
Proof.
  intros ss os i H. revert i. induction H as [|s o ss os Hso _ IH]; intro i; [reflexivity|].
  cbn [enum_from]. cbn. rewrite Z.eqb_refl, Hso. cbn. specialize (IH (i + 1)). cbn in IH. exact IH.
Qed.

Theorem host_in_space c h : host_valid h -> contains (host_space c) (host_observe c h) = true.
Proof.
  intros [Hp Hs]. unfold host_space, host_observe.
  assert (Hsv : forall os, Forall2 (fun s o => contains s o = true) (map (fun _ => svc_space) (slots c)) os ->
                contains (SDict ((k_status, Discrete 5) :: (if slots c then [] else [(k_services, SDict (enum_from 1 (map (fun _ => svc_space) (slots c))))])))
                         (ODict ((k_status, OInt (h_power h)) :: (if slots c then [] else [(k_services, ODict (enum_from 1 os))]))) = true).
  { intros os HF. destruct (slots c) eqn:E.
    - cbn. replace (0 <=? h_power h) with true by lia. replace (h_power h <? 5) with true by lia. reflexivity.
    - pose proof (contains_enum _ _ 1 HF) as Hc.
      cbn [contains key_eqb k_status k_services]. rewrite !Nat.eqb_refl.
      replace (0 <=? h_power h) with true by lia. replace (h_power h <? 5) with true by lia.
      cbn [andb]. cbn in Hc |- *. rewrite Hc. reflexivity. }
  apply Hsv. clear Hsv. destruct (h_power h =? 1).
  - induction (slots c) as [|sl t IH]; cbn; constructor; auto.
    apply svc_in_space. intros s Hs'. destruct sl; [eauto|discriminate].
  - induction (slots c) as [|sl t IH]; cbn; constructor; auto.
Qed.
Print Assumptions host_in_space.
