(* Design-round spike (not framework code): node power machine (C12): invariant, refutations for duration 0, dwell time. *)
From Coq Require Import ZArith List Bool Lia.
Import ListNotations. Open Scope Z_scope.

Inductive ps := ON | OFF | BOOTING | SHUTTING_DOWN.
Record cfg := { up_d : Z; down_d : Z }.
Record node := { st : ps; up_cd : Z; down_cd : Z; resetting : bool; nic : bool (* one linked interface *) }.

Definition ps_eqb a b := match a, b with ON,ON|OFF,OFF|BOOTING,BOOTING|SHUTTING_DOWN,SHUTTING_DOWN => true | _,_ => false end.

(* WiredNetworkInterface.enable: refuses unless the node is ON *)
Definition nic_enable (s : ps) (e : bool) : bool := if e then true else ps_eqb s ON.

Definition power_on (c : cfg) (n : node) : node :=
  if up_d c <=? 0 then {| st := ON; up_cd := up_cd n; down_cd := down_cd n; resetting := resetting n; nic := nic_enable ON (nic n) |}
  else if ps_eqb (st n) OFF then {| st := BOOTING; up_cd := up_d c; down_cd := down_cd n; resetting := resetting n; nic := nic n |}
  else n.

(* as written today: the zero-duration branch neither disables interfaces nor honours is_resetting *)
Definition power_off (c : cfg) (n : node) : node :=
  if down_d c <=? 0 then {| st := OFF; up_cd := up_cd n; down_cd := down_cd n; resetting := resetting n; nic := nic n |}
  else if ps_eqb (st n) ON then {| st := SHUTTING_DOWN; up_cd := up_cd n; down_cd := down_d c; resetting := resetting n; nic := false |}
  else n.
(* repaired *)
Definition power_off_fixed (c : cfg) (n : node) : node :=
  if down_d c <=? 0 then
    let n1 := {| st := OFF; up_cd := up_cd n; down_cd := down_cd n; resetting := false; nic := false |} in
    if resetting n then power_on c n1 else n1
  else if ps_eqb (st n) ON then {| st := SHUTTING_DOWN; up_cd := up_cd n; down_cd := down_d c; resetting := resetting n; nic := false |}
  else n.

Section M.
  Variable poff : cfg -> node -> node.
  Definition reset (c : cfg) (n : node) : node :=
    poff c {| st := st n; up_cd := up_cd n; down_cd := down_cd n; resetting := true; nic := nic n |}.

  Definition tick (c : cfg) (n : node) : node :=
    let n1 := if 0 <? up_cd n then {| st := st n; up_cd := up_cd n - 1; down_cd := down_cd n; resetting := resetting n; nic := nic n |}
              else if ps_eqb (st n) BOOTING then {| st := ON; up_cd := up_cd n; down_cd := down_cd n; resetting := resetting n; nic := nic_enable ON (nic n) |}
              else n in
    if 0 <? down_cd n1 then {| st := st n1; up_cd := up_cd n1; down_cd := down_cd n1 - 1; resetting := resetting n1; nic := nic n1 |}
    else if ps_eqb (st n1) SHUTTING_DOWN then
      let n2 := {| st := OFF; up_cd := up_cd n1; down_cd := down_cd n1; resetting := resetting n1; nic := nic n1 |} in
      if resetting n2 then power_on c {| st := OFF; up_cd := up_cd n2; down_cd := down_cd n2; resetting := false; nic := nic n2 |} else n2
    else n1.

  Inductive op := Shutdown | Startup | Reset | Tick | NicEnable.
  (* requests pass the node-is-on / node-is-off validators first *)
  Definition step (c : cfg) (n : node) (o : op) : node :=
    match o with
    | Shutdown => if ps_eqb (st n) ON then poff c n else n
    | Startup => if ps_eqb (st n) OFF then power_on c n else n
    | Reset => if ps_eqb (st n) ON then reset c n else n
    | Tick => tick c n
    | NicEnable => if ps_eqb (st n) ON then {| st := st n; up_cd := up_cd n; down_cd := down_cd n; resetting := resetting n; nic := nic_enable (st n) (nic n) |} else n
    end.
  Definition run c n ops := fold_left (step c) ops n.
End M.

Definition init := {| st := ON; up_cd := 0; down_cd := 0; resetting := false; nic := true |}.
Definition Inv (n : node) : Prop := st n <> ON -> nic n = false.

Lemma step_inv_fixed c n o : Inv n -> Inv (step power_off_fixed c n o).
Proof.
  unfold Inv. destruct n as [s u d r e]. intros H.
  assert (He : s <> ON -> e = false) by exact H. clear H.
  destruct s; [clear He|specialize (He ltac:(discriminate)); subst e..];
  destruct o; cbn; unfold reset, power_off_fixed, tick; cbn;
  repeat (first [ progress (unfold power_on, nic_enable; cbn)
                | match goal with |- context [if ?b then _ else _] => destruct b eqn:? end; cbn in * ]);
  try congruence; auto; intro Hc; exfalso; apply Hc; reflexivity.
Qed.

Theorem not_on_nics_disabled_fixed c ops : Inv (run power_off_fixed c init ops).
Proof.
  unfold run. assert (H : Inv init) by (unfold Inv; cbn; congruence). revert H. generalize init.
  induction ops as [|o ops IH]; cbn; intros n H; auto. apply IH. apply step_inv_fixed; auto.
Qed.

Example zero_shutdown_nics_enabled_refuted :
  exists c ops, down_d c = 0 /\ let n := run power_off c init ops in st n = OFF /\ nic n = true.
Proof. exists {| up_d := 3; down_d := 0 |}, [Shutdown]. cbn. auto. Qed.

Example zero_shutdown_reset_never_restarts_refuted :
  exists c, down_d c = 0 /\ forall k, st (run power_off c init (Reset :: repeat Tick k)) = OFF.
Proof.
  exists {| up_d := 3; down_d := 0 |}. split; auto. intro k. unfold run. cbn [fold_left].
  set (n0 := {| st := OFF; up_cd := 0; down_cd := 0; resetting := true; nic := true |}).
  assert (E0 : step power_off {| up_d := 3; down_d := 0 |} init Reset = n0) by reflexivity. rewrite E0.
  assert (F : forall j, fold_left (step power_off {| up_d := 3; down_d := 0 |}) (repeat Tick j) n0 = n0).
  { induction j as [|k' IHk]; cbn [repeat fold_left]; [reflexivity|]. replace (step power_off {| up_d := 3; down_d := 0 |} n0 Tick) with n0 by reflexivity. exact IHk. } rewrite F; auto.
Qed.

(* dwell time: after a shutdown request with duration d>0 the node is SHUTTING_DOWN for d ticks and OFF at tick d+1 *)
Lemma dwell_shutdown c n k : 0 < down_d c -> st n = SHUTTING_DOWN -> resetting n = false -> up_cd n = 0 ->
  0 <= down_cd n -> Z.of_nat k <= down_cd n ->
  let n' := fold_left (step power_off_fixed c) (repeat Tick k) n in
  st n' = SHUTTING_DOWN /\ down_cd n' = down_cd n - Z.of_nat k /\ resetting n' = false /\ up_cd n' = 0.
Proof.
  intros Hd. revert n. induction k as [|k IH]; intros n Hs Hr Hu H0 Hk; cbn [repeat fold_left].
  - cbn. repeat split; auto; lia.
  - assert (E : tick c n = {| st := SHUTTING_DOWN; up_cd := 0; down_cd := down_cd n - 1; resetting := false; nic := nic n |}).
    { destruct n as [s u d r e]; cbn in *; subst. unfold tick; cbn.
      replace (0 <? d) with true by lia. reflexivity. }
    cbn [step]. rewrite E. destruct (IH {| st := SHUTTING_DOWN; up_cd := 0; down_cd := down_cd n - 1; resetting := false; nic := nic n |})
      as (A & B & C & D); cbn; auto; try lia.
    repeat split; auto. cbn in B. lia.
Qed.
Print Assumptions not_on_nics_disabled_fixed.
