From Coq Require Import ZArith List Bool Lia.
Import ListNotations.
Open Scope Z_scope.

(* shape the translator would emit for ip_matches_masked_range / permit_frame_check / is_permitted *)
Inductive action := PERMIT | DENY.
Record rule := { r_action : action; r_proto : option Z; r_src : option Z; r_srcw : option Z;
                 r_dst : option Z; r_dstw : option Z; r_sport : option Z; r_dport : option Z; r_count : Z }.
Record pkt := { p_proto : Z; p_src : Z; p_dst : Z; p_sport : option Z; p_dport : option Z }.

Definition ip_matches_masked_range (ip base wc : Z) : bool :=
  Z.eqb (Z.land base (Z.lnot wc)) (Z.land ip (Z.lnot wc)).

(* python truthiness of Optional[int] : None or 0 is falsy *)
Definition truthy (o : option Z) : bool := match o with Some v => negb (Z.eqb v 0) | None => false end.
Definition opt_eqb (a b : option Z) : bool :=
  match a, b with Some x, Some y => Z.eqb x y | None, None => true | _, _ => false end.

Definition ip_field (ip w : option Z) (x : Z) : bool :=
  match ip with
  | None => true
  | Some b => match w with Some wc => ip_matches_masked_range x b wc | None => Z.eqb x b end
  end.

Definition matches (r : rule) (p : pkt) : bool :=
  (match r_proto r with Some q => Z.eqb q (p_proto p) | None => true end)
  && ip_field (r_src r) (r_srcw r) (p_src p)
  && ip_field (r_dst r) (r_dstw r) (p_dst p)
  && (if truthy (r_sport r) then opt_eqb (r_sport r) (p_sport p) else true)
  && (if truthy (r_dport r) then opt_eqb (r_dport r) (p_dport p) else true).

Definition bump (r : rule) : rule :=
  {| r_action := r_action r; r_proto := r_proto r; r_src := r_src r; r_srcw := r_srcw r; r_dst := r_dst r;
     r_dstw := r_dstw r; r_sport := r_sport r; r_dport := r_dport r; r_count := r_count r + 1 |}.

(* loop "for _rule in self._acl: if not _rule: continue; ...; if rule_match: break" as structural recursion *)
Fixpoint scan (acl : list (option rule)) (p : pkt) : option (nat * rule) :=
  match acl with
  | [] => None
  | None :: t => option_map (fun '(i, r) => (S i, r)) (scan t p)
  | Some r :: t => if matches r p then Some (O, r) else option_map (fun '(i, r) => (S i, r)) (scan t p)
  end.

Definition permitted_b (a : action) := match a with PERMIT => true | DENY => false end.

Definition is_permitted (acl : list (option rule)) (implicit : rule) (p : pkt)
  : bool * list (option rule) * rule :=
  match scan acl p with
  | Some (i, r) => (permitted_b (r_action r),
                    firstn i acl ++ Some (bump r) :: skipn (S i) acl, implicit)
  | None => (permitted_b (r_action implicit), acl, bump implicit)
  end.

(* ---- spec: first matching rule by position ---- *)
Definition first_match (acl : list (option rule)) (p : pkt) (i : nat) (r : rule) : Prop :=
  nth_error acl i = Some (Some r) /\ matches r p = true /\
  forall j r', (j < i)%nat -> nth_error acl j = Some (Some r') -> matches r' p = false.

Lemma scan_spec acl p : match scan acl p with
  | Some (i, r) => first_match acl p i r
  | None => forall j r', nth_error acl j = Some (Some r') -> matches r' p = false end.
Proof.
  induction acl as [|[r|] t IH]; cbn [scan].
  - intros j r' H; destruct j; discriminate.
  - destruct (matches r p) eqn:Hm.
    + repeat split; auto. intros j r' Hj; lia.
    + destruct (scan t p) as [[i r0]|]; cbn.
      * destruct IH as (H1 & H2 & H3). repeat split; auto.
        intros [|j] r' Hj Hn; cbn in Hn. { inversion Hn; subst; auto. } apply (H3 j); auto; lia.
      * intros [|j] r' Hn; cbn in Hn. { inversion Hn; subst; auto. } eauto.
  - destruct (scan t p) as [[i r0]|]; cbn.
    + destruct IH as (H1 & H2 & H3). repeat split; auto.
      intros [|j] r' Hj Hn; cbn in Hn; [discriminate|]. apply (H3 j); auto; lia.
    + intros [|j] r' Hn; cbn in Hn; [discriminate|]; eauto.
Qed.

(* wildcard semantics, bit level *)
Lemma masked_range_bits ip base wc :
  ip_matches_masked_range ip base wc = true <->
  forall n, 0 <= n -> Z.testbit wc n = false -> Z.testbit ip n = Z.testbit base n.
Proof.
  unfold ip_matches_masked_range. rewrite Z.eqb_eq. split.
  - intros H n Hn Hw. apply (f_equal (fun z => Z.testbit z n)) in H.
    rewrite !Z.land_spec, Z.lnot_spec, Hw in H by lia. cbn in H. rewrite !andb_true_r in H. auto.
  - intros H. apply Z.bits_inj'. intros n Hn. rewrite !Z.land_spec, Z.lnot_spec by lia.
    destruct (Z.testbit wc n) eqn:Hw; cbn; [rewrite !andb_false_r; auto|]. rewrite !andb_true_r. symmetry; auto.
Qed.

Lemma nth_error_firstn_lt {A} (l : list A) n j : (j < n)%nat -> nth_error (firstn n l) j = nth_error l j.
Proof. revert n j; induction l as [|a l IH]; intros [|n] [|j] H; cbn; try lia; auto. apply IH; lia. Qed.

Lemma nth_error_skipn' {A} (l : list A) n j : nth_error (skipn n l) j = nth_error l (n + j).
Proof. revert l; induction n as [|n IH]; intros [|a l]; cbn; auto. destruct j; auto. Qed.

(* frame property: only the deciding rule's counter changes *)
Lemma is_permitted_frame acl imp p :
  let '(_, acl', imp') := is_permitted acl imp p in
  length acl' = length acl /\
  match scan acl p with
  | Some (i, r) => imp' = imp /\ nth_error acl' i = Some (Some (bump r)) /\
                   forall j, j <> i -> nth_error acl' j = nth_error acl j
  | None => acl' = acl /\ imp' = bump imp end.
Proof.
  unfold is_permitted. pose proof (scan_spec acl p) as S. destruct (scan acl p) as [[i r]|].
  - destruct S as (Hn & _ & _).
    assert (Hi : (i < length acl)%nat) by (apply nth_error_Some; congruence).
    split; [| split; [reflexivity | split]].
    + rewrite app_length, firstn_length_le by lia. cbn [length]. rewrite skipn_length. lia.
    + rewrite nth_error_app2 by (rewrite firstn_length_le; lia). rewrite firstn_length_le by lia.
      replace (i - i)%nat with O by lia. reflexivity.
    + intros j Hj. destruct (Nat.lt_ge_cases j i).
      * rewrite nth_error_app1 by (rewrite firstn_length_le; lia). apply nth_error_firstn_lt; auto.
      * rewrite nth_error_app2 by (rewrite firstn_length_le; lia). rewrite firstn_length_le by lia.
        destruct (j - i)%nat eqn:E; [lia|]. cbn [nth_error]. rewrite nth_error_skipn'. f_equal. lia.
  - auto.
Qed.
Print Assumptions is_permitted_frame.
Print Assumptions masked_range_bits.
