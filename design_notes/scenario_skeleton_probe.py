import warnings, copy, json
warnings.filterwarnings("ignore")
from primaite.session.environment import PrimaiteGymEnv
def host(name, ip, gw=None, typ="computer", **kw):
    d={"hostname":name,"type":typ,"ip_address":ip,"subnet_mask":"255.255.255.0"}
    if gw: d["default_gateway"]=gw
    d.update(kw); return d
nodes=[
 {"hostname":"sw1","type":"switch","num_ports":4},
 {"hostname":"r1","type":"router","num_ports":3,
  "ports":{1:{"ip_address":"10.0.1.1","subnet_mask":"255.255.255.0"},2:{"ip_address":"10.0.2.1","subnet_mask":"255.255.255.0"}},
  "acl":{18:{"action":"PERMIT","protocol":"TCP","dst_port":"SSH"},22:{"action":"PERMIT","src_port":"ARP","dst_port":"ARP"},23:{"action":"PERMIT","protocol":"ICMP"}}},
 host("a","10.0.1.10","10.0.1.1",applications=[{"type":"data-manipulation-bot","options":{"server_ip":"10.0.2.10"}}],
      users=[{"username":"u1","password":"p1","is_admin":False}], folders=[{"folder_name":"docs","files":[{"file_name":"x.txt"}]}]),
 host("b","10.0.2.10","10.0.2.1",typ="server",services=[{"type":"database-service"},{"type":"web-server"}],start_up_duration=1,shut_down_duration=0),
 host("c","10.0.1.11","10.0.1.1",operating_state="OFF"),
]
links=[
 {"endpoint_a_hostname":"sw1","endpoint_a_port":1,"endpoint_b_hostname":"a","endpoint_b_port":1,"bandwidth":100},
 {"endpoint_a_hostname":"sw1","endpoint_a_port":2,"endpoint_b_hostname":"c","endpoint_b_port":1},
 {"endpoint_a_hostname":"sw1","endpoint_a_port":3,"endpoint_b_hostname":"r1","endpoint_b_port":1},
 {"endpoint_a_hostname":"r1","endpoint_a_port":2,"endpoint_b_hostname":"b","endpoint_b_port":1,"bandwidth":1},
]
amap={0:{"action":"do-nothing","options":{}},
 1:{"action":"node-shutdown","options":{"node_name":"b"}},
 2:{"action":"node-startup","options":{"node_name":"b"}},
 3:{"action":"node-file-scan","options":{"node_name":"a","folder_name":"docs","file_name":"x.txt"}},
 4:{"action":"router-acl-add-rule","options":{"target_router":"r1","position":1,"permission":"DENY","src_ip":"10.0.1.10","src_wildcard":"NONE","src_port":"ALL","dst_ip":"ALL","dst_wildcard":"NONE","dst_port":"ALL","protocol_name":"ALL"}},
 5:{"action":"node-service-stop","options":{"node_name":"b","service_name":"web-server"}},
 6:{"action":"node-file-create","options":{"node_name":"nope","folder_name":"d","file_name":"f"}},
}
obs={"type":"custom","options":{"components":[
  {"type":"nodes","label":"NODES","options":{
     "hosts":[{"hostname":"a","folders":[{"folder_name":"docs","files":[{"file_name":"x.txt"}]}]},{"hostname":"b","services":[{"service_name":"web-server"}]},{"hostname":"ghost"}],
     "routers":[{"hostname":"r1"}],
     "num_services":2,"num_applications":1,"num_folders":1,"num_files":1,"num_nics":1,"include_nmne":False,"include_num_access":True,
     "num_ports":3,"ip_list":["10.0.1.10","10.0.2.10"],"wildcard_list":["0.0.0.255"],"port_list":[22,80],"protocol_list":["tcp","icmp"],"num_rules":6}},
  {"type":"links","label":"LINKS","options":{"link_references":["sw1:eth-1<->a:eth-1","r1:eth-2<->b:eth-1"]}},
]}}
cfg={"io_settings":{"save_agent_actions":False,"save_step_metadata":False,"save_pcap_logs":False,"save_sys_logs":False,"save_agent_logs":False},
 "game":{"max_episode_length":8,"ports":["ARP","DNS","HTTP","POSTGRES_SERVER","SSH"],"protocols":["ICMP","TCP","UDP"],"seed":7},
 "agents":[
   {"ref":"red","team":"RED","type":"red-database-corrupting-agent","action_space":{"action_map":{0:{"action":"do-nothing","options":{}},1:{"action":"node-application-execute","options":{"node_name":"a","application_name":"data-manipulation-bot"}}}},
    "agent_settings":{"possible_start_nodes":["a"],"target_application":"data-manipulation-bot","start_step":2,"frequency":3,"variance":1},"reward_function":{"reward_components":[{"type":"dummy"}]}},
   {"ref":"blue","team":"BLUE","type":"proxy-agent","observation_space":obs,"action_space":{"action_map":amap},
    "reward_function":{"reward_components":[{"type":"database-file-integrity","weight":0.5,"options":{"node_hostname":"b","folder_name":"database","file_name":"database.db"}},{"type":"shared-reward","weight":1.0,"options":{"agent_name":"red"}}]},
    "agent_settings":{"flatten_obs":False,"action_masking":True}},
 ],
 "simulation":{"network":{"nodes":nodes,"links":links}}}
env=PrimaiteGymEnv(env_config=copy.deepcopy(cfg))
obs0,_=env.reset()
print("space ok:",env.observation_space.contains(obs0),"mask:",env.action_masks().tolist())
for a in [1,0,2,3,4,5,6,0,0]:
    try:
        o,r,te,tr,info=env.step(a); print(a,"->",info["agent_actions"]["blue"].response.status, "trunc",tr, "in space",env.observation_space.contains(o), "rew",r)
    except Exception as e:
        print(a,"RAISED",repr(e)[:120]); break
