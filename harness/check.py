"""./check Cxx --tier quick|thorough [--replay file]: one property check (see DESIGN.md §2.3)."""
import argparse, importlib, os, sys, shutil, tempfile, time, traceback

def main():
    ap = argparse.ArgumentParser()
    ap.add_argument("prop")
    ap.add_argument("--tier", default=os.environ.get("VERIF_TIER", "quick"), choices=["quick", "thorough"])
    ap.add_argument("--replay", default=None)
    a = ap.parse_args()
    seed = int(os.environ.get("VERIF_SEED", "20260101"))
    scratch = tempfile.mkdtemp(prefix="pv_%s_" % a.prop)
    os.environ["HOME"] = scratch          # PrimAITE writes under ~/primaite
    os.environ["PV_SCRATCH"] = scratch
    import logging
    logging.disable(logging.CRITICAL)
    from lib.common import Check
    ck = Check(a.prop, a.tier, seed, scratch)
    try:
        mod = importlib.import_module("props.%s" % a.prop.lower())
        if a.replay:
            mod.replay(ck, a.replay)
        else:
            mod.run(ck)
    except SystemExit:
        raise
    except BaseException:
        ck.broken("harness", "the check itself raised:\n" + traceback.format_exc()[-3000:])
    finally:
        rc = ck.finish()
        shutil.rmtree(scratch, ignore_errors=True)
    sys.exit(rc)

if __name__ == "__main__":
    main()
