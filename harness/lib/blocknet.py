"""Network-level half of C06: generated topologies x placements of attacker A and victim B x blocking mechanisms x timing.

For each combination two simulations are built from the same scenario and driven through the same history up to and including
the block; afterwards A runs its whole repertoire in one of them and stays idle in the other.  Checked:
  * frame monitor: after a total block no frame originated by A (source address A) reaches B's session manager, and with
    B off / B's interface disabled no frame at all does; with a protocol- or port-specific deny no frame of that class does;
  * deny-silent monitor on every router / firewall of the network: a frame for which a consulted rule list said deny is not
    sent out of any of the device's interfaces nor handed to its session manager;
  * victim differential: B's normalised describe_state is equal in both simulations at every tick after the block."""
import copy, ipaddress, random
from lib import world

SERVICES = ["database-service", "web-server", "ftp-server", "dns-server", "ntp-server", "ftp-client"]


def host(name, ip, gw, target, attacker):
    apps = [{"type": "database-client", "options": {"db_server_ip": target}},
            {"type": "web-browser", "options": {"target_url": "http://%s/" % target}},
            {"type": "data-manipulation-bot", "options": {"server_ip": target, "port_scan_p_of_success": 1.0, "data_manipulation_p_of_success": 1.0, "payload": "DELETE"}},
            {"type": "ransomware-script", "options": {"server_ip": target}},
            {"type": "dos-bot", "options": {"target_ip_address": target, "target_port": "POSTGRES_SERVER", "max_sessions": 8}},
            {"type": "c2-beacon", "options": {"c2_server_ip_address": target, "keep_alive_frequency": 2}},
            {"type": "c2-server"}]
    d = {"hostname": name, "type": "server", "ip_address": ip, "subnet_mask": "255.255.255.0", "start_up_duration": 0, "shut_down_duration": 0,
         "services": [{"type": s} for s in (["ftp-client"] if attacker else SERVICES)], "applications": apps if attacker else apps[:2] + apps[6:], "dns_server": target,
         "folders": [{"folder_name": "docs", "files": [{"file_name": "a.txt"}]}]}
    if gw:
        d["default_gateway"] = gw
    return d


PERMIT_ALL = {20: {"action": "PERMIT"}}


def build(kind, a, b, rng):
    """-> cfg, info (devices between, per-device facts)."""
    nodes, links = [], []
    ip = {}

    def sw(name):
        nodes.append({"hostname": name, "type": "switch", "num_ports": 8, "start_up_duration": 0, "shut_down_duration": 0})

    def link(x, xp, y, yp):
        links.append({"endpoint_a_hostname": x, "endpoint_a_port": xp, "endpoint_b_hostname": y, "endpoint_b_port": yp})
    if kind == "lan":
        sw("sw1")
        ip = {"h0": "192.168.1.10", "h1": "192.168.1.11", "h2": "192.168.1.12"}
        gws = {h: None for h in ip}
        for i, h in enumerate(ip):
            link("sw1", i + 1, h, 1)
    elif kind == "routed":
        sw("sw1"); sw("sw2")
        two = rng.random() < 0.5
        r1 = {"hostname": "r1", "type": "router", "num_ports": 3, "start_up_duration": 0, "shut_down_duration": 0,
              "ports": {1: {"ip_address": "10.0.1.1", "subnet_mask": "255.255.255.0"}, 2: {"ip_address": "10.0.9.1" if two else "10.0.2.1", "subnet_mask": "255.255.255.0"}},
              "acl": copy.deepcopy(PERMIT_ALL)}
        nodes.append(r1)
        link("sw1", 8, "r1", 1)
        if two:
            r1["routes"] = [{"address": "10.0.2.0", "subnet_mask": "255.255.255.0", "next_hop_ip_address": "10.0.9.2", "metric": 0}]
            nodes.append({"hostname": "r2", "type": "router", "num_ports": 3, "start_up_duration": 0, "shut_down_duration": 0,
                          "ports": {1: {"ip_address": "10.0.9.2", "subnet_mask": "255.255.255.0"}, 2: {"ip_address": "10.0.2.1", "subnet_mask": "255.255.255.0"}},
                          "acl": copy.deepcopy(PERMIT_ALL), "default_route": {"next_hop_ip_address": "10.0.9.1"}})
            link("r1", 2, "r2", 1)
            link("sw2", 8, "r2", 2)
        else:
            link("sw2", 8, "r1", 2)
        ip = {"h0": "10.0.1.10", "h1": "10.0.1.11", "s0": "10.0.2.10", "s1": "10.0.2.11"}
        gws = {"h0": "10.0.1.1", "h1": "10.0.1.1", "s0": "10.0.2.1", "s1": "10.0.2.1"}
        link("sw1", 1, "h0", 1); link("sw1", 2, "h1", 1); link("sw2", 1, "s0", 1); link("sw2", 2, "s1", 1)
    else:
        sw("sw1"); sw("sw3")
        fwacl = {"%s_%s_acl" % (z, di): copy.deepcopy(PERMIT_ALL) for z in ("internal", "dmz", "external") for di in ("inbound", "outbound")}
        nodes.append({"hostname": "fw", "type": "firewall", "start_up_duration": 0, "shut_down_duration": 0,
                      "ports": {"external_port": {"ip_address": "10.0.3.1", "subnet_mask": "255.255.255.0"},
                                "internal_port": {"ip_address": "10.0.1.1", "subnet_mask": "255.255.255.0"},
                                "dmz_port": {"ip_address": "10.0.2.1", "subnet_mask": "255.255.255.0"}}, "acl": fwacl,
                      "routes": [{"address": "10.0.4.0", "subnet_mask": "255.255.255.0", "next_hop_ip_address": "10.0.1.2", "metric": 0}]})
        nodes.append({"hostname": "rin", "type": "router", "num_ports": 3, "start_up_duration": 0, "shut_down_duration": 0,
                      "ports": {1: {"ip_address": "10.0.1.2", "subnet_mask": "255.255.255.0"}, 2: {"ip_address": "10.0.4.1", "subnet_mask": "255.255.255.0"}},
                      "acl": copy.deepcopy(PERMIT_ALL), "default_route": {"next_hop_ip_address": "10.0.1.1"}})
        link("sw1", 8, "fw", 2); link("sw1", 7, "rin", 1); link("sw3", 8, "rin", 2)
        ip = {"ext0": "10.0.3.10", "int0": "10.0.1.10", "dmz0": "10.0.2.10", "deep0": "10.0.4.10"}
        gws = {"ext0": "10.0.3.1", "int0": "10.0.1.1", "dmz0": "10.0.2.1", "deep0": "10.0.4.1"}
        link("fw", 1, "ext0", 1); link("fw", 3, "dmz0", 1); link("sw1", 1, "int0", 1); link("sw3", 1, "deep0", 1)
    for h in ip:
        nodes.append(host(h, ip[h], gws[h], ip[b] if h != b else ip[a], h == a))
    for n in nodes:
        # a shutdown is not instantaneous: during the SHUTTING_DOWN ticks the node is already "not ON"
        n["shut_down_duration"] = rng.choice([0, 2, 3])
    cfg = {"io_settings": dict(world.IO_OFF), "game": {"max_episode_length": 64, "ports": ["ARP", "DNS", "HTTP", "POSTGRES_SERVER", "SSH", "FTP"], "protocols": ["ICMP", "TCP", "UDP"]},
           "agents": [], "simulation": {"network": {"nodes": nodes, "links": links}}}
    return cfg, ip


ZONE = {"ext0": "external", "int0": "internal", "deep0": "internal", "dmz0": "dmz"}


def mechanisms(kind, a, b):
    """total blocks available for the placement: (name, how)."""
    ms = [("victim-off", None), ("victim-interface-disabled", None), ("attacker-interface-disabled", None), ("victim-link-removed", None)]
    shapes = ["any-any", "src-exact", "src-wildcard", "dst-exact", "src-dst", "implicit", "src-host-wildcard", "src-any-wildcard"]
    if kind == "lan":
        ms += [("switch-off", "sw1"), ("switch-port-disabled", None)]
    elif kind == "routed":
        if a[0] != b[0]:
            ms += [("device-off", "r1"), ("port-disabled", "r1")] + [("deny:" + s, "r1") for s in shapes] + [("deny:dst-wildcard-by-request", "r1")]
    else:
        za, zb = ZONE[a], ZONE[b]
        if za != zb:
            ms += [("device-off", "fw"), ("fw-port-disabled", None)] + [("fwdeny-src:" + s, None) for s in shapes] + [("fwdeny-dst:" + s, None) for s in shapes]
            # the deny rule is part of the scenario (declared in the firewall's configuration, the lists of the unused zone left empty)
            ms += [("cfgdeny-src:src-exact", None), ("cfgdeny-dst:dst-exact", None)]
        if "deep0" in (a, b):
            ms += [("device-off", "rin")] + [("deny:" + s, "rin") for s in shapes]
    return ms


PARTIAL = [("tcp", None), ("udp", None), ("icmp", None), ("tcp", 5432), ("tcp", 80)]


class Run:
    def __init__(self, cfg, ip, a, b, seed):
        random.seed(seed)
        self.game = world.make_game(cfg)
        self.game.setup_for_episode(0)
        self.sim = self.game.simulation
        self.nodes = {n.config.hostname: n for n in self.sim.network.nodes.values()}
        self.A, self.B = self.nodes[a], self.nodes[b]
        self.a, self.b, self.ip = a, b, ip
        self.blocked = None          # None / ("total",) / ("class", proto, port) / ("none-at-all",)
        self.leaks = []
        self.denied_then = []
        self.sent_by_a = 0
        self._keep = []
        self._hook()

    def _hook(self):
        B, run = self.B, self
        o = B.session_manager.receive_frame

        def recv(frame, from_network_interface, _o=o):
            if run.blocked is not None and frame.ip is not None:
                src = str(frame.ip.src_ip_address)
                hit = False
                if run.blocked[0] == "none-at-all":
                    hit = True
                elif src == run.ip[run.a]:
                    if run.blocked[0] == "total":
                        hit = True
                    else:
                        _k, pr, port = run.blocked
                        dport = frame.tcp.dst_port if frame.tcp else frame.udp.dst_port if frame.udp else None
                        hit = str(frame.ip.protocol) == pr and (port is None or dport == port)
                if hit:
                    run.leaks.append({"src": src, "dst": str(frame.ip.dst_ip_address), "protocol": str(frame.ip.protocol),
                                      "dst_port": (frame.tcp.dst_port if frame.tcp else frame.udp.dst_port if frame.udp else None)})
            return _o(frame, from_network_interface)
        object.__setattr__(B.session_manager, "receive_frame", recv)
        for nic in self.A.network_interface.values():
            def send(frame, _o=nic.send_frame):
                ok = _o(frame)
                if ok:
                    run.sent_by_a += 1
                return ok
            object.__setattr__(nic, "send_frame", send)
        for n in self.nodes.values():
            kind = type(n).__name__
            if kind not in ("Router", "Firewall"):
                continue
            denied = {}
            lists = [("acl", n.acl)] if kind == "Router" else [(z, getattr(n, z)) for z in ("external_inbound_acl", "external_outbound_acl", "internal_inbound_acl",
                                                                                         "internal_outbound_acl", "dmz_inbound_acl", "dmz_outbound_acl")]
            for nme, acl in lists:
                def isp(frame, _o=acl.is_permitted, _n=nme, _d=denied):
                    r = _o(frame)
                    if not r[0]:
                        _d[id(frame)] = _n
                        run._keep.append(frame)
                    return r
                object.__setattr__(acl, "is_permitted", isp)
            o_sm = n.session_manager.receive_frame

            def sm(frame, from_network_interface, _o=o_sm, _d=denied, _n=n):
                if id(frame) in _d:
                    run.denied_then.append((_n.config.hostname, _d[id(frame)], "handed to its own software"))
                return _o(frame, from_network_interface)
            object.__setattr__(n.session_manager, "receive_frame", sm)
            for nic in n.network_interface.values():
                def send(frame, _o=nic.send_frame, _d=denied, _n=n, _p=nic.port_num):
                    if id(frame) in _d:
                        run.denied_then.append((_n.config.hostname, _d[id(frame)], "sent out of port %d" % _p))
                    return _o(frame)
                object.__setattr__(nic, "send_frame", send)

    # ---- driving ----------------------------------------------------------------------------------
    def tick(self):
        self.game.pre_timestep()
        self.game.advance_timestep()

    def attack(self, step, rng_choices):
        """A's repertoire; the same calls in the same order for a given step."""
        A, sw, tgt = self.A, self.A.software_manager.software, ipaddress.IPv4Address(self.ip[self.b])
        name = self.a

        def req(*path):
            return lambda: self.sim.apply_request(["network", "node", name] + list(path))
        acts = [lambda: A.ping(tgt),
                req("application", "data-manipulation-bot", "execute"), req("application", "ransomware-script", "execute"),
                req("application", "dos-bot", "execute"), req("application", "web-browser", "execute"), req("application", "database-client", "execute"),
                req("application", "c2-beacon", "execute"),
                lambda: sw["nmap"].ping_scan(target_ip_address=tgt, show=False),
                lambda: sw["nmap"].port_scan(target_ip_address=tgt, show=False),
                lambda: sw["database-client"].get_new_connection(),
                lambda: sw["database-client"].query("DELETE"),
                lambda: sw["database-client"].query("INSERT"),
                lambda: sw["ftp-client"].send_file(dest_ip_address=tgt, src_folder_name="docs", src_file_name="a.txt", dest_folder_name="loot", dest_file_name="x.txt"),
                lambda: sw["ftp-client"].request_file(dest_ip_address=tgt, src_folder_name="docs", src_file_name="a.txt", dest_folder_name="loot", dest_file_name="y.txt"),
                lambda: self._remote(tgt),
                lambda: sw["dns-client"].check_domain_exists("example.com"),
                lambda: (sw["ntp-client"].configure(ntp_server_ip_address=tgt), sw["ntp-client"].request_time()),
                lambda: sw["c2-beacon"].establish(),
                req("service", "terminal", "node-session-remote-login", "admin", "admin", str(tgt)),
                req("service", "terminal", "send_remote_command", str(tgt), {"command": ["file_system", "create", "folder", "pwned2"]})]
        for i in rng_choices:
            try:
                acts[i % len(acts)]()
            except Exception as e:           # an attack failing locally is not the property's concern
                self.errors = getattr(self, "errors", []) + ["%s: %r" % (i % len(acts), e)]

    def _remote(self, tgt):
        t = self.A.software_manager.software["terminal"]
        c = t.login(username="admin", password="admin", ip_address=tgt)
        if c is not None:
            c.execute(["file_system", "create", "folder", "pwned"])

    def victim_state(self):
        return world.norm_state(self.B.describe_state())


def apply_block(run, kind, mech, arg, rng_vals):
    from primaite.simulator.network.hardware.nodes.network.router import ACLAction
    sim, A, B, ip = run.sim, run.A, run.B, run.ip
    a_ip, b_ip = ip[run.a], ip[run.b]

    def deny(acl, shape):
        kw = {}
        if shape == "src-exact":
            kw = {"src_ip_address": a_ip}
        elif shape == "src-wildcard":
            kw = {"src_ip_address": a_ip.rsplit(".", 1)[0] + ".0", "src_wildcard_mask": "0.0.0.255"}
        elif shape == "dst-exact":
            kw = {"dst_ip_address": b_ip}
        elif shape == "src-dst":
            kw = {"src_ip_address": a_ip, "dst_ip_address": b_ip}
        elif shape == "src-host-wildcard":          # wildcard 0.0.0.0 = exactly this host
            kw = {"src_ip_address": a_ip, "src_wildcard_mask": "0.0.0.0"}
        elif shape == "src-any-wildcard":           # wildcard 255.255.255.255 = any address, whatever the base
            kw = {"src_ip_address": "1.2.3.4", "src_wildcard_mask": "255.255.255.255"}
        if shape == "implicit" and acl.implicit_action == ACLAction.PERMIT:
            acl.remove_rule(20)
            acl.add_rule(action=ACLAction.DENY, position=23)          # a list that permits by default: deny-all as its last rule
        elif shape == "implicit":
            for pos in (20, 22, 23):         # the permit-all of this scenario and a router's default ARP / ICMP permits
                if acl.acl[pos] is not None:
                    acl.remove_rule(pos)
        else:
            acl.add_rule(action=ACLAction.DENY, position=rng_vals[0] % 3, **kw)
    run.blocked = ("total",)
    if mech == "victim-off":
        sim.apply_request(["network", "node", run.b, "shutdown"])
        run.blocked = ("none-at-all",)
    elif mech == "victim-interface-disabled":
        B.network_interface[1].disable()
        run.blocked = ("none-at-all",)
    elif mech == "attacker-interface-disabled":
        A.network_interface[1].disable()
    elif mech == "victim-link-removed":
        sim.network.remove_link(B.network_interface[1]._connected_link)
        run.blocked = ("none-at-all",)
    elif mech in ("switch-off", "device-off"):
        sim.apply_request(["network", "node", arg, "shutdown"])
    elif mech == "switch-port-disabled":
        B.network_interface[1]._connected_link.endpoint_a.disable() if B.network_interface[1]._connected_link.endpoint_a is not B.network_interface[1] \
            else B.network_interface[1]._connected_link.endpoint_b.disable()
        run.blocked = ("none-at-all",)
    elif mech == "port-disabled":
        r = run.nodes[arg]
        r.network_interface[1 if rng_vals[0] % 2 else 2].disable()
    elif mech == "fw-port-disabled":
        fw = run.nodes["fw"]
        z = ZONE[run.a] if rng_vals[0] % 2 else ZONE[run.b]
        {"external": fw.external_port, "internal": fw.internal_port, "dmz": fw.dmz_port}[z].disable()
    elif mech == "deny:dst-wildcard-by-request":
        # the rule is added the way an agent action adds it (request API), and its destination wildcard differs from its source's
        r = run.nodes[arg]
        resp = sim.apply_request(["network", "node", arg, "acl", "add_rule", "DENY", "ALL", a_ip, "NONE", "ALL",
                                  b_ip.rsplit(".", 1)[0] + ".0", "0.0.0.255", "ALL", rng_vals[0] % 3])
        if resp.status != "success":
            run.blocked = ("none-at-all",)
    elif mech.startswith("deny:"):
        deny(run.nodes[arg].acl, mech.split(":")[1])
    elif mech.startswith("fwdeny-src:"):
        fw = run.nodes["fw"]
        acl = {"external": fw.external_inbound_acl, "internal": fw.internal_outbound_acl, "dmz": fw.dmz_outbound_acl}[ZONE[run.a]]
        deny(acl, mech.split(":")[1])
    elif mech.startswith("fwdeny-dst:"):
        fw = run.nodes["fw"]
        acl = {"external": fw.external_outbound_acl, "internal": fw.internal_inbound_acl, "dmz": fw.dmz_inbound_acl}[ZONE[run.b]]
        deny(acl, mech.split(":")[1])
    elif mech.startswith("cfgdeny"):
        pass            # declared in the scenario: nothing to do at run time
    elif mech.startswith("partial:"):
        _p, pr, port = mech.split(":")
        port = None if port == "any" else int(port)
        devs = [n for n in run.nodes.values() if type(n).__name__ == "Router"] if kind != "fw" else []
        kw = {"protocol": pr, "src_ip_address": a_ip}
        if port is not None:
            kw["dst_port"] = port
        if kind == "fw":
            fw = run.nodes["fw"]
            acl = {"external": fw.external_inbound_acl, "internal": fw.internal_outbound_acl, "dmz": fw.dmz_outbound_acl}[ZONE[run.a]]
            acl.add_rule(action=ACLAction.DENY, position=0, **kw)
        else:
            devs[0].acl.add_rule(action=ACLAction.DENY, position=0, **kw)
        run.blocked = ("class", pr, port)
    else:
        raise ValueError(mech)


def one(ck, kind, a, b, mech, arg, warm, seed):
    rng = random.Random(seed)
    cfg, ip = build(kind, a, b, rng)
    ctx = {"topology": kind, "attacker": a, "victim": b, "block": mech, "on": arg, "block_after_warm_up": warm, "seed": seed}
    if mech.startswith("cfgdeny"):
        fwc = next(n for n in cfg["simulation"]["network"]["nodes"] if n["hostname"] == "fw")
        unused = ({"external", "internal", "dmz"} - {ZONE[a], ZONE[b]}).pop()
        fwc["acl"]["%s_inbound_acl" % unused] = {}
        fwc["acl"]["%s_outbound_acl" % unused] = {}
        if mech.startswith("cfgdeny-src"):
            lst = {"external": "external_inbound_acl", "internal": "internal_outbound_acl", "dmz": "dmz_outbound_acl"}[ZONE[a]]
            fwc["acl"][lst][1] = {"action": "DENY", "src_ip": ip[a]}
        else:
            lst = {"external": "external_outbound_acl", "internal": "internal_inbound_acl", "dmz": "dmz_inbound_acl"}[ZONE[b]]
            fwc["acl"][lst][1] = {"action": "DENY", "dst_ip": ip[b]}
        warm = False
        ctx["declared_in"] = lst
    runs = [Run(cfg, ip, a, b, seed) for _ in (0, 1)]
    warm_choices = [rng.randrange(100) for _ in range(6)]
    vals = [rng.randrange(100) for _ in range(3)]
    for r in runs:
        r.tick()
        if warm:
            for t in range(3):
                r.attack(t, warm_choices[2 * t:2 * t + 2])
                r.tick()
        apply_block(r, kind, mech, arg, vals)
    total = runs[0].blocked[0] != "class"
    d0 = world.dict_diff(runs[0].victim_state(), runs[1].victim_state())
    if d0:
        ck.notes.append("C06 harness: the two runs differ before the attack phase (%s): %s" % (ctx, d0[:2]))
        return
    steps = 5
    choices = [[rng.randrange(100) for _ in range(5)] for _ in range(steps)]
    sent0 = runs[0].sent_by_a
    for t in range(steps):
        runs[0].attack(t, choices[t])
        for r in runs:
            r.tick()
        ck.evaluations += 1
        if total:
            diffs = world.dict_diff(runs[0].victim_state(), runs[1].victim_state())
            if diffs:
                where = diffs[0] if isinstance(diffs[0], str) else str(diffs[0])
                ck.violation("victim-state-changed:%s:%s" % (kind, mech.split(":")[0]),
                             "%s: %s blocked from %s by %s, yet %s's state differs from the run in which %s stays idle: %s" % (kind, a, b, mech, b, a, where[:300]),
                             dict(ctx, step=t, actions=choices[:t + 1], differences=[str(x)[:300] for x in diffs[:5]]))
                break
    r0 = runs[0]
    for leak in r0.leaks[:1]:
        ck.violation("blocked-frame-reached-victim:%s:%s" % (kind, mech.split(":")[0]),
                     "%s: %s blocked from %s by %s, yet a frame %s reached %s's software" % (kind, a, b, mech, leak, b), dict(ctx, frame=leak, actions=choices))
    for r in runs:
        for dev, lst, what in r.denied_then[:1]:
            ck.violation("denied-frame-%s" % ("forwarded" if "port" in what else "handed-to-own-software"),
                         "%s: %s denied a frame by %s and it was still %s" % (kind, dev, lst, what), dict(ctx, device=dev, list=lst, actions=choices))
    ck.case(canon=(kind, a, b, mech, arg, warm, seed), nontrivial=r0.sent_by_a > sent0 or mech.startswith("attacker"),
            sample=dict(ctx, frames_sent_by_attacker_after_block=r0.sent_by_a - sent0) if len([s for s in ck.samples if "block" in s]) < 4 else None)
    ck.count("block:%s" % mech.split(":")[0])
    ck.count("topology:%s" % kind)
    ck.count("timing:%s" % ("warm" if warm else "cold"))


PLACEMENTS = {"lan": [("h0", "h1"), ("h2", "h0")],
              "routed": [("h0", "s0"), ("s1", "h1"), ("h0", "h1")],
              "fw": [(x, y) for x in ZONE for y in ZONE if x != y]}


def run(ck):
    rng = ck.rng
    combos = []
    for kind in ("lan", "routed", "fw"):
        for (a, b) in PLACEMENTS[kind]:
            for mech, arg in mechanisms(kind, a, b):
                for warm in (False, True):
                    combos.append((kind, a, b, mech, arg, warm))
            if kind != "lan" and (kind == "routed" and a[0] != b[0] or kind == "fw" and ZONE[a] != ZONE[b]):
                for pr, port in PARTIAL:
                    combos.append((kind, a, b, "partial:%s:%s" % (pr, "any" if port is None else port), None, True))
    rng.shuffle(combos)
    take = combos if not ck.quick else combos[:ck.n(36, 0)]
    # quick: make sure every topology and every family of mechanism is present
    if ck.quick:
        seen = {(c[0], c[3].split(":")[0]) for c in take}
        for c in combos:
            k = (c[0], c[3].split(":")[0])
            if k not in seen:
                seen.add(k)
                take.append(c)
    if ck.quick:
        take += [c for c in combos if (c[3].startswith("cfgdeny") and not c[5] or c[3] == "deny:dst-wildcard-by-request") and c not in take]
    for i, (kind, a, b, mech, arg, warm) in enumerate(take):
        one(ck, kind, a, b, mech, arg, warm, ck.seed * 1000 + i)
