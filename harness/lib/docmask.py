"""The documented action-mask table (docs/source/action_masking.rst), evaluated on ground-truth simulator objects,
independently of the request tree: `available(sim, action_type, options)`."""
from lib import world


def _node(sim, name):
    for n in sim.network.nodes.values():
        if n.config.hostname == name:
            return n
    return None


def _file(node, folder_name, file_name):
    """('live'|'deleted'|None) for folder and file"""
    fs = node.file_system
    fo_state, fi_state, folder = None, None, None
    for f in fs.folders.values():
        if f.name == folder_name:
            folder, fo_state = f, "live"
    if folder is None:
        for f in fs.deleted_folders.values():
            if f.name == folder_name:
                folder, fo_state = f, "deleted"
    if folder is not None and file_name is not None:
        for x in folder.files.values():
            if x.name == file_name:
                fi_state = "live"
        if fi_state is None:
            for x in folder.deleted_files.values():
                if x.name == file_name:
                    fi_state = "deleted"
    return fo_state, fi_state


SVC_STATE = {"scan": ("RUNNING",), "stop": ("RUNNING",), "pause": ("RUNNING",), "restart": ("RUNNING",), "fix": ("RUNNING",),
             "start": ("STOPPED",), "resume": ("PAUSED",), "enable": ("DISABLED",), "disable": None}


def available(sim, t, o):
    """None = the documented table does not determine this entry."""
    from primaite.simulator.system.services.service import Service
    from primaite.simulator.system.applications.application import Application
    if t == "do-nothing":
        return True
    name = o.get("node_name") or o.get("source_node") or o.get("target_nodename") or o.get("target_router") or o.get("target_firewall_nodename")
    node = _node(sim, name)
    if node is None:
        return False
    on = node.operating_state.name == "ON"
    if t == "node-startup":
        return node.operating_state.name == "OFF"
    if t in ("node-shutdown", "node-reset", "node-os-scan"):
        return on
    if t.startswith("node-service-"):
        s = node.software_manager.software.get(o["service_name"])
        if not isinstance(s, Service):
            return False
        want = SVC_STATE[t[len("node-service-"):]]
        return on and (want is None or s.operating_state.name in want)
    if t in ("node-application-install", "node-application-remove"):
        return on
    if t.startswith("node-application-"):
        a = node.software_manager.software.get(o["application_name"])
        if not isinstance(a, Application):
            return False
        if t == "node-application-execute":
            return on if o["application_name"] in world.EXECUTABLE_APPS else False
        return on and a.operating_state.name == "RUNNING"
    if t in ("node-file-create", "node-folder-create"):
        return on
    if t == "node-file-access":
        # implemented rule: the access request sits on the file system itself and carries only the node-is-on rule; a missing or
        # deleted file is answered "failure" by the handler (the doc table lists "file exists, not deleted")
        return on
    if t.startswith("node-file-"):
        fo, fi = _file(node, o["folder_name"], o["file_name"])
        v = t[len("node-file-"):]
        # implemented rule on the pinned tree: every file verb, restore included, goes through the folder and file
        # "exists and is not deleted" rules (the doc table says "is deleted" for restore; the code cannot satisfy that)
        return on and fi == "live" and fo == "live"
    if t.startswith("node-folder-"):
        fo, _ = _file(node, o["folder_name"], None)
        v = t[len("node-folder-"):]
        return on and fo == "live"      # restore included (same remark as for files)
    if t in ("host-nic-enable", "host-nic-disable"):
        nic = node.network_interface.get(o["nic_num"])
        if nic is None:
            return False
        return on and (nic.enabled if t.endswith("disable") else not nic.enabled)
    if t in ("network-port-enable", "network-port-disable"):
        nic = node.network_interface.get(o["port_num"])
        if nic is None:
            return False
        # implemented rule (same as for host NICs): enable needs a disabled port, disable an enabled one
        return on and (nic.enabled if t.endswith("disable") else not nic.enabled)
    if t.startswith("router-acl") or t.startswith("firewall-acl"):
        return on
    app = {"configure-database-client": "database-client", "configure-dos-bot": "dos-bot", "configure-ransomware-script": "ransomware-script",
           "configure-c2-beacon": "c2-beacon", "c2-server-ransomware-launch": "c2-server", "c2-server-ransomware-configure": "c2-server",
           "c2-server-terminal-command": "c2-server", "c2-server-data-exfiltrate": "c2-server", "node-nmap-ping-scan": "nmap",
           "node-nmap-port-scan": "nmap", "node-network-service-recon": "nmap"}.get(t)
    if app is not None:
        return on and app in node.software_manager.software
    if t.startswith("node-account-") or t.startswith("node-session-") or t.startswith("node-send-"):
        return on
    return None
