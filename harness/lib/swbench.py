"""A server carrying every registered service and application type; op sequences on one software item at a time."""
from lib.common import zl, Raw

SVC_VERBS = ["start", "stop", "pause", "resume", "restart", "disable", "enable", "fix", "scan", "compromise"]
APP_VERBS = ["close", "fix", "scan", "compromise"]
COQ_VERB = {"start": "Start", "stop": "Stop", "pause": "Pause", "resume": "Resume", "restart": "Restart", "disable": "Disable",
            "enable": "Enable", "fix": "Fix", "scan": "Scan", "compromise": "Compromise", "close": "Close", "execute": "Execute"}
# applications whose execute request (re)opens the application before acting
RUN_ON_EXECUTE = ("dos-bot", "ransomware-script", "data-manipulation-bot")
# documented source states of each service request (None = any)
SVC_SOURCE = {"start": ["STOPPED"], "stop": ["RUNNING"], "pause": ["RUNNING"], "resume": ["PAUSED"], "restart": ["RUNNING"], "disable": None,
              "enable": ["DISABLED"], "fix": ["RUNNING"], "scan": ["RUNNING"], "compromise": None}
APP_SOURCE = {"close": ["RUNNING"], "fix": ["RUNNING"], "scan": ["RUNNING"], "compromise": None, "execute": None}


class SwBench:
    _n = 0

    def __init__(self):
        import primaite.game.game  # noqa: F401
        from primaite.simulator.system.services.service import Service
        from primaite.simulator.system.applications.application import Application
        from primaite.simulator.network.hardware.nodes.host.server import Server
        from primaite.simulator.sim_container import Simulation
        SwBench._n += 1
        self.sim = Simulation()
        self.name = "srv%d" % SwBench._n
        self.node = Server.from_config(config={"type": "server", "hostname": self.name, "ip_address": "192.168.1.2", "subnet_mask": "255.255.255.0",
                                               "start_up_duration": 0, "shut_down_duration": 0, "node_scan_duration": 1})
        self.sim.network.add_node(self.node)
        sm = self.node.software_manager
        for k, c in Service._registry.items():
            if k not in sm.software:
                sm.install(c)
        for k, c in Application._registry.items():
            if k not in sm.software:
                sm.install(c)
        self.services = [n for n, s in sm.software.items() if isinstance(s, Service)]
        self.apps = [n for n, s in sm.software.items() if isinstance(s, Application)]
        self.Service, self.Application = Service, Application
        self.t = 0
        # bring the applications up the way a node start-up does
        self.node._start_up_actions()

    def sw(self, name):
        return self.node.software_manager.software[name]

    def is_service(self, name):
        return isinstance(self.sw(name), self.Service)

    def set_durations(self, name, d, fd):
        s = self.sw(name)
        if self.is_service(name):
            s.restart_duration = d
        else:
            s.install_duration = d
        s.config.fixing_duration = fd

    def observe(self, name):
        s = self.sw(name)
        return [s.operating_state.value, s.health_state_actual.value, s.health_state_visible.value]

    def req(self, name, verb):
        kind = "service" if self.is_service(name) else "application"
        return self.sim.apply_request(["network", "node", self.name, kind, name, verb])

    def tick(self):
        self.node.apply_timestep(self.t)
        self.t += 1
        self.node.pre_timestep(self.t)

    def apply(self, name, op):
        k = op[0]
        if k == "Req" and op[1] == "execute":
            self.req(name, "execute")          # what the application then does is its own; only the lifecycle state is compared
            return 1 if self.node.operating_state.name == "ON" else 2
        if k == "Req":
            r = self.req(name, op[1])
            return 1 if r.status == "success" else 2
        if k == "Install":
            self.sw(name).install()
            return 1
        if k == "Tick":
            self.tick()
            return 1
        if k == "NodeOff":
            self.sim.apply_request(["network", "node", self.name, "shutdown"])
            return 1
        if k == "NodeOn":
            self.sim.apply_request(["network", "node", self.name, "startup"])
            return 1
        if k == "NodeScan":          # whole-node scan with duration 1: completes in the next tick, before the software ticks
            self.sim.apply_request(["network", "node", self.name, "os", "scan"])
            self.tick()
            return 1
        raise ValueError(k)


def coq_ops(ops):
    out = []
    for op in ops:
        if op[0] == "Req":
            out.append(Raw("Req %s" % COQ_VERB[op[1]]))
        elif op[0] == "NodeScan":
            out.append(Raw("NodeScanTick"))
        else:
            out.append(Raw(op[0]))
    return out


def gen_ops(rng, is_service, n, name=None):
    verbs = SVC_VERBS if is_service else APP_VERBS + (["execute", "execute"] if name in RUN_ON_EXECUTE else [])
    ops = []
    # overlapping timed processes are the interesting histories: start from one of them now and then
    if rng.random() < 0.35:
        T = ("Tick",)
        if is_service:
            ops += rng.choice([[("Req", "compromise"), ("Req", "fix"), ("Req", "restart"), T, T, T, T],
                               [("Req", "fix"), T, ("Req", "restart"), T, T, T],
                               [("Req", "restart"), ("Req", "compromise"), T, ("Req", "fix"), T, T, T],
                               [("Req", "fix"), ("Req", "pause"), T, T, ("Req", "resume"), T],
                               [("Req", "compromise"), ("Req", "fix"), ("NodeOff",), T, ("NodeOn",), T, T],
                               [("Req", "restart"), ("Req", "disable"), T, T, T, T, T],
                               [("Req", "restart"), T, ("Req", "disable"), ("Req", "enable"), T, T, T, T],
                               [("Req", "restart"), ("NodeOff",), T, ("NodeOn",), T, T, T, T]])
        else:
            ops += rng.choice([[("Req", "close"), ("Install",), ("Req", "execute" if name in RUN_ON_EXECUTE else "scan"), T, T, T],
                               [("Req", "close"), ("Install",), ("NodeOff",), ("NodeOn",), T, T],
                               [("Req", "compromise"), ("Req", "fix"), ("Req", "close"), T, T, T]])
    for _ in range(n):
        x = rng.random()
        if not is_service and x < 0.08:
            ops.append(("Install",))          # (re)installation of a closed application: INSTALLING for install_duration ticks
        elif x < 0.55:
            ops.append(("Req", rng.choice(verbs)))
        elif x < 0.80:
            ops.append(("Tick",))
        elif x < 0.87:
            ops.append(("NodeScan",))
        elif x < 0.94:
            ops.append(("NodeOff",))
        else:
            ops.append(("NodeOn",))
    return ops
