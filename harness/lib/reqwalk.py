"""Walk the live request tree next to the implementation: dump the path subtree of a request (keys, validator
outcomes, leaf), execute the request with the leaf handler wrapped, and emit a case for Model.ReqTree.run_case."""
from lib.common import zl, Raw
from lib import world

STATUS = {"success": 1, "failure": 2, "unreachable": 3, "pending": 0}


VLOG = []
_PROBED = [False]


def install_validator_probe():
    """record every permission-validator evaluation that returns False (who refused), for all validator classes."""
    if _PROBED[0]:
        return
    _PROBED[0] = True
    from primaite.simulator.core import RequestPermissionValidator
    import primaite.game.game  # noqa: F401  make sure every component module (and its validators) is imported

    def subclasses(c):
        for s in c.__subclasses__():
            yield s
            yield from subclasses(s)
    for cls in set(subclasses(RequestPermissionValidator)):
        if "__call__" not in cls.__dict__:
            continue
        orig = cls.__dict__["__call__"]

        def wrapped(self, request, context, _orig=orig, _cls=cls):
            r = _orig(self, request, context)
            if not r:
                VLOG.append(_cls.__name__)
            return r
        cls.__call__ = wrapped


class KeyIds:
    def __init__(self):
        self.t = {}

    def __call__(self, k):
        kk = (type(k).__name__, k if isinstance(k, (str, int, float, bool, type(None))) else repr(k))
        if kk not in self.t:
            self.t[kk] = len(self.t) + 1
        return self.t[kk]


def hashable_path(req):
    return all(isinstance(e, (str, int, float, bool)) or e is None for e in req)


def dump_path(rm, req, ids, leafbox):
    """returns (coq dtree text, reaches: bool, in_tree: bool, depth_reached).  leafbox collects the matched leaf RequestType."""
    from primaite.simulator.core import RequestManager
    if len(req) == 0:
        kids = ["(%d, (true, DLeaf 0 0))" % ids(k) for k in rm.request_types]
        return "DMgr [%s]" % "; ".join(kids), False, False
    key, opts = req[0], req[1:]
    kids, reaches, in_tree = [], False, False
    for k, rt in rm.request_types.items():
        if isinstance(key, (str, int, float, bool, type(None))) and k == key and type(k) is type(key):
            valid = bool(rt.validator(opts, {}))
            if isinstance(rt.func, RequestManager):
                sub, r2, t2 = dump_path(rt.func, opts, ids, leafbox)
                reaches, in_tree = valid and r2, t2
            else:
                leafbox.append(rt)
                sub, reaches, in_tree = "DLeaf 77 @RET@", valid, True
            kids.append("(%d, (%s, %s))" % (ids(k), "true" if valid else "false", sub))
        else:
            kids.append("(%d, (true, DLeaf 0 0))" % ids(k))
    return "DMgr [%s]" % "; ".join(kids), reaches, in_tree


def execute(sim, req, ids, compare_state=False):
    """run one request on the live simulation.  Returns dict with the implementation's observable outcome and the
    Coq case text; raises nothing (exceptions are reported in the result)."""
    rm = sim._request_manager
    res = {"req": req, "raised": None}
    leafbox = []
    try:
        tree, reaches, in_tree = dump_path(rm, req, ids, leafbox)
    except Exception as e:  # a validator raised on this (malformed) request: not a case for the model
        res["raised"] = "validator: %r" % (e,)
        res["skip"] = True
        return res
    res["reaches"], res["in_tree"] = reaches, in_tree
    try:
        cv = bool(rm.check_valid(req, {}))
    except Exception as e:
        res["raised"] = "check_valid: %r" % (e,)
        return res
    before = world.norm_state(sim.describe_state()) if compare_state else None
    invoked = []
    rt = leafbox[0] if leafbox else None
    orig = None
    if rt is not None:
        orig = rt.func

        def wrapper(r, c, _orig=orig):
            invoked.append(1)
            return _orig(r, c)
        rt.func = wrapper
    install_validator_probe()
    del VLOG[:]
    try:
        resp = sim.apply_request(list(req))
        status = getattr(resp, "status", None)
        res["status"] = status
        res["data"] = getattr(resp, "data", None)
    except Exception as e:
        res["raised"] = "apply_request: %s: %s" % (type(e).__name__, str(e)[:200])
        status = None
    finally:
        if rt is not None:
            rt.func = orig
    res["invoked"] = len(invoked)
    res["validator_refusals"] = [v for v in VLOG if v != "_CombinedValidator"]
    res["check_valid"] = cv
    if compare_state and not invoked:
        after = world.norm_state(sim.describe_state())
        if before != after:
            res["state_diff"] = world.dict_diff(before, after)
    if status in STATUS:
        ret = STATUS[status] if invoked else 0
        res["coq_in"] = "(%s, %s)" % (tree.replace("@RET@", str(ret)), zl([ids(k) for k in req]))
        res["impl_out"] = [STATUS[status], len(invoked), 77 if invoked else -1, 1 if cv else 0]
    return res


def mutations(req, rng, nkeys):
    """missing / misspelt / truncated element at any depth of the key part of the path."""
    out = []
    n = min(len(req), nkeys)
    for i in range(n):
        out.append(("drop@%d" % i, req[:i] + req[i + 1:]))
        out.append(("misspell@%d" % i, req[:i] + [str(req[i]) + "_x"] + req[i + 1:]))
    for i in range(n):          # truncation inside the key path; cutting only handler arguments is outside the property
        out.append(("truncate@%d" % i, req[:i]))
    return out


def key_depth(rm, req):
    """number of leading elements of req that are consumed as keys of managers (leaf name included)."""
    from primaite.simulator.core import RequestManager
    d = 0
    while isinstance(rm, RequestManager) and d < len(req):
        k = req[d]
        try:
            rt = rm.request_types.get(k)
        except TypeError:
            return d
        d += 1
        if rt is None:
            return d
        rm = rt.func
    return d


def random_walk_step(game, rng, cat, n_actions=3, ticks=1):
    """dirty the state: apply a few catalogue actions through the request API and advance time."""
    sim = game.simulation
    for _ in range(n_actions):
        t, o, _ex = rng.choice(cat)
        try:
            sim.apply_request(world.form_request(t, o))
        except Exception:
            pass
    for _ in range(ticks):
        game.pre_timestep()
        game.advance_timestep()
