"""Shared machinery of the property checks: obligations, violations, known findings, evidence, Coq runner."""
import fcntl, hashlib, json, os, random, re, subprocess, sys, time
from concurrent.futures import ThreadPoolExecutor

VERIF = os.path.dirname(os.path.dirname(os.path.dirname(os.path.abspath(__file__))))
COQ = os.path.join(VERIF, "coq")
REPO = os.environ.get("PV_REPO", "/repo")
EVID = os.path.join(VERIF, "evidence")
REPLAYS = os.path.join(EVID, "replays")

TRUSTED_BASE = [
    "Coq 8.16.1 kernel as run by coqc (full .vo build), including the vm_compute virtual machine; no native_compute",
    "axioms: none declared by this development; the per-theorem Print Assumptions output is in coverage.assumptions_report",
    "translators /verif/translator/py2coq.py (pure kernels) and py2coq_imp.py (state-changing methods; per-method erase/oracle/ident/const assumptions in kernels_imp.py): Python ast -> Gallina for the listed kernels; logging calls erased",
    "correspondence harness /verif/harness (Python drivers, generators, canonicalisers) and `Eval vm_compute` of the model on generated cases.v files; no extraction is used",
    "modelled, not verified: pydantic coercion, ipaddress, gymnasium contains/flatten, numpy/`random` generators, CPython dict/set semantics, IEEE float rounding (models are exact Z/Q), YAML loading, PrimAITE code outside the modelled kernels",
]


def jdefault(o):
    try:
        import numpy as np
        if isinstance(o, np.generic):
            return o.item()
        if isinstance(o, np.ndarray):
            return o.tolist()
    except Exception:
        pass
    if isinstance(o, (set, frozenset)):
        return sorted(map(str, o))
    return str(o)


class Check:
    def __init__(self, pid, tier, seed, scratch):
        self.pid, self.tier, self.seed, self.scratch = pid, tier, seed, scratch
        self.t0 = time.time()
        self.rng = random.Random(seed)
        self.obligations = []          # {name, kind, ok, detail}
        self.violations = []           # {signature, what, replay(dict), concrete(bool)}
        self.evaluations = 0
        self.nontrivial = set()
        self.samples = []
        self.dist = {}
        self.traces = 0
        self.assumptions_report = {}
        self.notes = []
        self.rule = ""
        self.level = "proof"
        self.extra = {}
        try:
            self.known = json.load(open(os.path.join(VERIF, "known_findings.json")))["findings"]
        except Exception:
            self.known = []

    # ---- bookkeeping -------------------------------------------------------------------------
    @property
    def quick(self):
        return self.tier == "quick"

    def n(self, quick, thorough):
        return quick if self.tier == "quick" else thorough

    def count(self, key, k=1):
        self.dist[key] = self.dist.get(key, 0) + k

    def case(self, canon=None, nontrivial=True, sample=None):
        """register one evaluated case; canon: hashable canonical form for the distinct count."""
        self.evaluations += 1
        if nontrivial and canon is not None:
            self.nontrivial.add(hashlib.md5(repr(canon).encode()).hexdigest()[:12])
        if sample is not None and len(self.samples) < 6:
            self.samples.append(sample)

    def obligation(self, name, kind, ok, detail=""):
        self.obligations.append({"name": name, "kind": kind, "ok": bool(ok), "detail": str(detail)[-1500:]})
        return ok

    def violation(self, signature, what, replay):
        """a concrete input on which the implementation contradicts the property."""
        self.violations.append({"signature": signature, "what": what, "replay": replay, "concrete": True})

    def broken(self, name, detail):
        """an obligation (theorem / Gen=Model / translation / correspondence) that no longer checks."""
        self.obligation(name, "broken", False, detail)

    # ---- finish --------------------------------------------------------------------------------
    def finish(self):
        os.makedirs(REPLAYS, exist_ok=True)
        lines, nviol, known_hit = [], 0, []
        seen = set()
        for v in self.violations:
            k = next((f for f in self.known if f.get("property") == self.pid and f.get("status") == "open"
                      and f.get("signature") == v["signature"]), None)
            if k is not None:
                if v["signature"] not in seen:
                    lines.append("KNOWN-FINDING: property=%s %s" % (self.pid, k.get("what", v["what"])))
                    known_hit.append(v["signature"])
                seen.add(v["signature"])
                continue
            if v["signature"] in seen:
                continue
            seen.add(v["signature"])
            nviol += 1
            if nviol > 8:
                continue
            h = hashlib.md5(json.dumps(v["replay"], sort_keys=True, default=jdefault).encode()).hexdigest()[:10]
            path = os.path.join(REPLAYS, "%s-%s.json" % (self.pid, h))
            json.dump({"property": self.pid, "kind": "impl-vs-spec", "signature": v["signature"], "what": v["what"],
                       "seed": self.seed, "tier": self.tier, "replay": v["replay"]}, open(path, "w"), indent=1,
                      default=jdefault)
            lines.append("VIOLATION property=%s replay=%s" % (self.pid, path))
            print("  what: %s" % v["what"])
        brokenobs = [o for o in self.obligations if not o["ok"]]
        if brokenobs and nviol == 0:
            # proof obligation / correspondence broke and the search found no failing input
            h = hashlib.md5(json.dumps(brokenobs, sort_keys=True).encode()).hexdigest()[:10]
            path = os.path.join(REPLAYS, "%s-broken-%s.json" % (self.pid, h))
            json.dump({"property": self.pid, "kind": "broken-obligation", "seed": self.seed, "tier": self.tier,
                       "obligations_no_longer_checking": brokenobs,
                       "note": "the property is no longer shown to hold; the violation search found no failing input"},
                      open(path, "w"), indent=1, default=jdefault)
            for o in brokenobs[:6]:
                print("  broken obligation: %s [%s] %s" % (o["name"], o["kind"], o["detail"][-400:].replace("\n", " | ")))
            lines.append("VIOLATION property=%s replay=%s no-failing-input-found" % (self.pid, path))
            nviol += 1
        elif brokenobs:
            for o in brokenobs[:6]:
                print("  broken obligation: %s [%s] %s" % (o["name"], o["kind"], o["detail"][-300:].replace("\n", " | ")))
        for l in lines:
            print(l)
        nob = len(self.obligations)
        ev = {
            "property_id": self.pid, "tier": self.tier, "seed": self.seed, "level": self.level,
            "coverage": {
                "obligations": max(nob, 1), "discharged": sum(1 for o in self.obligations if o["ok"]),
                "checker_cmd": "make -C /verif/coq Props/%s.vo  (coqc 8.16.1, full .vo) + coqc on generated Gen/*.v and cases.v; ./check %s --tier %s"
                               % (self.pid, self.pid, self.tier),
                "trusted_base": TRUSTED_BASE,
                "obligation_list": [{k: o[k] for k in ("name", "kind", "ok")} for o in self.obligations],
                "assumptions_report": self.assumptions_report,
                "evaluations": self.evaluations, "distinct_nontrivial": len(self.nontrivial),
                "rule": self.rule, "samples": self.samples[:6] or ["(none)"],
                "traces_validated_against_impl": self.traces, "input_distribution": self.dist,
                "known_findings_matched": known_hit, "notes": self.notes,
            },
            "assumptions": TRUSTED_BASE[2:],
            "wall_s": round(time.time() - self.t0, 2), "violations": nviol,
        }
        ev["coverage"].update(self.extra)
        os.makedirs(EVID, exist_ok=True)
        json.dump(ev, open(os.path.join(EVID, "%s.json" % self.pid), "w"), indent=1, default=jdefault)
        print("%s %s: %d obligations (%d discharged), %d evaluations (%d distinct non-trivial), %d violation(s), %.1fs"
              % (self.pid, self.tier, nob, ev["coverage"]["discharged"], self.evaluations, len(self.nontrivial), nviol,
                 ev["wall_s"]))
        return 1 if nviol else 0


# ---- Coq ------------------------------------------------------------------------------------------
def _run(cmd, timeout, cwd=None, inp=None):
    try:
        p = subprocess.run(cmd, cwd=cwd, stdout=subprocess.PIPE, stderr=subprocess.STDOUT, text=True, timeout=timeout,
                           input=inp)
        return p.returncode, p.stdout
    except subprocess.TimeoutExpired as e:
        return 124, "TIMEOUT after %ss\n%s" % (timeout, (e.stdout or b"")[-2000:] if e.stdout else "")


def coq_make(targets, timeout=1500):
    """make the given targets of /verif/coq under a lock (checks may run concurrently)."""
    with open(os.path.join(COQ, ".lock"), "w") as lk:
        fcntl.flock(lk, fcntl.LOCK_EX)
        mk, cp = os.path.join(COQ, "Makefile"), os.path.join(COQ, "_CoqProject")
        if not os.path.exists(mk) or os.path.getmtime(mk) < os.path.getmtime(cp):
            rc, out = _run(["coq_makefile", "-f", "_CoqProject", "-o", "Makefile"], 120, cwd=COQ)
            if rc:
                return False, out
        rc, out = _run(["make", "-j12"] + list(targets), timeout, cwd=COQ)
    return rc == 0, out


def write_if_changed(path, text):
    old = None
    if os.path.exists(path):
        old = open(path).read()
    if old != text:
        os.makedirs(os.path.dirname(path), exist_ok=True)
        open(path, "w").write(text)
        return True
    return False


def theorems_of(vfile):
    txt = open(vfile).read()
    return re.findall(r"^\s*(?:Theorem|Example)\s+([A-Za-z0-9_']+)", txt, re.M)


def coq_props(ck, pid=None, extra_targets=()):
    """build Props/<pid>.vo: one obligation per Theorem/Example in it; record Print Assumptions."""
    pid = pid or ck.pid
    vfile = os.path.join(COQ, "Props", "%s.v" % pid)
    names = theorems_of(vfile)
    ok, out = coq_make(list(extra_targets) + ["Props/%s.vo" % pid])
    if not ok:
        # find which theorem (if any) the error is in; otherwise all are undischarged
        ck.broken("coq build Props/%s.vo" % pid, out[-1800:])
        for nme in names:
            ck.obligation("theorem %s" % nme, "theorem", False, "Props/%s.v did not compile" % pid)
        return False
    # Print Assumptions, re-evaluated on every run against the compiled development
    src = "From PV Require Import Props.%s.\n" % pid + "".join("Print Assumptions %s.\n" % n for n in names)
    rc, o = coq_eval_raw(ck, src, "assum_%s" % pid)
    rep = {}
    if rc == 0:
        chunks = re.split(r"(?=Closed under the global context|Axioms:)", o)
        chunks = [c.strip() for c in chunks if c.strip()]
        for nme, c in zip(names, chunks):
            rep[nme] = " ".join(c.split())[:400]
    ck.assumptions_report.update(rep)
    for nme in names:
        closed = rep.get(nme, "").startswith("Closed under the global context")
        ck.obligation("theorem %s" % nme, "theorem", rc == 0 and closed,
                      "" if closed else "Print Assumptions: %s" % rep.get(nme, o[-300:]))
    return True


def coq_eval_raw(ck, text, name, timeout=600):
    d = os.path.join(ck.scratch, "coq")
    os.makedirs(d, exist_ok=True)
    f = os.path.join(d, name + ".v")
    open(f, "w").write(text)
    return _run(["coqc", "-Q", COQ, "PV", f], timeout, cwd=d)


def zl(x):
    """Python int/bool/None/list/tuple -> Coq term in Z_scope."""
    if x is None:
        return "None"
    if isinstance(x, bool):
        return "true" if x else "false"
    if isinstance(x, int):
        return "(%d)" % x if x < 0 else "%d" % x
    if isinstance(x, Opt):
        return "None" if x.v is None else "(Some %s)" % zl(x.v)
    if isinstance(x, Raw):
        return x.s
    if isinstance(x, tuple):
        return "(" + ", ".join(zl(e) for e in x) + ")"
    if isinstance(x, list):
        return "[" + "; ".join(zl(e) for e in x) + "]"
    raise TypeError(type(x))


class Opt:
    def __init__(self, v):
        self.v = v


class Raw:
    def __init__(self, s):
        self.s = s


def _parse_nested(s):
    """parse Coq's printing of nested lists of Z: [[1; -2]; []] (scope annotations stripped)."""
    s = re.sub(r"%[A-Za-z]+", "", s)
    s = s.replace("(", "").replace(")", "")
    s = re.sub(r";", ",", s)
    return json.loads(s)


def coq_cases(ck, requires, fn, cases, name="cases", chunk=300, timeout=900):
    """Correspondence on cases: `fn : I -> list Z` (model) vs expected list of ints (implementation).

    cases: list of (coq_input_text, expected_int_list).  Returns list of (index, model_output) for
    mismatching cases; registers nothing by itself.  Any coqc failure raises RuntimeError."""
    if not cases:
        return []
    files = []
    for c0 in range(0, len(cases), chunk):
        part = cases[c0:c0 + chunk]
        body = ";\n  ".join("(%s, %s)" % (i, zl(list(o))) for i, o in part)
        txt = ("From Coq Require Import ZArith List.\nImport ListNotations.\nFrom PV Require Import Base.Cases.\n%s\n"
               "Open Scope Z_scope.\nDefinition cs := [\n  %s\n].\n"
               "Definition bad := mismatches %s cs.\nEval vm_compute in bad.\n"
               "Eval vm_compute in outputs_at %s cs bad.\n"
               % (requires, body, fn, fn))
        files.append((c0, txt))
    res = []

    def one(a):
        c0, txt = a
        rc, out = coq_eval_raw(ck, txt, "%s_%d" % (name, c0), timeout)
        if rc != 0:
            raise RuntimeError("coqc failed on %s_%d: %s" % (name, c0, out[-1500:]))
        parts = re.findall(r"=\s*(\[.*?\])\s*:\s*list", out, re.S)
        if len(parts) < 2:
            raise RuntimeError("cannot parse coqc output: %s" % out[-800:])
        idx = _parse_nested(parts[0])
        outs = _parse_nested(parts[1])
        return [(c0 + i, o) for i, o in zip(idx, outs)]

    with ThreadPoolExecutor(max_workers=8) as ex:
        for r in ex.map(one, files):
            res.extend(r)
    return res


def coq_compute(ck, requires, exprs, name="compute", timeout=600):
    """evaluate each expr : list Z with vm_compute; return list of int lists."""
    txt = ("From Coq Require Import ZArith List.\nImport ListNotations.\n%s\nOpen Scope Z_scope.\n" % requires
           + "".join("Eval vm_compute in (%s).\n" % e for e in exprs))
    rc, out = coq_eval_raw(ck, txt, name, timeout)
    if rc != 0:
        raise RuntimeError("coqc failed: %s" % out[-1500:])
    return [_parse_nested(p) for p in re.findall(r"=\s*(\[.*?\])\s*:\s*list", out, re.S)]
