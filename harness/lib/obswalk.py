"""Step a scenario with adversarial extra traffic / requests and check the observation after every reset and step."""
import copy, random
import numpy as np
from lib import world, obstruth


def nested_obs(agent):
    return agent.observation_manager.current_observation


POWER = ("node-shutdown", "node-startup", "node-reset", "host-nic-disable", "network-port-disable", "node-service-stop", "node-application-close")
PENDING = []      # requests scheduled for the next tick by a multi-step story


def stories(game, rng, inv):
    """multi-step histories through the request API: delete then restore a file in a later tick; corrupt a file then scan
    only that file; delete a file then restore its folder."""
    now, later = [], []
    hosts = [(n, d) for n, d in inv.items() if d["kind"] in world.HOSTS and any(d["folders"].values())]
    if not hosts or rng.random() > 0.35:
        return now, later
    h, d = rng.choice(hosts)
    fo = rng.choice([f for f, fl in d["folders"].items() if fl])
    fi = rng.choice(d["folders"][fo])
    base = ["network", "node", h, "file_system"]
    x = rng.random()
    if x < 0.35:
        now.append(base + ["delete", "file", fo, fi])
        later.append(base + ["restore", "file", fo, fi])
    elif x < 0.7:
        now.append(base + ["folder", fo, "file", fi, "corrupt"])
        later.append(base + ["folder", fo, "file", fi, "scan"])
    else:
        now.append(base + ["folder", fo, "file", fi, "corrupt"])
        later.append(base + ["folder", fo, "scan"])
    return now, later


def extra_requests(game, rng, inv):
    """things an agent population can do inside one tick that push encodings to their limits: several file creations and
    deletions in one tick, repeated application executions, accesses."""
    reqs = list(PENDING)
    del PENDING[:]
    now, later = stories(game, rng, inv)
    reqs += now
    PENDING.extend(later)
    hosts = [n for n, d in inv.items() if d["kind"] in world.HOSTS]
    if not hosts:
        return reqs
    # remote sessions: one client logging in to one server twice in a tick (two sessions from the same address), now and then a
    # log-off; drawn from a generator of its own so that the other choices stay what they were
    r2 = random.Random(game.step_counter * 7919 + len(inv) * 104729 + len(hosts))
    if len(hosts) >= 2 and r2.random() < 0.3:
        nodes = {n.config.hostname: n for n in game.simulation.network.nodes.values()}
        c, sv = r2.sample(sorted(hosts), 2)
        try:
            ip = str(nodes[sv].network_interface[1].ip_address)
            login = ["network", "node", c, "service", "terminal", "node_session_remote_login", "admin", "admin", ip]
            reqs += [login] * r2.choice([1, 2, 2, 4]) if r2.random() < 0.8 else [["network", "node", c, "service", "terminal", "remote_logoff", ip]]
        except Exception:
            pass
    # a watched folder deleted now and restored in the next tick (observed while it is gone, and again before any scan)
    if r2.random() < 0.2:
        cands = sorted((n, fo) for n in hosts for fo, fl in inv[n]["folders"].items() if fo not in ("root",))
        if cands:
            n, fo = r2.choice(cands)
            reqs.append(["network", "node", n, "file_system", "delete", "folder", fo])
            PENDING.append(["network", "node", n, "file_system", "restore", "folder", fo])
    h = rng.choice(hosts)
    k = rng.choice([0, 0, 1, 2, 5, 7])
    for i in range(k):
        reqs.append(["network", "node", h, "file_system", "create", "file", "burst", "b%d_%d.txt" % (game.step_counter, i), False])
    if k >= 5:
        for i in range(k):
            reqs.append(["network", "node", h, "file_system", "delete", "file", "burst", "b%d_%d.txt" % (game.step_counter, i)])
    d = inv[h]
    for app in d["applications"]:
        if app in ("web-browser", "database-client", "data-manipulation-bot") and rng.random() < 0.3:
            reqs += [["network", "node", h, "application", app, "execute"]] * rng.choice([1, 6, 12])
    for fo, files in d["folders"].items():
        for f in files[:1]:
            if rng.random() < 0.3:
                reqs += [["network", "node", h, "file_system", "access", fo, f]] * rng.choice([1, 6, 12])
    return reqs


class NmneMon:
    """counts, independently of the interface's own bookkeeping, the frames that carry a capture keyword through each interface
    while capture is on; per NIC-observation object the sequence of such events and of observations is kept for the model."""
    installed = False
    events = {}        # id(nic) -> [nic, [directions since last flush]]
    cases = []         # (lo, me, hi, ops text list, observed leaves)

    @classmethod
    def install(cls):
        if cls.installed:
            return
        from primaite.simulator.network.hardware.base import NetworkInterface
        orig = NetworkInterface._capture_nmne

        def wrapped(self, frame, inbound=True):
            cfg = self.nmne_config
            if cfg and cfg.capture_nmne and any(k in str(frame.payload) for k in cfg.nmne_capture_keywords):
                cls.events.setdefault(id(self), [self, []])[1].append(bool(inbound))
            return orig(self, frame, inbound)
        NetworkInterface._capture_nmne = wrapped
        cls.installed = True

    def __init__(self):
        self.per_obs = {}     # id(nic observation) -> {"o": obs, "ops": [...], "out": [...], "pos": events consumed}

    def check(self, ck, env, name, ep, st, hist):
        ag, sim = env.agent, env.game.simulation
        root = ag.observation_manager.obs
        nodes_obs = [c for c in getattr(root, "components", {}).items() if type(c[1]).__name__ == "NodesObservation"]
        nested = nested_obs(ag)
        for label, no in nodes_obs:
            for hi_, h in enumerate(no.hosts):
                node = obstruth._node(sim, h.where[-1]) if h.where else None
                on = node is not None and node.operating_state.name == "ON"
                for slot, o in enumerate(h.nics):
                    if not o.include_nmne:
                        continue
                    rec = self.per_obs.setdefault(id(o), {"o": o, "ops": [], "out": [], "pos": 0})
                    nic = node.network_interface.get(o.where[-1]) if (node is not None and o.where) else None
                    ev = NmneMon.events.get(id(nic), [None, []])[1] if nic is not None else []
                    new = ev[rec["pos"]:]
                    rec["pos"] = len(ev)
                    rec["ops"] += ["Captured %s" % ("true" if d else "false") for d in new]
                    present = on and nic is not None
                    rec["ops"].append("Observe %s" % ("true" if present else "false"))
                    rec.setdefault("pending", [0, 0])
                    for d in new:
                        rec["pending"][0 if d else 1] += 1
                    try:
                        leaf = nested[label]["HOST%d" % hi_]["NICS"][slot + 1]["NMNE"]
                        got = [int(leaf["inbound"]), int(leaf["outbound"])]
                    except Exception:
                        got = [-1, -1]
                    rec["out"] += got
                    if present:
                        want = [obstruth.cat(o.low_nmne_threshold, o.med_nmne_threshold, o.high_nmne_threshold, c) for c in rec["pending"]]
                        rec["pending"] = [0, 0]
                    else:
                        want = [0, 0]
                    ck.count("nmne-leaf-checks")
                    if sum(want) > 0:
                        ck.count("nmne-leaf-nonzero")
                    if got != want:
                        ck.violation("observation-differs-from-ground-truth:NMNE", "%s episode %d step %d: NMNE leaf of host %s interface slot %d is %s, but %s keyword frames "
                                     "(inbound, outbound) passed that interface since its last observation => %s" % (name, ep, st, h.where[-1] if h.where else None, slot + 1, got,
                                     "these many" if present else "the host is not ON; any", want),
                                     {"scenario": name, "episode": ep, "step": st, "host": h.where[-1] if h.where else None, "slot": slot + 1, "observed": got, "expected": want, "actions": list(hist)})

    def flush(self):
        for rec in self.per_obs.values():
            o = rec["o"]
            if rec["ops"]:
                NmneMon.cases.append(("(%d, %d, %d, [%s])" % (o.low_nmne_threshold, o.med_nmne_threshold, o.high_nmne_threshold, "; ".join(rec["ops"])), list(rec["out"])))
        self.per_obs = {}


def walk(ck, name, cfg, steps, membership=True, truth=False, episodes=2, idle=0.0):
    rng = ck.rng
    cfg = copy.deepcopy(cfg)
    cfg["game"]["max_episode_length"] = max(cfg["game"].get("max_episode_length", 0), steps + 2)
    del PENDING[:]
    obstruth.set_flags_from_config(cfg)
    mon = None
    if truth:
        NmneMon.install()
        mon = NmneMon()
    env = world.make_env(cfg)
    space0 = env.observation_space
    aspace0 = env.action_space
    for ep in range(episodes):
        obs, _ = env.reset()
        if mon is not None:
            mon.flush()
            mon.check(ck, env, name, ep, -1, [])
        if membership:
            if env.observation_space != space0 or env.action_space != aspace0:
                ck.violation("space-changed-between-episodes", "%s: the observation/action space of episode %d differs from the first one" % (name, ep), {"scenario": name, "episode": ep})
            check_member(ck, env, obs, name, ep, -1, None)
        n = env.action_space.n
        space_ep = env.observation_space
        nspace_sig = space_sig(env.agent.observation_manager.space)
        inv = world.inventory(env.game.simulation)
        hist = []
        for st in range(steps):
            game = env.game
            reqs = extra_requests(game, rng, inv)
            if reqs:
                orig = game.apply_agent_actions

                def patched(_o=orig, _reqs=reqs, _g=game):
                    _o()
                    for r in _reqs:
                        try:
                            _g.simulation.apply_request(r)
                        except Exception:
                            pass
                game.apply_agent_actions = patched
            a = rng.randrange(n)
            if rng.random() < idle:
                a = 0                   # let the scripted agents' traffic flow
            elif rng.random() < 0.3:      # bias towards power / lifecycle actions so that off / transitional states are visited
                pw = [i for i, (t, o) in env.agent.action_manager.action_map.items() if t in POWER]
                if pw:
                    a = rng.choice(pw)
            hist.append(a)
            try:
                obs, rew, term, trunc, info = env.step(a)
            except Exception as e:
                ck.violation("step-raises:%s" % type(e).__name__, "%s: env.step(%d) raised %r" % (name, a, e), {"scenario": name, "episode": ep, "actions": hist})
                return
            finally:
                if reqs:
                    game.apply_agent_actions = orig
            ck.evaluations += 1
            if membership:
                check_member(ck, env, obs, name, ep, st, hist)
                # the declared space is fixed for the episode: an agent built against the space read at reset relies on it
                if env.observation_space != space_ep or space_sig(env.agent.observation_manager.space) != nspace_sig:
                    ck.violation("space-changed-within-episode", "%s: the observation space read after step %d differs from the one read at reset (flat size %s -> %s)"
                                 % (name, st, flat_size(space_ep), flat_size(env.observation_space)), {"scenario": name, "episode": ep, "step": st, "actions": list(hist)})
                    return
            if truth:
                check_truth(ck, env, name, ep, st, hist)
                mon.check(ck, env, name, ep, st, hist)
            if trunc:
                break
    if mon is not None:
        mon.flush()


def space_sig(space):
    from gymnasium import spaces
    if isinstance(space, spaces.Dict):
        return ("D", tuple((k, space_sig(v)) for k, v in space.spaces.items()))
    if isinstance(space, spaces.Discrete):
        return ("n", int(space.n))
    if isinstance(space, spaces.MultiDiscrete):
        return ("m", tuple(int(x) for x in space.nvec))
    if isinstance(space, spaces.Box):
        return ("b", tuple(space.shape), str(space.dtype))
    return ("?", repr(space))


def flat_size(space):
    try:
        from gymnasium.spaces import flatdim
        return flatdim(space)
    except Exception:
        return None


def check_member(ck, env, obs, name, ep, st, hist):
    space = env.observation_space
    ctx = {"scenario": name, "episode": ep, "step": st, "actions": list(hist or [])}
    try:
        ok = space.contains(obs)
    except Exception as e:
        ok = False
        ctx["contains_raised"] = repr(e)
    if not ok:
        ck.violation("observation-not-in-space:%s" % ("flat" if env.agent.flatten_obs else "nested"),
                     "%s: the observation returned by %s is not a member of env.observation_space" % (name, "reset" if st < 0 else "step %d" % st), ctx)
    ag = env.agent
    nested = nested_obs(ag)
    nspace = ag.observation_manager.space
    if not nspace.contains(nested):
        where = first_outside(nspace, nested)
        ck.violation("nested-observation-not-in-space:%s" % where.split("=")[0], "%s: nested observation leaves its declared space at %s" % (name, where), dict(ctx, where=where))
    ck.count("membership-checks")


def first_outside(space, obs, path=""):
    from gymnasium import spaces
    if isinstance(space, spaces.Dict):
        if not isinstance(obs, dict):
            return path + "=<not a dict>"
        for k, sp in space.spaces.items():
            if k not in obs:
                return "%s/%s=<missing>" % (path, k)
            r = first_outside(sp, obs[k], "%s/%s" % (path, k))
            if r:
                return r
        for k in obs:
            if k not in space.spaces:
                return "%s/%s=<undeclared key>" % (path, k)
        return ""
    try:
        return "" if space.contains(obs) or space.contains(np.int64(obs)) else "%s=%r not in %s" % (path, obs, space)
    except Exception:
        return "%s=%r not in %s" % (path, obs, space)


def check_truth(ck, env, name, ep, st, hist):
    ag = env.agent
    sim = env.game.simulation
    expected = obstruth.expected_for(ag.observation_manager.obs, sim)
    nested = nested_obs(ag)
    diffs = obstruth.diff(expected, nested)
    ck.count("truth-checks")
    for (path, want, got) in diffs[:3]:
        leaf = path.rstrip("0123456789/").split("/")[-1] or path
        ck.violation("observation-differs-from-ground-truth:%s" % path.split("/")[-1],
                     "%s episode %d step %d: observation leaf %s = %r but the simulator object encodes as %r" % (name, ep, st, path, got, want),
                     {"scenario": name, "episode": ep, "step": st, "leaf": path, "observed": got, "expected": want, "actions": list(hist)})
