"""C20: scenario dict -> Model.Build term; built simulation -> inventory rows (same encoding)."""
import re
from lib import buildkeys as bk
from lib.common import zl, Raw

_IP = re.compile(r"^\d{1,3}\.\d{1,3}\.\d{1,3}\.\d{1,3}$")
PROTO = {"tcp": 1, "udp": 2, "icmp": 3}
PORT_KEYS = ("src_port", "dst_port", "target_port", "masquerade_port")
PROTO_KEYS = ("protocol", "masquerade_protocol")
SOFTWARE_FILES = {("database", "database.db"), ("downloads", "database.db"), ("primaite", "index.html")}


def ip2i(s):
    a, b, c, d = map(int, str(s).split("."))
    return (a << 24) | (b << 16) | (c << 8) | d


class Interner:
    def __init__(self):
        self.t = {}

    def __call__(self, s):
        s = str(s)
        if s in bk.ENUMS:
            return bk.TABLE["E:" + s]
        if s in bk.SYSTEM:
            return bk.TABLE["S:" + s]
        if s not in self.t:
            self.t[s] = bk.FIRST_FREE + len(self.t)
        return self.t[s]


def port_num(v):
    from primaite.utils.validation.port import PORT_LOOKUP
    if isinstance(v, int):
        return v
    return PORT_LOOKUP[str(v)]


def value(v, key, it, in_node):
    """a scalar of the scenario file -> Z, as the loader's own parsing maps it (names of ports / protocols -> numbers)."""
    if v is None:
        return None
    if isinstance(v, bool):
        return 1 if v else 0
    if key in ("metric", "bandwidth"):
        return int(round(float(v) * 1000))
    if isinstance(v, float):
        return int(round(v * 1000))
    if isinstance(v, int):
        return v
    s = str(v)
    if key in PORT_KEYS:
        return port_num(s)
    if key in PROTO_KEYS:
        return PROTO[s.lower()]
    if key == "type" and in_node and s in bk.NODE_TYPES:
        return bk.TABLE["T:" + s]
    if key == "operating_state":
        return it(s.upper())
    if _IP.match(s):
        return ip2i(s)
    return it(s)


def to_coq(c, it, key=None, in_node=False):
    if isinstance(c, dict):
        ents = []
        if key == "files#item" and "file_name" in c and "." not in str(c["file_name"]) and str(c.get("type", "UNKNOWN")).upper() != "UNKNOWN":
            # File's documented naming rule: a name without an extension takes the extension of its declared type
            c = dict(c, file_name="%s.%s" % (c["file_name"], str(c["type"]).lower()))
        for k, v in c.items():
            if isinstance(k, bool):
                continue
            if isinstance(k, int):
                kid = k
            elif ("K:" + str(k)) in bk.TABLE:
                kid = bk.TABLE["K:" + str(k)]
            else:
                continue                      # a key the model does not read
            node_level = key == "nodes#item"
            ents.append("(%d, %s)" % (kid, to_coq(v, it, str(k), in_node=node_level)))
        return "(CMap [%s])" % "; ".join(ents)
    if isinstance(c, (list, tuple)):
        return "(CList [%s])" % "; ".join(to_coq(x, it, (key + "#item") if key else None) for x in c)
    z = value(c, key, it, in_node)
    if z is None:
        return "CNone"
    return "(CInt %s)" % (("(%d)" % z) if z < 0 else str(z))


def oval(v, key, it):
    """a value read from a built object -> Z (same encoding as `value`)."""
    import ipaddress
    if v is None:
        return None
    if isinstance(v, (ipaddress.IPv4Address,)):
        return int(v)
    if hasattr(v, "value") and hasattr(v, "name") and not isinstance(v, (int, str)):
        v = v.name
    return value(v, key, it, False)


def option_value(sw, key):
    """where the behaviour of a piece of software actually reads an option from."""
    alias = {("database-client", "db_server_ip"): "server_ip_address", ("database-client", "server_password"): "server_password",
             ("data-manipulation-bot", "server_ip"): "server_ip_address", ("ransomware-script", "server_ip"): "server_ip_address",
             ("database-service", "db_password"): "password", ("database-service", "backup_server_ip"): "backup_server_ip",
             ("ntp-client", "ntp_server_ip"): "ntp_server"}
    name = alias.get((sw.name, key))
    if name and hasattr(sw, name):
        return getattr(sw, name)
    if hasattr(sw, "config") and hasattr(sw.config, key):
        return getattr(sw.config, key)
    return getattr(sw, key, None)


def actual_rows(game, cfg, it):
    """the inventory of the built simulation, read from the objects."""
    sim = game.simulation
    rows = []
    declared = {n["hostname"]: n for n in cfg.get("simulation", {}).get("network", {}).get("nodes", [])}
    for n in sim.network.nodes.values():
        host = it(n.config.hostname)
        ty = n.config.type
        tid = bk.TABLE.get("T:" + ty, None) or it(ty)
        on = 1 if n.operating_state.name == "ON" else 0
        if ty in ("computer", "server", "printer"):
            nic = n.network_interface[1]
            gw = n.config.default_gateway
            rows.append([1, host, tid, on, int(nic.ip_address), int(nic.subnet_mask), 0 if gw is None else int(gw)])
        else:
            rows.append([1, host, tid, on, 0, 0, 0])
        kind = type(n).__name__
        if kind in ("Router", "Firewall", "WirelessRouter"):
            for pn, nic in n.network_interface.items():
                if getattr(nic, "ip_address", None) is not None and str(nic.ip_address) != "127.0.0.1":
                    rows.append([2, host, pn, int(nic.ip_address), int(nic.subnet_mask)])
            lists = [(0, n.acl)] if kind != "Firewall" else [(1, n.external_inbound_acl), (2, n.external_outbound_acl), (3, n.internal_inbound_acl),
                                                                 (4, n.internal_outbound_acl), (5, n.dmz_inbound_acl), (6, n.dmz_outbound_acl)]
            for code, acl in lists:
                for pos, r in enumerate(acl.acl):
                    if r is None:
                        continue
                    o = lambda v: -1 if v is None else int(v)
                    rows.append([3, host, code, pos, it(r.action.name), -1 if r.protocol is None else PROTO[str(r.protocol).lower()], o(r.src_ip_address), o(r.src_wildcard_mask),
                                 o(r.dst_ip_address), o(r.dst_wildcard_mask), -1 if r.src_port is None else int(r.src_port), -1 if r.dst_port is None else int(r.dst_port)])
            for i, rt in enumerate(n.route_table.routes):
                rows.append([4, host, i, int(rt.address), int(rt.subnet_mask), int(rt.next_hop_ip_address), int(round(float(rt.metric) * 1000))])
            if n.route_table.default_route is not None:
                rows.append([5, host, int(n.route_table.default_route.next_hop_ip_address)])
        dn = declared.get(n.config.hostname, {})
        from primaite.simulator.system.services.service import Service
        for name, sw in n.software_manager.software.items():
            if name not in bk.SYSTEM:
                rows.append([6, host, 1 if isinstance(sw, Service) else 2, it(name)])
        for sec in ("services", "applications"):
            for scfg in dn.get(sec, []) or []:
                sw = n.software_manager.software.get(scfg["type"])
                for k, dv in (scfg.get("options") or {}).items():
                    if k in bk.OPTION_KEYS and dv is not None and not isinstance(dv, (dict, list)):
                        av = oval(option_value(sw, k) if sw is not None else None, k, it)
                        rows.append([11, host, it(scfg["type"]), bk.TABLE["K:" + k], -999999 if av is None else av])
        um = n.software_manager.software.get("user-manager")
        if um is not None:
            declared_users = {u["username"] for u in dn.get("users", []) or []}
            for uname, u in um.users.items():
                if uname == "admin" and "admin" not in declared_users:
                    continue
                rows.append([7, host, it(uname), 1 if u.is_admin else 0])
        for fo in n.file_system.folders.values():
            for f in fo.files.values():
                if (fo.name, f.name) in SOFTWARE_FILES:
                    continue
                rows.append([8, host, it(fo.name), it(f.name)])
    for l in sim.network.links.values():
        rows.append([9, it(l.endpoint_a.parent.config.hostname), l.endpoint_a.port_num, it(l.endpoint_b.parent.config.hostname), l.endpoint_b.port_num, int(round(float(l.bandwidth) * 1000))])
    for ref, a in game.agents.items():
        rows.append([10, it(ref), -1 if a.config.type is None else it(a.config.type), -1 if a.config.team is None else it(a.config.team)])
    return rows


def flatten(rows):
    out = []
    for r in sorted(rows):
        out += [len(r)] + list(r)
    return out


def unflatten(flat):
    rows, i = [], 0
    while i < len(flat):
        n = flat[i]
        rows.append(tuple(flat[i + 1:i + 1 + n]))
        i += 1 + n
    return rows


ROWNAME = {1: "node", 2: "port", 3: "ACL rule", 4: "route", 5: "default route", 6: "software", 7: "user", 8: "file", 9: "link", 10: "agent", 11: "software option"}


def describe(row, it):
    back = {v: k for k, v in it.t.items()}
    back.update({v: k.split(":", 1)[1] for k, v in bk.TABLE.items()})

    def nm(z):
        return back.get(z, z)
    t = row[0]
    if t in (1, 2, 4, 5):
        return "%s %s" % (ROWNAME[t], [nm(row[1])] + [int(x) for x in row[2:]])
    if t == 3:      # host, list, position, action, then numeric fields
        return "%s %s" % (ROWNAME[t], [nm(row[1]), int(row[2]), int(row[3]), nm(row[4])] + [int(x) for x in row[5:]])
    if t == 9:
        return "%s %s" % (ROWNAME[t], [nm(row[1]), int(row[2]), nm(row[3]), int(row[4]), int(row[5]) / 1000.0])
    return "%s %s" % (ROWNAME.get(t, t), [nm(x) for x in row[1:]])
