"""Translator tie: regenerate coq/Gen/<K>.v from /repo's current source, then re-check Gen = Model (Proofs/GenEq_<K>.v)."""
import os, subprocess, sys
from lib.common import VERIF, COQ, REPO, coq_make, write_if_changed

KERNELS = {}   # name -> dict(gen="Gen/X.v", eq="Proofs/GenEqX.vo"); filled by translator.py2coq.KERNELS


def check(ck, names):
    sys.path.insert(0, os.path.join(VERIF, "translator"))
    try:
        import py2coq
    except Exception as e:  # translator missing entirely
        ck.notes.append("translator not available: %r" % e)
        return
    for nme in names:
        if nme not in py2coq.KERNELS:
            continue
        k = py2coq.KERNELS[nme]
        try:
            text = py2coq.translate(nme, REPO)
        except Exception as e:
            ck.broken("translation of kernel group %s" % nme, "py2coq refused the current source: %r" % (e,))
            continue
        ck.obligation("translation of kernel group %s (%s)" % (nme, ", ".join(k["functions"])), "translation", True)
        write_if_changed(os.path.join(COQ, k["gen"]), text)
        ok, out = coq_make([k["eq"]])
        ck.obligation("Gen = Model for %s (%s)" % (nme, k["eq"]), "gen=model", ok, out[-1500:] if not ok else "")
