"""Scenario loading, generated scenario families, component inventory, action catalogue, state normalisation."""
import copy, glob, json, os, re
import yaml

REPO = os.environ.get("PV_REPO", "/repo")
PKG = os.path.join(REPO, "src/primaite/config/_package_data")
ASSETS = os.path.join(REPO, "tests/assets/configs")
IO_OFF = {"save_agent_actions": False, "save_step_metadata": False, "save_pcap_logs": False, "save_sys_logs": False,
          "save_agent_logs": False}


def load_cfg(path, io_off=True):
    cfg = yaml.safe_load(open(path))
    if io_off and isinstance(cfg, dict):
        cfg["io_settings"] = dict(IO_OFF)
    return cfg


def shipped(kind="all"):
    """(name, path) of loadable single-file scenarios with agents (gym-capable when they have a proxy agent)."""
    out = []
    for nme in ("data_manipulation.yaml", "uc7_config.yaml", "uc7_config_tap003.yaml", "data_manipulation_marl.yaml"):
        out.append(("pkg/" + nme, os.path.join(PKG, nme)))
    if kind == "all":
        for nme in ("basic_switched_network.yaml", "dmz_network.yaml", "basic_firewall.yaml", "shared_rewards.yaml",
                    "firewall_actions_network.yaml", "install_and_configure_apps.yaml", "nodes_with_initial_files.yaml",
                    "basic_node_with_users.yaml", "fixing_duration_one_item.yaml", "software_fixing_duration.yaml",
                    "action_penalty.yaml", "extended_config.yaml", "test_application_install.yaml", "data_manipulation.yaml",
                    "basic_c2_setup.yaml", "nmap_port_scan_red_agent_config.yaml", "nmap_ping_scan_red_agent_config.yaml"):
            p = os.path.join(ASSETS, nme)
            if os.path.exists(p):
                out.append(("asset/" + nme, p))
    return out


def has_single_proxy(cfg):
    ags = [a for a in cfg.get("agents", []) if a.get("type") == "proxy-agent"]
    return len(ags) == 1


def make_env(cfg):
    from primaite.session.environment import PrimaiteGymEnv
    return PrimaiteGymEnv(env_config=copy.deepcopy(cfg))


def make_game(cfg):
    from primaite.game.game import PrimaiteGame
    return PrimaiteGame.from_config(copy.deepcopy(cfg))


# ---- inventory -----------------------------------------------------------------------------------
def inventory(sim):
    from primaite.simulator.system.services.service import Service
    from primaite.simulator.system.applications.application import Application
    inv = {}
    for node in sim.network.nodes.values():
        kind = type(node).__name__.lower()
        d = {"kind": kind, "nics": sorted(node.network_interface.keys()), "services": [], "applications": [],
             "folders": {}, "users": [], "ips": []}
        for nme, sw in node.software_manager.software.items():
            if isinstance(sw, Service):
                d["services"].append(nme)
            elif isinstance(sw, Application):
                d["applications"].append(nme)
        for f in node.file_system.folders.values():
            d["folders"][f.name] = [x.name for x in f.files.values()]
        try:
            d["users"] = list(node.user_manager.users.keys())
        except Exception:
            pass
        for nic in node.network_interface.values():
            ip = getattr(nic, "ip_address", None)
            if ip is not None:
                d["ips"].append(str(ip))
        inv[node.config.hostname] = d
    return inv


HOSTS = ("computer", "server", "printer")
SVC_VERBS = ("scan", "stop", "start", "pause", "resume", "restart", "disable", "enable", "fix")
APP_VERBS = ("execute", "scan", "close", "fix")
FILE_VERBS = ("scan", "checkhash", "delete", "repair", "restore", "corrupt", "access")
FOLDER_VERBS = ("scan", "checkhash", "repair", "restore")
INSTALLABLE = ("dos-bot", "web-browser", "database-client", "data-manipulation-bot", "ransomware-script", "c2-beacon")


def catalogue(inv, rng=None, missing=True, per_node_cap=None):
    """every registered action type x every component it can address (params naming existing components), plus,
    when `missing`, the same actions aimed at components that do not exist.  Returns list of
    (action_type, options, targets_exist: bool)."""
    acts = [("do-nothing", {}, True)]
    all_ips = [ip for d in inv.values() for ip in d["ips"] if not ip.startswith("127.")]
    some_ip = all_ips[0] if all_ips else "10.0.0.1"

    def node_actions(nm, d, ex):
        a = []
        for v in ("shutdown", "startup", "reset"):
            a.append(("node-" + v, {"node_name": nm}, ex))
        a.append(("node-os-scan", {"node_name": nm}, ex))
        for s in d["services"]:
            for v in SVC_VERBS:
                a.append(("node-service-" + v, {"node_name": nm, "service_name": s}, ex))
        for ap in d["applications"]:
            for v in APP_VERBS:
                a.append(("node-application-" + v, {"node_name": nm, "application_name": ap}, ex))
        for ap in INSTALLABLE:
            a.append(("node-application-install", {"node_name": nm, "application_name": ap}, ex))
            if ap in d["applications"]:
                a.append(("node-application-remove", {"node_name": nm, "application_name": ap}, ex))
        for fo, files in d["folders"].items():
            for v in FOLDER_VERBS:
                a.append(("node-folder-" + v, {"node_name": nm, "folder_name": fo}, ex))
            a.append(("node-folder-create", {"node_name": nm, "folder_name": fo}, ex))
            for fi in files:
                for v in FILE_VERBS:
                    a.append(("node-file-" + v, {"node_name": nm, "folder_name": fo, "file_name": fi}, ex))
                a.append(("node-file-create", {"node_name": nm, "folder_name": fo, "file_name": fi, "force": False}, ex))
            a.append(("node-file-create", {"node_name": nm, "folder_name": fo, "file_name": "new_file.txt", "force": False}, ex))
        a.append(("node-folder-create", {"node_name": nm, "folder_name": "new_folder"}, ex))
        if d["kind"] in HOSTS:
            for n in d["nics"]:
                a.append(("host-nic-enable", {"node_name": nm, "nic_num": n}, ex))
                a.append(("host-nic-disable", {"node_name": nm, "nic_num": n}, ex))
        else:
            for n in d["nics"]:
                a.append(("network-port-enable", {"target_nodename": nm, "port_num": n}, ex))
                a.append(("network-port-disable", {"target_nodename": nm, "port_num": n}, ex))
        rule = {"position": 1, "permission": "DENY", "src_ip": some_ip, "src_wildcard": "NONE", "src_port": "ALL",
                "dst_ip": "ALL", "dst_wildcard": "0.0.0.255", "dst_port": 80, "protocol_name": "tcp"}
        if d["kind"] in ("router", "wirelessrouter"):
            for pos in (1, 0, 23, 24, -1):
                a.append(("router-acl-add-rule", dict(rule, target_router=nm, position=pos), ex))
            a.append(("router-acl-add-rule", dict(rule, target_router=nm, position=2, src_ip="ALL", protocol_name="ALL", dst_port="ALL", dst_wildcard="NONE"), ex))
            # an address, wildcard and port that no observation list of the scenario mentions
            a.append(("router-acl-add-rule", dict(rule, target_router=nm, position=3, src_ip="10.250.0.77", src_wildcard="0.0.3.255", dst_port=21), ex))
            for pos in (1, 0, 22, 24, 30):
                a.append(("router-acl-remove-rule", {"target_router": nm, "position": pos}, ex))
        if d["kind"] == "firewall":
            for port in ("internal", "external", "dmz"):
                for di in ("inbound", "outbound"):
                    a.append(("firewall-acl-add-rule", dict(rule, target_firewall_nodename=nm, firewall_port_name=port,
                                                            firewall_port_direction=di), ex))
                    a.append(("firewall-acl-remove-rule", {"target_firewall_nodename": nm, "firewall_port_name": port,
                                                           "firewall_port_direction": di, "position": 1}, ex))
        for u in d["users"]:
            a.append(("node-account-change-password", {"node_name": nm, "username": u, "current_password": "admin", "new_password": "pw2"}, ex))
            a.append(("node-account-disable-user", {"node_name": nm, "username": u}, ex))
        if d["users"]:
            a.append(("node-account-add-user", {"node_name": nm, "username": "newuser", "password": "pw", "is_admin": False}, ex))
            a.append(("node-session-remote-login", {"node_name": nm, "remote_ip": some_ip, "username": "admin", "password": "admin"}, ex))
            a.append(("node-session-remote-logoff", {"node_name": nm, "remote_ip": some_ip}, ex))
            a.append(("node-send-remote-command", {"node_name": nm, "remote_ip": some_ip, "command": ["file_system", "create", "folder", "rc"]}, ex))
            a.append(("node-send-local-command", {"node_name": nm, "username": "admin", "password": "admin", "command": ["file_system", "create", "folder", "lc"]}, ex))
        if "nmap" in d["applications"]:
            a.append(("node-nmap-ping-scan", {"source_node": nm, "target_ip_address": some_ip, "show": False}, ex))
            a.append(("node-nmap-port-scan", {"source_node": nm, "target_ip_address": some_ip, "target_port": 80, "target_protocol": "tcp", "show": False}, ex))
            a.append(("node-network-service-recon", {"source_node": nm, "target_ip_address": some_ip, "target_port": 80, "target_protocol": "tcp", "show": False}, ex))
        if "database-client" in d["applications"]:
            a.append(("configure-database-client", {"node_name": nm, "server_ip_address": some_ip, "server_password": "pw"}, ex))
        if "dos-bot" in d["applications"]:
            a.append(("configure-dos-bot", {"node_name": nm, "target_ip_address": some_ip, "target_port": 5432}, ex))
        if "ransomware-script" in d["applications"]:
            a.append(("configure-ransomware-script", {"node_name": nm, "server_ip_address": some_ip, "server_password": None, "payload": "ENCRYPT"}, ex))
        if "c2-beacon" in d["applications"]:
            a.append(("configure-c2-beacon", {"node_name": nm, "c2_server_ip_address": some_ip, "keep_alive_frequency": 5,
                                              "masquerade_protocol": "tcp", "masquerade_port": 80}, ex))
        if "c2-server" in d["applications"]:
            a.append(("c2-server-ransomware-launch", {"node_name": nm}, ex))
            a.append(("c2-server-ransomware-configure", {"node_name": nm, "server_ip_address": some_ip, "payload": "ENCRYPT"}, ex))
            a.append(("c2-server-terminal-command", {"node_name": nm, "commands": ["file_system", "create", "folder", "c2"],
                                                     "ip_address": None, "username": "admin", "password": "admin"}, ex))
            a.append(("c2-server-data-exfiltrate", {"node_name": nm, "username": "admin", "password": "admin", "target_ip_address": some_ip,
                                                    "target_file_name": "database.db", "target_folder_name": "database",
                                                    "exfiltration_folder_name": "spoils"}, ex))
        return a

    for nm, d in inv.items():
        a = node_actions(nm, d, True)
        if per_node_cap and rng and len(a) > per_node_cap:
            a = rng.sample(a, per_node_cap)
        acts += a
    if missing:
        # same shapes aimed at components that do not exist (ghost node, misspelt software / folder / file / nic)
        ghost = {"kind": "computer", "nics": [1], "services": ["dns-client"], "applications": ["web-browser"],
                 "folders": {"root": ["x.txt"]}, "users": [], "ips": []}
        acts += [(t, o, False) for (t, o, _) in node_actions("ghost_node", ghost, False)][:40]
        for nm, d in list(inv.items())[:4]:
            acts.append(("node-service-stop", {"node_name": nm, "service_name": "no-such-service"}, False))
            acts.append(("node-application-execute", {"node_name": nm, "application_name": "no-such-app"}, False))
            acts.append(("node-file-scan", {"node_name": nm, "folder_name": "no_folder", "file_name": "no_file"}, False))
            acts.append(("node-folder-scan", {"node_name": nm, "folder_name": "no_folder"}, False))
            acts.append(("node-file-delete", {"node_name": nm, "folder_name": "root", "file_name": "no_file"}, False))
            if d["kind"] in HOSTS:
                acts.append(("host-nic-disable", {"node_name": nm, "nic_num": 9}, False))
            else:
                acts.append(("network-port-disable", {"target_nodename": nm, "port_num": 99}, False))
    return acts


def form_request(action_type, options):
    from primaite.game.agent.actions.abstract import AbstractAction
    import primaite.game.agent.actions  # noqa: F401  (registers the action types)
    cls = AbstractAction._registry[action_type]
    return cls.form_request(cls.ConfigSchema(**options))


# ---- state normalisation -----------------------------------------------------------------------------
_UUID = re.compile(r"^[0-9a-f]{8}-[0-9a-f]{4}-[0-9a-f]{4}-[0-9a-f]{4}-[0-9a-f]{12}$")
_MAC = re.compile(r"^([0-9a-f]{2}:){5}[0-9a-f]{2}$")
_EMBEDDED = re.compile(r"[0-9a-f]{8}-[0-9a-f]{4}-[0-9a-f]{4}-[0-9a-f]{4}-[0-9a-f]{12}|(?:[0-9a-f]{2}:){5}[0-9a-f]{2}")


def norm_state(x, table=None, drop=("uuid",)):
    """uuid / MAC values -> ordinal of first appearance; uuid-keyed dicts -> lists in order; floats rounded."""
    if table is None:
        table = {}

    def ident(s):
        if s not in table:
            table[s] = "#%d" % len(table)
        return table[s]

    def go(v):
        if isinstance(v, dict):
            out = {}
            for k, val in v.items():
                if k in drop:
                    continue
                ks = ident(k) if isinstance(k, str) and (_UUID.match(k) or _MAC.match(k)) else k
                out[str(ks)] = go(val)
            return out
        if isinstance(v, (list, tuple)):
            return [go(e) for e in v]
        if isinstance(v, str) and (_UUID.match(v) or _MAC.match(v)):
            return ident(v)
        if isinstance(v, str) and ("-" in v or ":" in v):
            # opaque identifiers embedded in a message ("... NetworkInterface 'aa:bb:..' ...")
            return _EMBEDDED.sub(lambda m: ident(m.group(0)), v)
        if isinstance(v, float):
            return round(v, 9)
        if hasattr(v, "value") and hasattr(v, "name"):
            return v.name
        if isinstance(v, (int, str, bool)) or v is None:
            return v
        return str(v)
    return go(x)


def state_digest(state):
    import hashlib
    return hashlib.md5(json.dumps(norm_state(state), sort_keys=True, default=str).encode()).hexdigest()


def dict_diff(a, b, path="", out=None, limit=6):
    if out is None:
        out = []
    if len(out) >= limit:
        return out
    if isinstance(a, dict) and isinstance(b, dict):
        for k in list(a.keys()) + [k for k in b if k not in a]:
            if k not in a or k not in b:
                out.append("%s/%s: %s" % (path, k, "missing-left" if k not in a else "missing-right"))
            else:
                dict_diff(a[k], b[k], path + "/" + str(k), out, limit)
    elif isinstance(a, list) and isinstance(b, list) and len(a) == len(b):
        for i, (x, y) in enumerate(zip(a, b)):
            dict_diff(x, y, path + "/%d" % i, out, limit)
    elif a != b:
        out.append("%s: %r != %r" % (path, a, b))
    return out


EXECUTABLE_APPS = ("web-browser", "database-client", "data-manipulation-bot", "dos-bot", "ransomware-script", "c2-beacon")


def targets_exist(inv, t, o):
    """do the parameters of action (t, o) name components that exist in inventory `inv` (taken now)?"""
    nm = o.get("node_name") or o.get("source_node") or o.get("target_nodename") or o.get("target_router") or o.get("target_firewall_nodename")
    if t == "do-nothing":
        return True
    if nm not in inv:
        return False
    d = inv[nm]
    if "service_name" in o and o["service_name"] not in d["services"]:
        return False
    if "application_name" in o and t != "node-application-install" and o["application_name"] not in d["applications"]:
        return False
    if t == "node-application-execute" and o["application_name"] not in EXECUTABLE_APPS:
        return False        # the application has no such operation
    if t.startswith("configure-") or t.startswith("c2-server-"):
        app = {"configure-database-client": "database-client", "configure-dos-bot": "dos-bot", "configure-ransomware-script": "ransomware-script",
               "configure-c2-beacon": "c2-beacon"}.get(t, "c2-server")
        if app not in d["applications"]:
            return False
    if t.startswith("node-nmap") or t == "node-network-service-recon":
        if "nmap" not in d["applications"]:
            return False
    if "folder_name" in o and t not in ("node-folder-create", "node-file-create"):
        if o["folder_name"] not in d["folders"]:
            return False
        if "file_name" in o and o["file_name"] not in d["folders"][o["folder_name"]]:
            return False
    if "nic_num" in o and o["nic_num"] not in d["nics"]:
        return False
    if "port_num" in o and o["port_num"] not in d["nics"]:
        return False
    if t.startswith("firewall-acl") and d["kind"] != "firewall":
        return False
    if t.startswith("router-acl") and d["kind"] not in ("router", "wirelessrouter", "firewall"):
        return False
    return True
