"""Independent ground-truth extractor: the documented encoding of every observation leaf, computed from simulator OBJECTS
(not from describe_state), using the observation objects only for their configuration (which component sits in which slot,
which flags / thresholds apply)."""


def _node(sim, name):
    for n in sim.network.nodes.values():
        if n.config.hostname == name:
            return n
    return None


def cat(lo, me, hi, c):
    return 3 if c > hi else 2 if c > me else 1 if c > lo else 0


def band(value, cap):
    if value == 0:
        return 0
    return min(int(value / cap * 9) + 1, 10)


FLAGS = {}        # hostname -> {"services": bool, "applications": bool, "file_system": bool}, read from the SCENARIO (set by the walker)


def set_flags_from_config(cfg):
    """the requires-scan switches as the scenario states them: nodes level (default True), overridden per host when given."""
    FLAGS.clear()
    for a in cfg.get("agents", []):
        if a.get("type") != "proxy-agent":
            continue
        osp = a.get("observation_space") or {}
        comps = (osp.get("options") or {}).get("components", []) if osp.get("type") == "custom" else []
        for c in comps:
            if c.get("type") != "nodes":
                continue
            o = c.get("options") or {}
            top = {"services": o.get("services_requires_scan", True), "applications": o.get("applications_requires_scan", True), "file_system": o.get("file_system_requires_scan", True)}
            top = {k: (True if v is None else bool(v)) for k, v in top.items()}
            for h in o.get("hosts", []) or []:
                f = dict(top)
                for k, key in (("services", "services_requires_scan"), ("applications", "applications_requires_scan"), ("file_system", "file_system_requires_scan")):
                    if h.get(key) is not None:
                        f[k] = bool(h[key])
                FLAGS[h["hostname"]] = f


def _flag(host, kind, fallback):
    f = FLAGS.get(host)
    return fallback if f is None else f[kind]


def service(o, node):
    if o.where is None or node is None:
        return {"operating_status": 0, "health_status": 0}
    s = node.software_manager.software.get(o.where[-1])
    from primaite.simulator.system.services.service import Service
    if not isinstance(s, Service) or s.uuid not in node.services:
        return {"operating_status": 0, "health_status": 0}
    op = s.operating_state.value
    # documented override (ftp_service.py): an FTP service is reported RUNNING only while transmitting in this timestep
    if type(s).__name__ in ("FTPServer", "FTPClient") and op == 1 and not getattr(s, "_active", False):
        op = 2
    return {"operating_status": op,
            "health_status": (s.health_state_visible if _flag(node.config.hostname, "services", o.services_requires_scan) else s.health_state_actual).value}


def application(o, node):
    if o.where is None or node is None:
        return {"operating_status": 0, "health_status": 0, "num_executions": 0}
    from primaite.simulator.system.applications.application import Application
    a = node.software_manager.software.get(o.where[-1])
    if not isinstance(a, Application) or a.uuid not in node.applications:
        return {"operating_status": 0, "health_status": 0, "num_executions": 0}
    return {"operating_status": a.operating_state.value,
            "health_status": (a.health_state_visible if _flag(node.config.hostname, "applications", o.applications_requires_scan) else a.health_state_actual).value,
            "num_executions": cat(o.low_app_execution_threshold, o.med_app_execution_threshold, o.high_app_execution_threshold, a.num_executions)}


def file_(o, folder, host=None):
    d = {"health_status": 0}
    if o.include_num_access:
        d["num_access"] = 0
    if o.where is None or folder is None:
        return d
    f = next((x for x in folder.files.values() if x.name == o.where[-1]), None)
    if f is None:
        return d
    d["health_status"] = (f.visible_health_status if _flag(host, "file_system", o.file_system_requires_scan) else f.health_status).value
    if o.include_num_access:
        d["num_access"] = cat(o.low_file_access_threshold, o.med_file_access_threshold, o.high_file_access_threshold, f.num_access)
    return d


def folder_(o, node):
    d = {"health_status": 0}
    fo = None
    if o.where is not None and node is not None:
        fo = next((x for x in node.file_system.folders.values() if x.name == o.where[-1]), None)
    if fo is not None:
        d["health_status"] = (fo.visible_health_status if _flag(node.config.hostname, "file_system", o.file_system_requires_scan) else fo.health_status).value
    if o.files:
        d["FILES"] = {i + 1: file_(f, fo, node.config.hostname if node is not None else None) for i, f in enumerate(o.files)}
    return d


def nic(o, node, nmne_delta=None):
    d = dict(nic_status=0)
    n = None
    if o.where is not None and node is not None:
        n = node.network_interface.get(o.where[-1])
    if n is not None:
        d["nic_status"] = 1 if n.enabled else 2
    if o.monitored_traffic:
        d["TRAFFIC"] = {}
        for proto in o.monitored_traffic:
            p = str(proto).lower()
            if p == "icmp":
                t = (n.traffic.get("icmp") if n is not None else None) or {"inbound": 0, "outbound": 0}
                d["TRAFFIC"]["icmp"] = {"inbound": band(t["inbound"], n.speed) if n is not None else 0, "outbound": band(t["outbound"], n.speed) if n is not None else 0}
            else:
                d["TRAFFIC"][p] = {}
                for port in o.monitored_traffic[proto]:
                    t = {"inbound": 0, "outbound": 0}
                    if n is not None and n.traffic.get(p) and n.traffic[p].get(port) is not None:
                        t = n.traffic[p][port]
                    d["TRAFFIC"][p][port] = {"inbound": band(t["inbound"], n.speed) if n is not None else 0, "outbound": band(t["outbound"], n.speed) if n is not None else 0}
    if o.include_nmne:
        d["NMNE"] = None        # a per-step difference: checked separately by the caller
    return d


def users(node):
    usm = node.user_session_manager
    return {"local_login": 1 if usm.local_session is not None else 0, "remote_sessions": min(3, len(usm.remote_sessions))}


def host(o, sim):
    node = _node(sim, o.where[-1]) if o.where else None
    on = node is not None and node.operating_state.name == "ON"
    src = node if on else None          # components of a node that is not ON read as defaults
    d = {"operating_status": node.operating_state.value if node is not None else 0}
    if o.services:
        d["SERVICES"] = {i + 1: service(s, src) for i, s in enumerate(o.services)}
    if o.applications:
        d["APPLICATIONS"] = {i + 1: application(a, src) for i, a in enumerate(o.applications)}
    if o.folders:
        d["FOLDERS"] = {i + 1: folder_(f, src) for i, f in enumerate(o.folders)}
    if o.nics:
        d["NICS"] = {i + 1: nic(x, src) for i, x in enumerate(o.nics)}
    if o.include_num_access:
        d["num_file_creations"] = min(src.file_system.num_file_creations, 3) if src else 0
        d["num_file_deletions"] = min(src.file_system.num_file_deletions, 3) if src else 0
    if o.include_users:
        d["users"] = users(src) if src else {"local_login": 0, "remote_sessions": 0}
    return d


def acl(o, acl_obj):
    d = {}
    for i in range(o.num_rules):
        r = acl_obj.acl[i] if (acl_obj is not None and i < len(acl_obj.acl)) else None
        if r is None:
            d[i] = {"position": i, "permission": 0, "source_ip_id": 0, "source_wildcard_id": 0, "source_port_id": 0, "dest_ip_id": 0,
                    "dest_wildcard_id": 0, "dest_port_id": 0, "protocol_id": 0}
        else:
            def ip(v):
                return 1 if v is None else o.ip_to_id.get(str(v), 1)
            d[i] = {"position": i, "permission": r.action.value,
                    "source_ip_id": ip(r.src_ip_address), "source_wildcard_id": o.wildcard_to_id.get(str(r.src_wildcard_mask) if r.src_wildcard_mask else None, 1),
                    "source_port_id": o.port_to_id.get(r.src_port if r.src_port else None, 1),
                    "dest_ip_id": ip(r.dst_ip_address), "dest_wildcard_id": o.wildcard_to_id.get(str(r.dst_wildcard_mask) if r.dst_wildcard_mask else None, 1),
                    "dest_port_id": o.port_to_id.get(r.dst_port if r.dst_port else None, 1),
                    "protocol_id": o.protocol_to_id.get(r.protocol if r.protocol else None, 1)}
    return d


def port(o, node):
    if o.where is None or node is None:
        return {"operating_status": 0}
    n = node.network_interface.get(o.where[-1])
    return {"operating_status": 0 if n is None else (1 if n.enabled else 2)}


def router(o, sim):
    node = _node(sim, o.where[-1]) if o.where else None
    on = node is not None and node.operating_state.name == "ON"
    d = {}
    d["ACL"] = acl(o.acl, node.acl if on else None) if on else o.acl.default_observation
    if o.ports:
        d["PORTS"] = {i + 1: port(p, node if on else None) for i, p in enumerate(o.ports)}
    if o.include_users:
        d["users"] = users(node) if on else {"local_login": 0, "remote_sessions": 0}
    return d


def link(o, sim):
    ref = o.where[-1]
    for l in sim.network.links.values():
        a = "%s:eth-%s" % (l.endpoint_a.parent.config.hostname, l.endpoint_a.port_num)
        b = "%s:eth-%s" % (l.endpoint_b.parent.config.hostname, l.endpoint_b.port_num)
        if ref in ("%s<->%s" % (a, b), "%s<->%s" % (b, a)):
            return {"PROTOCOLS": {"ALL": band(l.current_load, l.bandwidth)}}
    return {"PROTOCOLS": {"ALL": 0}}


def diff(expected, observed, path=""):
    """leaves where the observation differs from the expected encoding (None in expected = not determined here)."""
    out = []
    if expected is None:
        return out
    if isinstance(expected, dict):
        if not isinstance(observed, dict):
            return [(path, expected, observed)]
        for k, v in expected.items():
            if k not in observed:
                out.append((path + "/" + str(k), v, "<missing>"))
            else:
                out += diff(v, observed[k], path + "/" + str(k))
        for k in observed:
            if k not in expected:
                out.append((path + "/" + str(k), "<absent>", observed[k]))
        return out
    if expected != observed:
        out.append((path, expected, observed))
    return out


def expected_for(manager_obs, sim):
    """expected nested observation for an agent's observation object tree (NestedObservation / NodesObservation / ...)."""
    kind = type(manager_obs).__name__
    if kind == "NestedObservation":
        return {k: expected_for(v, sim) for k, v in manager_obs.components.items()}
    if kind == "NodesObservation":
        d = {}
        i = 0
        for h in manager_obs.hosts:
            d["HOST%d" % i] = host(h, sim); i += 1
        j = 0
        for r in manager_obs.routers:
            d["ROUTER%d" % j] = router(r, sim); j += 1
        k = 0
        for f in manager_obs.firewalls:
            d["FIREWALL%d" % k] = None; k += 1           # firewall encoding: membership only (C02)
        return d
    if kind == "LinksObservation":
        return {i + 1: link(l, sim) for i, l in enumerate(manager_obs.links)}
    return None
