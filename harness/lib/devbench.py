"""Single-device benches for C06: a router / firewall / host / switch wired to stub hosts whose interfaces swallow what they
receive; frames are injected into the device's interfaces and its decision is observed (verdicts of the rule lists consulted,
hand-over to its own session manager, every send_frame of the SAME frame object).  Each case is also rendered as a
Model.Device term."""
from lib.common import zl, Raw, Opt

BCAST = "ff:ff:ff:ff:ff:ff"
PROTO = {"tcp": 1, "udp": 2, "icmp": 3}
REMOTE = ["10.9.0.5", "172.16.0.5"]
PORTS = [22, 80, 5432, 219, 123, 21]
RIPS = ["10.0.1.2", "10.0.1.3", "10.0.2.2", "10.0.2.3", "10.0.3.2", "10.0.3.3", "10.9.0.5"]
WCS = ["0.0.0.255", "0.0.255.255", "0.0.0.1", "0.0.0.0", "255.255.255.255", "0.255.0.255"]     # incl. exact-host, any, non-contiguous


def ip2i(s):
    a, b, c, d = map(int, str(s).split("."))
    return (a << 24) | (b << 16) | (c << 8) | d


def mac2i(m):
    if m is None or str(m) == "None":            # a router that found the out-port but no MAC sends the frame with no destination MAC
        return 0
    return int(str(m).replace(":", ""), 16)


def gen_rule(rng):
    def maybe(xs, p=0.5):
        return rng.choice(xs) if rng.random() < p else None
    return {"action": rng.choice(["PERMIT", "DENY"]), "protocol": maybe(list(PROTO), 0.4),
            "src_ip": maybe(RIPS, 0.45), "src_wc": maybe(WCS, 0.4), "dst_ip": maybe(RIPS, 0.45), "dst_wc": maybe(WCS, 0.4),
            "src_port": maybe(PORTS, 0.15), "dst_port": maybe(PORTS, 0.35)}


def coq_rule(r):
    o = lambda v, f=lambda x: x: Opt(None if v is None else f(v))
    return "(mk %s %s %s %s %s %s %s %s)" % (
        1 if r["action"] == "PERMIT" else 2, zl(o(r["protocol"], PROTO.get)), zl(o(r["src_ip"], ip2i)), zl(o(r["src_wc"], ip2i)),
        zl(o(r["dst_ip"], ip2i)), zl(o(r["dst_wc"], ip2i)), zl(o(r["src_port"])), zl(o(r["dst_port"])))


def gen_acl(rng, permissive):
    n = rng.choice([0, 1, 2, 3, 5])
    rules = [(rng.choice([0, 1, 2, 3, 5, 10, 22, 23]), gen_rule(rng)) for _ in range(n)]
    implicit = "PERMIT" if rng.random() < permissive else "DENY"
    return {"implicit": implicit, "rules": rules}


def coq_acl(a):
    return "(mkacl %d %s)" % (1 if a["implicit"] == "PERMIT" else 2, zl([Raw("(%d, %s)" % (p, coq_rule(r))) for p, r in a["rules"]]))


def coq_acl_of(acl):
    """the rule list as the implementation holds it (a router starts with ARP and ICMP permits at 22 and 23)."""
    rules = []
    for i, r in enumerate(acl.acl):
        if r is None:
            continue
        d = {"action": r.action.name, "protocol": r.protocol, "src_ip": None if r.src_ip_address is None else str(r.src_ip_address),
             "src_wc": None if r.src_wildcard_mask is None else str(r.src_wildcard_mask), "dst_ip": None if r.dst_ip_address is None else str(r.dst_ip_address),
             "dst_wc": None if r.dst_wildcard_mask is None else str(r.dst_wildcard_mask), "src_port": r.src_port, "dst_port": r.dst_port}
        rules.append((i, d))
    return coq_acl({"implicit": acl.implicit_action.name, "rules": rules})


def load_acl(acl, a):
    from primaite.simulator.network.hardware.nodes.network.router import ACLAction
    acl.implicit_action = ACLAction[a["implicit"]]
    acl.implicit_rule.action = ACLAction[a["implicit"]]
    for p, r in a["rules"]:
        acl.add_rule(action=ACLAction[r["action"]], protocol=r["protocol"], src_ip_address=r["src_ip"], src_wildcard_mask=r["src_wc"],
                     dst_ip_address=r["dst_ip"], dst_wildcard_mask=r["dst_wc"], src_port=r["src_port"], dst_port=r["dst_port"], position=p)


def make_frame(spec):
    from primaite.simulator.network.transmission.data_link_layer import Frame, EthernetHeader
    from primaite.simulator.network.transmission.network_layer import IPPacket
    from primaite.simulator.network.transmission.transport_layer import TCPHeader, UDPHeader
    from primaite.simulator.network.protocols.icmp import ICMPPacket
    kw = {}
    payload = "x"
    if spec.get("arp_payload"):
        from primaite.simulator.network.protocols.arp import ARPPacket
        payload = ARPPacket(request=True, sender_mac_addr=spec["smac"], sender_ip_address=spec["src"], target_ip_address=spec["dst"])
    if spec["protocol"] == "tcp":
        kw["tcp"] = TCPHeader(src_port=spec["sport"], dst_port=spec["dport"])
    elif spec["protocol"] == "udp":
        kw["udp"] = UDPHeader(src_port=spec["sport"], dst_port=spec["dport"])
    else:
        kw["icmp"] = ICMPPacket()
    return Frame(ethernet=EthernetHeader(src_mac_addr=spec["smac"], dst_mac_addr=spec["dmac"]),
                 ip=IPPacket(src_ip_address=spec["src"], dst_ip_address=spec["dst"], protocol=spec["protocol"], ttl=spec["ttl"]),
                 payload=payload, **kw)


def coq_frame(spec):
    arp = (2 if spec.get("arp_payload") else 1) if (spec["protocol"] == "udp" and spec.get("dport") == 219) else 0
    return "(mkframe %d %d %d %s %s %d %d %d %d)" % (PROTO[spec["protocol"]], ip2i(spec["src"]), ip2i(spec["dst"]), zl(Opt(spec.get("sport"))),
                                                     zl(Opt(spec.get("dport"))), arp, spec["ttl"], mac2i(spec["dmac"]), mac2i(spec["smac"]))


class L3Bench:
    """a router or firewall with three addressed ports, each linked to a stub host."""

    def __init__(self, rng, firewall):
        from primaite.simulator.sim_container import Simulation
        from primaite.simulator.network.hardware.nodes.host.computer import Computer
        from primaite.simulator.network.hardware.nodes.network.router import Router
        from primaite.simulator.network.hardware.nodes.network.firewall import Firewall
        self.rng, self.firewall = rng, firewall
        sim = self.sim = Simulation()
        if firewall:
            d = Firewall.from_config(config={"type": "firewall", "hostname": "dev", "start_up_duration": 0, "shut_down_duration": 0})
        else:
            d = Router.from_config(config={"type": "router", "hostname": "dev", "num_ports": 3, "start_up_duration": 0, "shut_down_duration": 0})
        self.dev = d
        sim.network.add_node(d)
        d.power_on()
        self.stubs = []
        for k in (1, 2, 3):
            d.configure_port(k, "10.0.%d.1" % k, "255.255.255.0")
            s = Computer.from_config(config={"type": "computer", "hostname": "stub%d" % k, "ip_address": "10.0.%d.2" % k, "subnet_mask": "255.255.255.0",
                                             "start_up_duration": 0})
            sim.network.add_node(s)
            s.power_on()
            sim.network.connect(d.network_interface[k], s.network_interface[1])
            object.__setattr__(s.network_interface[1], "receive_frame", lambda frame: True)
            d.network_interface[k].enable()
            self.stubs.append(s)
        # rule lists
        perm = rng.choice([0.2, 0.8])
        self.acls = {}
        if firewall:
            self.lists = [("ext_in", d.external_inbound_acl), ("ext_out", d.external_outbound_acl), ("int_in", d.internal_inbound_acl),
                          ("int_out", d.internal_outbound_acl), ("dmz_in", d.dmz_inbound_acl), ("dmz_out", d.dmz_outbound_acl)]
        else:
            self.lists = [("acl", d.acl)]
        for nme, acl in self.lists:
            a = gen_acl(rng, perm)
            self.acls[nme] = a
            load_acl(acl, a)
        # routes
        self.routes = []
        if rng.random() < 0.7:
            hop = rng.choice(["10.0.2.2", "10.0.3.2", "10.0.1.3"])
            d.route_table.add_route("10.9.0.0", "255.255.255.0", hop, metric=0)
            self.routes.append(("10.9.0.0", "255.255.255.0", hop, 0))
        self.default = None
        if rng.random() < 0.4:
            self.default = rng.choice(["10.0.1.2", "10.0.3.3"])
            d.route_table.set_default_route_next_hop_ip_address(self.default)
        # warm ARP cache (taken as given by the model)
        arp = d.software_manager.arp
        self.hostmac = {}
        for ip in RIPS[:6]:
            self.hostmac[ip] = "aa:00:00:00:%02x:%02x" % (int(ip.split(".")[2]), int(ip.split(".")[3]))
            if rng.random() < 0.75:
                k = int(ip.split(".")[2])
                if rng.random() < 0.08:
                    k = rng.choice([1, 2, 3])
                arp.add_arp_cache_entry(ip_address=__import__("ipaddress").IPv4Address(ip), mac_address=self.hostmac[ip], network_interface=d.network_interface[k])
        # faults
        for k in (1, 2, 3):
            if rng.random() < 0.15:
                d.network_interface[k].disable()
        if rng.random() < 0.08:
            d.power_off()
        # observation hooks
        self.log = None
        for nme, acl in self.lists:
            def isp(frame, _o=acl.is_permitted, _n=nme):
                r = _o(frame)
                if self.log is not None:
                    self.log["lists"].append((_n, bool(r[0])))
                return r
            object.__setattr__(acl, "is_permitted", isp)

        def sm_recv(frame, from_network_interface, **kw):
            if self.log is not None:
                self.log["local"] = True
        object.__setattr__(d.session_manager, "receive_frame", sm_recv)
        o_node = d.receive_frame

        def node_recv(frame, from_network_interface, _o=o_node):
            if self.log is not None:
                self.log["reached"] = True
            return _o(frame=frame, from_network_interface=from_network_interface)
        object.__setattr__(d, "receive_frame", node_recv)
        for k in (1, 2, 3):
            nic = d.network_interface[k]

            def send(frame, _o=nic.send_frame, _k=k):
                ok = _o(frame)
                if self.log is not None and frame is self.log["frame"]:
                    self.log["outs"].append((_k, frame.ip.ttl, str(frame.ethernet.src_mac_addr), str(frame.ethernet.dst_mac_addr), bool(ok)))
                return ok
            object.__setattr__(nic, "send_frame", send)

    def gen_frame(self):
        rng, d = self.rng, self.dev
        p = rng.choice([1, 2, 3])
        own = ["10.0.1.1", "10.0.2.1", "10.0.3.1"]
        pr = rng.choice(["tcp", "udp", "icmp"])
        spec = {"port": p, "protocol": pr, "src": rng.choice(RIPS + ["10.0.%d.2" % p] * 3), "dst": rng.choice(RIPS + REMOTE + own),
                "ttl": rng.choice([1, 2, 3, 64, 64]), "smac": "aa:00:00:00:%02x:%02x" % (p, rng.choice([2, 3]))}
        if pr != "icmp":
            spec["sport"], spec["dport"] = rng.choice(PORTS), rng.choice(PORTS)
            if pr == "udp" and rng.random() < 0.25:
                spec["sport"] = spec["dport"] = 219
                spec["arp_payload"] = rng.random() < 0.6
        x = rng.random()
        spec["dmac"] = str(d.network_interface[p].mac_address) if x < 0.8 else BCAST if x < 0.9 else "aa:00:00:00:77:77"
        return spec

    def inject(self, spec):
        d = self.dev
        fr = make_frame(spec)
        self.log = {"frame": fr, "lists": [], "local": False, "reached": False, "outs": []}
        try:
            d.network_interface[spec["port"]].receive_frame(fr)
        finally:
            log, self.log = self.log, None
        on = d.operating_state.name == "ON"
        denied = any(not ok for _n, ok in log["lists"])
        sent = [o for o in log["outs"] if o[4]]
        if not log["reached"] or (not self.firewall and not on):
            code = [0, -1]
        elif denied:
            code = [1, -1]
        elif log["local"]:
            code = [2, -1]
        elif sent:
            code = [4, sent[0][0] - 1]
        else:
            code = [3, -1]
        out = code + [1 if log["local"] else 0]
        out += [sent[0][1], mac2i(sent[0][2]), mac2i(sent[0][3])] if sent else [-1, -1, -1]
        if self.firewall:
            names = {"ext_in": 1, "ext_out": 2, "int_in": 3, "int_out": 4, "dmz_in": 5, "dmz_out": 6}
            ls = [names[n] for n, _ok in log["lists"]]
            out += [ls[0] if ls else 0, ls[1] if len(ls) > 1 else 0]
        log["code"] = code
        return out, log

    def coq_state(self):
        d = self.dev
        ifs = [Raw("(mknic %d %d %d %d)" % (ip2i(d.network_interface[k].ip_address), ip2i(d.network_interface[k].subnet_mask),
                                             mac2i(d.network_interface[k].mac_address), 1 if d.network_interface[k].enabled else 0)) for k in (1, 2, 3)]
        ports = {nic.uuid: nic.port_num for nic in d.network_interface.values()}
        arp = [Raw("(%d, %d, %d)" % (ip2i(ip), ports[e.network_interface_uuid] - 1, mac2i(e.mac_address))) for ip, e in d.software_manager.arp.arp.items()]
        routes = [Raw("(Route.mk %d %d %d %d %d)" % (ip2i(a), ip2i(m), bin(ip2i(m)).count("1"), ip2i(h), me)) for a, m, h, me in self.routes]
        dflt = "None" if not self.default else "(Some (Route.mk 0 0 0 %d 0))" % ip2i(self.default)
        open_ports = sorted({int(x) for x in d.software_manager.get_open_ports()})
        base_acl = coq_acl_of(d.acl) if not self.firewall else "(mkacl 1 [])"
        r = "(mkrouter %d %s %s %s %s %s %s)" % (1 if d.operating_state.name == "ON" else 0, base_acl, zl(ifs), zl(open_ports), zl(arp), zl(routes), dflt)
        if not self.firewall:
            return r
        return "(mkfw %s %s)" % (r, zl([Raw(coq_acl_of(dict(self.lists)[n])) for n in ("ext_in", "ext_out", "int_in", "int_out", "dmz_in", "dmz_out")]))

    def final(self):
        d = self.dev
        n_arp = len(d.software_manager.arp.arp)
        if self.firewall:
            return [n_arp]
        return [(-1 if r is None else r.match_count) for r in d.acl.acl] + [d.acl.implicit_rule.match_count] + [n_arp]


def l3_case(rng, firewall, n):
    b = L3Bench(rng, firewall)
    state = b.coq_state()
    specs, out, logs = [], [], []
    for _ in range(n):
        s = b.gen_frame()
        o, log = b.inject(s)
        specs.append(s); out += o; logs.append(log)
    out += b.final()
    inj = zl([Raw("(%d, %s)" % (s["port"] - 1, coq_frame(s))) for s in specs])
    return "(%s %s %s)" % ("CFirewall" if firewall else "CRouter", state, inj), out, specs, logs, b


def host_case(rng, n):
    from primaite.simulator.sim_container import Simulation
    from primaite.simulator.network.hardware.nodes.host.server import Server
    from primaite.simulator.network.hardware.nodes.host.computer import Computer
    sim = Simulation()
    svcs = rng.sample(["web-server", "database-service", "ftp-server", "dns-server"], rng.randint(0, 3))
    h = Server.from_config(config={"type": "server", "hostname": "h", "ip_address": "10.0.1.2", "subnet_mask": "255.255.255.0", "start_up_duration": 0,
                                   "shut_down_duration": 0, "services": [{"type": s} for s in svcs]})
    s = Computer.from_config(config={"type": "computer", "hostname": "stub", "ip_address": "10.0.1.3", "subnet_mask": "255.255.255.0", "start_up_duration": 0})
    for x in (h, s):
        sim.network.add_node(x)
        x.power_on()
    sim.network.connect(h.network_interface[1], s.network_interface[1])
    object.__setattr__(s.network_interface[1], "receive_frame", lambda frame: True)
    if svcs and rng.random() < 0.3:
        next(v for v in h.services.values() if type(v).__name__ not in ("ARP", "ICMP", "UserManager", "UserSessionManager", "Terminal", "NTPClient", "DNSClient", "FTPClient")).stop()
    x = rng.random()
    if x < 0.12:
        h.network_interface[1].disable()
    elif x < 0.2:
        h.power_off()
    got = {"v": False}
    object.__setattr__(h.session_manager, "receive_frame", lambda frame, from_network_interface, **kw: got.__setitem__("v", True))
    nic = h.network_interface[1]
    open_ports = sorted({int(p) for p in h.software_manager.get_open_ports()})
    state = "{| h_on := %s; h_nics := [mknic %d %d %d %d]; h_open := %s; h_nmap := false |}" % (
        "true" if h.operating_state.name == "ON" else "false", ip2i(nic.ip_address), ip2i(nic.subnet_mask), mac2i(nic.mac_address), 1 if nic.enabled else 0, zl(open_ports))
    specs, out = [], []
    for _ in range(n):
        pr = rng.choice(["tcp", "udp", "icmp"])
        spec = {"port": 1, "protocol": pr, "src": "10.0.1.3", "dst": rng.choice(["10.0.1.2", "10.0.1.2", "10.0.1.255", "10.0.1.9", "255.255.255.255"]),
                "ttl": rng.choice([1, 2, 64, 64]), "smac": str(s.network_interface[1].mac_address)}
        if pr != "icmp":
            spec["sport"], spec["dport"] = rng.choice(PORTS), rng.choice(PORTS + [53])
        y = rng.random()
        spec["dmac"] = str(nic.mac_address) if y < 0.6 else BCAST if y < 0.9 else "aa:00:00:00:77:77"
        got["v"] = False
        nic.receive_frame(make_frame(spec))
        out.append(1 if got["v"] else 0)
        specs.append(spec)
    inj = zl([Raw("(0, %s)" % coq_frame(sp)) for sp in specs])
    return "(CHost %s %s)" % (state, inj), out, specs


def switch_case(rng, n):
    from primaite.simulator.sim_container import Simulation
    from primaite.simulator.network.hardware.nodes.network.switch import Switch
    from primaite.simulator.network.hardware.nodes.host.computer import Computer
    sim = Simulation()
    sw = Switch.from_config(config={"type": "switch", "hostname": "sw", "num_ports": 4, "start_up_duration": 0})
    sim.network.add_node(sw)
    sw.power_on()
    for k in (1, 2, 3, 4):
        s = Computer.from_config(config={"type": "computer", "hostname": "stub%d" % k, "ip_address": "10.0.1.%d" % (k + 1), "subnet_mask": "255.255.255.0", "start_up_duration": 0})
        sim.network.add_node(s)
        s.power_on()
        sim.network.connect(sw.network_interface[k], s.network_interface[1])
        object.__setattr__(s.network_interface[1], "receive_frame", lambda frame: True)
    for k in (1, 2, 3, 4):
        if rng.random() < 0.2:
            sw.network_interface[k].disable()
    ups = [sw.network_interface[k].enabled for k in (1, 2, 3, 4)]
    outs = []
    for k in (1, 2, 3, 4):
        nic = sw.network_interface[k]

        def send(frame, _o=nic.send_frame, _k=k):
            ok = _o(frame)
            if ok:
                outs.append(_k - 1)
            return ok
        object.__setattr__(nic, "send_frame", send)
    macs = ["aa:00:00:00:01:%02x" % i for i in range(1, 5)]
    specs, out = [], []
    for _ in range(n):
        spec = {"port": rng.choice([1, 2, 3, 4]), "protocol": "icmp", "src": "10.0.1.2", "dst": "10.0.1.3", "ttl": rng.choice([1, 2, 64, 64, 64]),
                "smac": rng.choice(macs), "dmac": rng.choice(macs + [BCAST])}
        del outs[:]
        sw.network_interface[spec["port"]].receive_frame(make_frame(spec))
        out += [len(outs)] + list(outs)
        specs.append(spec)
    state = "{| s_up := %s; s_table := [] |}" % zl([Raw("true" if u else "false") for u in ups])
    inj = zl([Raw("(%d, %s)" % (sp["port"] - 1, coq_frame(sp))) for sp in specs])
    return "(CSwitch %s %s)" % (state, inj), out, specs
