"""Generated scenario families (DESIGN.md Appendix B): seed -> config dict.

F1 switched LAN, F2 routed two-subnet (1-2 routers, static routes), F3 firewall with DMZ.  Each member has a software mix,
users, folders/files, power options (durations incl. 0, a node declared OFF), tight and fat links, a proxy agent whose
action map holds every registered action type aimed at existing and missing components, scripted green/red agents and a
reward-sharing graph."""
import copy, random
from lib import world

SERVICES = ["web-server", "database-service", "dns-server", "ftp-server", "ntp-server"]
APPS = ["web-browser", "database-client", "data-manipulation-bot", "dos-bot", "ransomware-script"]


def _host(name, ip, gw, rng, typ=None, **kw):
    d = {"hostname": name, "type": typ or rng.choice(["computer", "server"]), "ip_address": ip, "subnet_mask": "255.255.255.0"}
    if gw:
        d["default_gateway"] = gw
    d.update(kw)
    return d


def _software(rng, h, db_ip, web_ip):
    svcs, apps = [], []
    for s in rng.sample(SERVICES, rng.randint(0, 2)):
        svcs.append({"type": s})
    for a in rng.sample(APPS, rng.randint(0, 3)):
        e = {"type": a}
        if a == "database-client":
            e["options"] = {"db_server_ip": db_ip}
        elif a == "web-browser":
            # the /users/ page makes the web server query the database (200 / 404 / 500), the root page is static
            e["options"] = {"target_url": "http://%s/%s" % (web_ip, rng.choice(["", "users/", "users/"]))}
        elif a == "data-manipulation-bot":
            e["options"] = {"server_ip": db_ip, "port_scan_p_of_success": 1.0, "data_manipulation_p_of_success": 1.0,
                            "payload": "DELETE"}
        elif a == "dos-bot":
            e["options"] = {"target_ip_address": db_ip, "target_port": "POSTGRES_SERVER"}
        elif a == "ransomware-script":
            e["options"] = {"server_ip": db_ip}
        apps.append(e)
    if svcs:
        h["services"] = svcs
    if apps:
        h["applications"] = apps


def base(seed, force_off=False):
    rng = random.Random(seed * 7919 + 13)
    fam = ("F1", "F2", "F3")[seed % 3]
    nodes, links, hosts = [], [], []
    dur = lambda: rng.choice([0, 1, 2, 3])

    def add_host(name, ip, gw, sw, swport, **kw):
        h = _host(name, ip, gw, rng, **kw)
        if rng.random() < 0.7:
            h["start_up_duration"], h["shut_down_duration"] = dur(), dur()
        if rng.random() < 0.6:
            h["users"] = [{"username": "u_%s" % name, "password": "pw_%s" % name, "is_admin": rng.random() < 0.4}]
        if rng.random() < 0.7:
            h["folders"] = [{"folder_name": "docs", "files": [{"file_name": "a.txt"}] + ([{"file_name": "b.pdf"}] if rng.random() < 0.5 else [])}]
        nodes.append(h)
        hosts.append(h)
        l = {"endpoint_a_hostname": sw, "endpoint_a_port": swport, "endpoint_b_hostname": name, "endpoint_b_port": 1}
        if rng.random() < 0.3:
            l["bandwidth"] = rng.choice([1, 10, 100, 1000])
        links.append(l)
        return h

    if fam == "F1":
        n = rng.randint(2, 5)
        nodes.append({"hostname": "sw1", "type": "switch", "num_ports": 8})
        for i in range(n):
            add_host("h%d" % i, "192.168.1.%d" % (10 + i), None, "sw1", i + 1)
    elif fam == "F2":
        nodes.append({"hostname": "sw1", "type": "switch", "num_ports": 8})
        nodes.append({"hostname": "sw2", "type": "switch", "num_ports": 8})
        acl = {18: {"action": "PERMIT", "protocol": "TCP"}, 19: {"action": "PERMIT", "protocol": "UDP"},
               22: {"action": "PERMIT", "src_port": "ARP", "dst_port": "ARP"}, 23: {"action": "PERMIT", "protocol": "ICMP"}}
        if rng.random() < 0.5:
            acl[2] = {"action": "DENY", "protocol": "TCP", "src_ip": "10.0.1.10", "dst_ip": "10.0.2.10", "dst_port": "HTTP"}
        two = rng.random() < 0.5
        r1 = {"hostname": "r1", "type": "router", "num_ports": 3,
              "ports": {1: {"ip_address": "10.0.1.1", "subnet_mask": "255.255.255.0"},
                        2: {"ip_address": "10.0.9.1" if two else "10.0.2.1", "subnet_mask": "255.255.255.0"}}, "acl": copy.deepcopy(acl)}
        if rng.random() < 0.5:
            r1["start_up_duration"], r1["shut_down_duration"] = dur(), dur()
        nodes.append(r1)
        links.append({"endpoint_a_hostname": "sw1", "endpoint_a_port": 8, "endpoint_b_hostname": "r1", "endpoint_b_port": 1})
        if two:
            r1["routes"] = [{"address": "10.0.2.0", "subnet_mask": "255.255.255.0", "next_hop_ip_address": "10.0.9.2", "metric": 0}]
            r2 = {"hostname": "r2", "type": "router", "num_ports": 3,
                  "ports": {1: {"ip_address": "10.0.9.2", "subnet_mask": "255.255.255.0"},
                            2: {"ip_address": "10.0.2.1", "subnet_mask": "255.255.255.0"}}, "acl": copy.deepcopy(acl),
                  "default_route": {"next_hop_ip_address": "10.0.9.1"}}
            nodes.append(r2)
            links.append({"endpoint_a_hostname": "r1", "endpoint_a_port": 2, "endpoint_b_hostname": "r2", "endpoint_b_port": 1})
            links.append({"endpoint_a_hostname": "sw2", "endpoint_a_port": 8, "endpoint_b_hostname": "r2", "endpoint_b_port": 2})
        else:
            links.append({"endpoint_a_hostname": "sw2", "endpoint_a_port": 8, "endpoint_b_hostname": "r1", "endpoint_b_port": 2})
        for i in range(rng.randint(1, 3)):
            add_host("h%d" % i, "10.0.1.%d" % (10 + i), "10.0.1.1", "sw1", i + 1)
        for i in range(rng.randint(1, 2)):
            add_host("s%d" % i, "10.0.2.%d" % (10 + i), "10.0.2.1", "sw2", i + 1, typ="server")
    else:
        nodes.append({"hostname": "sw1", "type": "switch", "num_ports": 8})
        std = {22: {"action": "PERMIT", "src_port": "ARP", "dst_port": "ARP"}, 23: {"action": "PERMIT", "protocol": "ICMP"}}
        fwacl = {}
        for z in ("internal", "dmz", "external"):
            for di in ("inbound", "outbound"):
                a = copy.deepcopy(std)
                if rng.random() < 0.7:
                    a[20] = {"action": "PERMIT", "protocol": "TCP"}
                if rng.random() < 0.3:
                    a[1] = {"action": "DENY", "protocol": "TCP", "dst_port": "HTTP"}
                fwacl["%s_%s_acl" % (z, di)] = a
        fw = {"hostname": "fw", "type": "firewall",
              "ports": {"external_port": {"ip_address": "10.0.3.1", "subnet_mask": "255.255.255.0"},
                        "internal_port": {"ip_address": "10.0.1.1", "subnet_mask": "255.255.255.0"},
                        "dmz_port": {"ip_address": "10.0.2.1", "subnet_mask": "255.255.255.0"}}, "acl": fwacl}
        if rng.random() < 0.5:
            fw["start_up_duration"], fw["shut_down_duration"] = dur(), dur()
        nodes.append(fw)
        links.append({"endpoint_a_hostname": "sw1", "endpoint_a_port": 8, "endpoint_b_hostname": "fw", "endpoint_b_port": 2})
        for i in range(rng.randint(1, 3)):
            add_host("h%d" % i, "10.0.1.%d" % (10 + i), "10.0.1.1", "sw1", i + 1)
        d = _host("dmz0", "10.0.2.10", "10.0.2.1", rng, typ="server")
        nodes.append(d); hosts.append(d)
        links.append({"endpoint_a_hostname": "fw", "endpoint_a_port": 3, "endpoint_b_hostname": "dmz0", "endpoint_b_port": 1})
        e = _host("ext0", "10.0.3.10", "10.0.3.1", rng, typ="computer")
        nodes.append(e); hosts.append(e)
        links.append({"endpoint_a_hostname": "fw", "endpoint_a_port": 1, "endpoint_b_hostname": "ext0", "endpoint_b_port": 1})
    # software: one database + web server somewhere, clients elsewhere
    srv = hosts[-1]
    db_ip = web_ip = srv["ip_address"]
    srv.setdefault("services", [])
    srv["services"] = [{"type": "database-service"}, {"type": "web-server"}]
    if rng.random() < 0.6:       # the web server reaches the database through a client on its own host (absent: it answers 500)
        srv["applications"] = [{"type": "database-client", "options": {"db_server_ip": db_ip}}]
    for h in hosts[:-1]:
        _software(rng, h, db_ip, web_ip)
    # software every host installs by itself, declared again by the scenario (with its own options): drawn from a generator of
    # its own so that the rest of the family stays what it was
    rng2 = random.Random(seed * 104729 + 7)
    for h in hosts:
        if rng2.random() < 0.35:
            svcs = h.setdefault("services", [])
            if rng2.random() < 0.6 and not any(x.get("type") == "dns-client" for x in svcs):
                svcs.append({"type": "dns-client", "options": {"dns_server": web_ip}})
            if rng2.random() < 0.6 and not any(x.get("type") == "ntp-client" for x in svcs):
                svcs.append({"type": "ntp-client", "options": {"ntp_server_ip": db_ip}})
    if len(hosts) > 2 and (rng.random() < 0.4 or force_off):
        hosts[1]["operating_state"] = "OFF"
    elif force_off:
        hosts[0]["operating_state"] = "OFF"
    cfg = {"io_settings": dict(world.IO_OFF),
           "game": {"max_episode_length": rng.choice([6, 9, 16]), "ports": ["ARP", "DNS", "HTTP", "POSTGRES_SERVER", "SSH", "FTP"],
                    "protocols": ["ICMP", "TCP", "UDP"], "seed": seed % 1000 + 1},
           "agents": [], "simulation": {"network": {"nodes": nodes, "links": links}}}
    if rng.random() < 0.4:
        cfg["game"]["thresholds"] = {"nmne": {"high": 6, "medium": 3, "low": 0}}
    if rng.random() < 0.5:
        cfg["simulation"]["network"]["nmne_config"] = {"capture_nmne": True, "nmne_capture_keywords": ["DELETE"]}
    return cfg, rng, fam, hosts


def observation(cfg, rng, hosts):
    nodes = cfg["simulation"]["network"]["nodes"]
    hs = []
    for h in hosts:
        e = {"hostname": h["hostname"]}
        if h.get("services") and rng.random() < 0.8:
            e["services"] = [{"service_name": s["type"]} for s in h["services"]]
        if h.get("applications") and rng.random() < 0.8:
            e["applications"] = [{"application_name": a["type"]} for a in h["applications"]]
        if h.get("folders") and rng.random() < 0.8:
            e["folders"] = [{"folder_name": f["folder_name"], "files": [{"file_name": x["file_name"]} for x in f["files"]]} for f in h["folders"]]
        if rng.random() < 0.3:          # explicit interface list, shorter or longer than num_nics
            e["network_interfaces"] = [{"nic_num": k + 1} for k in range(rng.randint(0, 3))]
        hs.append(e)
    if rng.random() < 0.5:
        hs.append({"hostname": "ghost_host"})
    opts = {"hosts": hs, "num_services": rng.randint(1, 3), "num_applications": rng.randint(0, 3), "num_folders": rng.randint(1, 2),
            "num_files": rng.randint(1, 2), "num_nics": rng.randint(1, 2), "include_nmne": rng.random() < 0.5,
            "include_num_access": rng.random() < 0.6, "num_ports": rng.randint(0, 4),
            "ip_list": [h["ip_address"] for h in hosts[:2]], "wildcard_list": ["0.0.0.255"], "port_list": [22, 80, 5432],
            "protocol_list": ["tcp", "icmp", "udp"], "num_rules": rng.randint(3, 24),
            "file_system_requires_scan": rng.random() < 0.5, "services_requires_scan": rng.random() < 0.5,
            "applications_requires_scan": rng.random() < 0.5, "include_users": rng.random() < 0.7}
    if rng.random() < 0.5:
        opts["monitored_traffic"] = {"icmp": ["NONE"], "tcp": ["HTTP", "POSTGRES_SERVER"]}
    rs = [n for n in nodes if n["type"] == "router"]
    fs = [n for n in nodes if n["type"] == "firewall"]
    if rs:
        opts["routers"] = [{"hostname": r["hostname"]} for r in rs]
        for e in opts["routers"]:
            if rng.random() < 0.6:       # explicit port list, shorter or longer than num_ports
                e["ports"] = [{"port_id": k + 1} for k in range(rng.randint(0, 5))]
    if fs:
        opts["firewalls"] = [{"hostname": f["hostname"], "ip_list": opts["ip_list"], "wildcard_list": ["0.0.0.255"],
                              "port_list": [22, 80], "protocol_list": ["tcp", "icmp"], "num_rules": rng.randint(2, 8)} for f in fs]
    lrefs = []
    for l in cfg["simulation"]["network"]["links"]:
        lrefs.append("%s:eth-%d<->%s:eth-%d" % (l["endpoint_a_hostname"], l["endpoint_a_port"], l["endpoint_b_hostname"], l["endpoint_b_port"]))
    comps = [{"type": "nodes", "label": "NODES", "options": opts},
             {"type": "links", "label": "LINKS", "options": {"link_references": lrefs}}]
    return {"type": "custom", "options": {"components": comps}}


def generate(seed, max_actions=120, force_off=False):
    cfg, rng, fam, hosts = base(seed, force_off)
    srv = hosts[-1]
    agents = []
    # scripted agents
    bots = [h for h in hosts if any(a["type"] == "data-manipulation-bot" for a in h.get("applications", []))]
    if bots:
        agents.append({"ref": "red", "team": "RED", "type": "red-database-corrupting-agent",
                       "action_space": {"action_map": {0: {"action": "do-nothing", "options": {}},
                                                       1: {"action": "node-application-execute", "options": {"node_name": bots[0]["hostname"], "application_name": "data-manipulation-bot"}}}},
                       "agent_settings": {"possible_start_nodes": [b["hostname"] for b in bots], "target_application": "data-manipulation-bot",
                                          "start_step": rng.randint(1, 4), "frequency": rng.randint(2, 4), "variance": rng.randint(0, 1),
                                          "start_variance": rng.randint(0, 1)},
                       "reward_function": {"reward_components": [{"type": "dummy"}]}})
    greens = []
    for h in hosts[:-1]:
        apps = [a["type"] for a in h.get("applications", []) if a["type"] in ("web-browser", "database-client")]
        if apps and len(greens) < 2:
            am = {0: {"action": "do-nothing", "options": {}}}
            for i, a in enumerate(apps):
                am[i + 1] = {"action": "node-application-execute", "options": {"node_name": h["hostname"], "application_name": a}}
            ps = {0: 0.4}
            rest = 0.6
            for i in range(len(apps)):
                ps[i + 1] = rest / len(apps)
            if rng.random() < 0.5:      # key order of the mapping must not matter
                ps = dict(reversed(list(ps.items())))
            ref = "green_%s" % h["hostname"]
            agents.append({"ref": ref, "team": "GREEN", "type": "probabilistic-agent", "agent_settings": {"action_probabilities": ps},
                           "action_space": {"action_map": am},
                           "reward_function": {"reward_components": [
                               {"type": "webpage-unavailable-penalty", "weight": 0.25, "options": {"node_hostname": h["hostname"], "sticky": rng.random() < 0.5}},
                               {"type": "green-admin-database-unreachable-penalty", "weight": 0.5, "options": {"node_hostname": h["hostname"], "sticky": rng.random() < 0.5}}]}})
            greens.append(ref)
    rcs = [{"type": "database-file-integrity", "weight": 0.5,
            "options": {"node_hostname": srv["hostname"], "folder_name": "database", "file_name": "database.db"}},
           {"type": "web-server-404-penalty", "weight": 0.25, "options": {"node_hostname": srv["hostname"], "service_name": "web-server", "sticky": rng.random() < 0.5}},
           {"type": "action-penalty", "weight": 1.0, "options": {"action_penalty": -0.125, "do_nothing_penalty": 0.0}}]
    for g in greens:
        rcs.append({"type": "shared-reward", "weight": 1.0, "options": {"agent_name": g}})
    blue = {"ref": "blue", "team": "BLUE", "type": "proxy-agent", "observation_space": observation(cfg, rng, hosts),
            "action_space": {"action_map": {0: {"action": "do-nothing", "options": {}}}},
            "reward_function": {"reward_components": rcs},
            "agent_settings": {"flatten_obs": rng.random() < 0.5, "action_masking": True}}
    # declaration order must not matter for shared rewards: blue first or last
    cfg["agents"] = ([blue] + agents) if rng.random() < 0.5 else (agents + [blue])
    # action map: the whole registered action space over existing and missing components
    game = world.make_game(cfg)
    inv = world.inventory(game.simulation)
    cat = world.catalogue(inv, rng, missing=True)
    must = [c for c in cat if c[0] in ("node-shutdown", "node-startup", "node-reset", "node-file-delete", "node-file-create",
                                       "node-service-stop", "router-acl-add-rule", "node-application-remove", "node-application-install")]
    rest = [c for c in cat if c not in must and c[0] != "do-nothing"]
    rng.shuffle(must); rng.shuffle(rest)
    chosen = must[:max_actions // 2] + rest[:max_actions - min(len(must), max_actions // 2)]
    am = {0: {"action": "do-nothing", "options": {}}}
    for i, (t, o, _ex) in enumerate(chosen):
        am[i + 1] = {"action": t, "options": o}
    blue["action_space"]["action_map"] = am
    cfg["_meta"] = {"family": fam, "seed": seed}
    cfg.pop("_meta")
    return cfg
