"""C16 -- logins need valid credentials; remote commands need a live session."""
import json, uuid
from lib.common import coq_props, coq_cases, zl, Raw
from lib import gen_tie


def un(i):
    return "admin" if i == 0 else "user%d" % i


def pw(i):
    return "admin" if i == 0 else "pw%d" % i


class Bench:
    _n = 0

    def __init__(self, maxrem, tmo_l, tmo_r):
        from primaite.simulator.network.hardware.nodes.host.computer import Computer
        from primaite.simulator.network.hardware.nodes.host.server import Server
        from primaite.simulator.sim_container import Simulation
        Bench._n += 1
        self.sim = Simulation()
        self.cname, self.sname = "cli%d" % Bench._n, "srv%d" % Bench._n
        self.client = Computer.from_config(config={"type": "computer", "hostname": self.cname, "ip_address": "192.168.1.2", "subnet_mask": "255.255.255.0",
                                                   "start_up_duration": 0, "shut_down_duration": 0})
        self.server = Server.from_config(config={"type": "server", "hostname": self.sname, "ip_address": "192.168.1.3", "subnet_mask": "255.255.255.0",
                                                 "start_up_duration": 0, "shut_down_duration": 0})
        self.sim.network.add_node(self.client)
        self.sim.network.add_node(self.server)
        self.sim.network.connect(self.client.network_interface[1], self.server.network_interface[1])
        self.ip = "192.168.1.3"
        self.usm = self.server.user_session_manager
        self.um = self.server.user_manager
        self.usm.max_remote_sessions, self.usm.local_session_timeout_steps, self.usm.remote_session_timeout_steps = maxrem, tmo_l, tmo_r
        self.ord = {}          # session uuid -> ordinal of creation
        self.handles = {}      # ordinal -> client-side connection handle
        self.ncmd = 0
        self.t = 0

    def note_sessions(self):
        cur = ([self.usm.local_session.uuid] if self.usm.local_session else []) + list(self.usm.remote_sessions.keys())
        for u in cur:
            if u not in self.ord:
                self.ord[u] = len(self.ord)

    def sreq(self, tail):
        return self.sim.apply_request(["network", "node", self.sname] + tail)

    def apply(self, op):
        k = op[0]
        if k == "AddUser":
            return self.sreq(["service", "user-manager", "add_user", un(op[1]), pw(op[2]), op[3]]).status == "success"
        if k == "DisableUser":
            return self.sreq(["service", "user-manager", "disable_user", un(op[1])]).status == "success"
        if k == "ChangePw":
            return self.sreq(["service", "user-manager", "change_password", un(op[1]), pw(op[2]), pw(op[3])]).status == "success"
        if k == "LocalLogin":
            r = self.usm.local_login(un(op[1]), pw(op[2]))
            self.note_sessions()
            return r is not None
        if k == "RemoteLogin":
            h = self.client.terminal._send_remote_login(username=un(op[1]), password=pw(op[2]), ip_address=self.ip)
            before = set(self.ord)
            self.note_sessions()
            new = [u for u in self.ord if u not in before]
            if h is not None and new:
                self.handles[self.ord[new[0]]] = h
            return bool(new)
        if k == "RemoteLoginDirect":      # the user-session-manager's own request: a session with no terminal connection
            r = self.sreq(["service", "user-session-manager", "remote_login", un(op[1]), pw(op[2]), "192.168.1.2"])
            self.note_sessions()
            return r.status == "success"
        if k == "LocalLogout":
            return bool(self.usm.local_logout())
        if k == "RemoteLogout":
            u = next((x for x, o in self.ord.items() if o == op[1]), str(uuid.uuid4()))
            return bool(self.usm.remote_logout(u))
        if k == "Command":
            from primaite.simulator.system.services.terminal.terminal import RemoteTerminalConnection
            h = self.handles.get(op[1])
            if h is None:
                any_h = next(iter(self.handles.values()), None)
                if any_h is None:
                    return False
                u = next((x for x, o in self.ord.items() if o == op[1]), str(uuid.uuid4()))
                h = RemoteTerminalConnection(parent_terminal=self.client.terminal, ssh_session_id=any_h.ssh_session_id, connection_uuid=u,
                                             ip_address=self.ip, connection_request_id=str(uuid.uuid4()))
            h.is_active = True          # a stale / forged identifier: the client-side bookkeeping is bypassed on purpose
            self.ncmd += 1
            folder = "cmd%d" % self.ncmd
            h.execute(["file_system", "create", "folder", folder])
            return self.server.file_system.get_folder(folder) is not None
        if k == "Tick":
            self.t = op[1]
            for n in (self.client, self.server):
                n.pre_timestep(self.t)
            for n in (self.client, self.server):
                n.apply_timestep(self.t)
            return True
        if k == "PowerOff":
            self.sreq(["shutdown"])
            return True
        if k == "PowerOn":
            self.sreq(["startup"])
            return True
        raise ValueError(k)

    def uid(self, name):
        return 0 if name == "admin" else int(name[4:])

    def pid(self, p):
        return 0 if p == "admin" else int(p[2:])

    def observe(self):
        o = []
        for u in self.um.users.values():
            o += [self.uid(u.username), self.pid(u.password), 1 if u.is_admin else 0, 1 if u.disabled else 0]
        o += [-1, self.uid(self.usm.local_session.user.username) if self.usm.local_session else -1, -2]
        for sid_, s in self.usm.remote_sessions.items():
            o += [self.ord.get(sid_, 99), self.uid(s.user.username)]
        return o


def gen_ops(rng, n):
    ops, t, nsess = [], 0, 0
    for _ in range(n):
        x = rng.random()
        u, p = rng.choice([0, 0, 1, 2]), rng.choice([0, 1, 1, 2, 3])
        if rng.random() < 0.6:
            p = {0: 0, 1: 1, 2: 2}[u]            # mostly the initial password of that user
        if x < 0.10:
            ops.append(("AddUser", rng.choice([1, 2, 3]), rng.choice([1, 2, 3]) if rng.random() < 0.3 else None, rng.random() < 0.4))
            ops[-1] = ("AddUser", ops[-1][1], ops[-1][2] if ops[-1][2] is not None else ops[-1][1], ops[-1][3])
        elif x < 0.17:
            ops.append(("DisableUser", u))
        elif x < 0.25:
            ops.append(("ChangePw", u, p, rng.choice([1, 2, 3, 4])))
        elif x < 0.33:
            ops.append(("LocalLogin", u, p))
        elif x < 0.49:
            ops.append(("RemoteLogin", u, p)); nsess += 1
        elif x < 0.52:
            ops.append(("RemoteLoginDirect", u, p)); nsess += 1
        elif x < 0.56:
            ops.append(("LocalLogout",))
        elif x < 0.63:
            ops.append(("RemoteLogout", rng.randrange(max(nsess, 1) + 1)))
        elif x < 0.80:
            ops.append(("Command", rng.randrange(max(nsess, 1) + 1)))
        elif x < 0.94:
            t += rng.choice([1, 1, 1, 2, 3, 5])
            ops.append(("Tick", t))
        elif x < 0.97:
            ops.append(("PowerOff",))
        else:
            ops.append(("PowerOn",))
    return ops


def coq_op(op):
    k = op[0]
    if k == "AddUser":
        return Raw("AddUser %d %d %s" % (op[1], op[2], "true" if op[3] else "false"))
    if k in ("LocalLogout", "PowerOff", "PowerOn"):
        return Raw(k)
    return Raw("%s %s" % (k, " ".join(str(a) for a in op[1:])))


def run_seq(ck, maxrem, tl, tr, ops, coq_in):
    b = Bench(maxrem, tl, tr)
    out = []
    ctx = {"max_remote_sessions": maxrem, "local_timeout": tl, "remote_timeout": tr, "ops": [list(o) for o in ops]}
    live = {}            # shadow of the property: ordinal -> (user, last_active)
    for i, op in enumerate(ops):
        try:
            ok = b.apply(op)
        except Exception as e:
            ck.violation("session-op-raises:%s:%s" % (op[0], type(e).__name__), "%s raised %r" % (op, e), dict(ctx, at=i))
            return
        b.note_sessions()
        obs = b.observe()
        # ---- direct checks of the property ----
        users = {u.username: u for u in b.um.users.values()}
        if op[0] == "Tick":
            for sid_, s_ in b.usm.remote_sessions.items():
                if s_.last_active_step + tr <= op[1]:
                    ck.violation("session-survived-timeout", "remote session %s idle since step %d is still live at step %d (time-out %d)"
                                 % (b.ord.get(sid_), s_.last_active_step, op[1], tr), dict(ctx, at=i))
            if b.usm.local_session and b.usm.local_session.last_active_step + tl <= op[1]:
                ck.violation("session-survived-timeout", "local session idle since step %d is still live at step %d (time-out %d)"
                             % (b.usm.local_session.last_active_step, op[1], tl), dict(ctx, at=i))
        if op[0] == "ChangePw" and ok:
            left = [b.ord.get(x) for x, s_ in b.usm.remote_sessions.items() if s_.user.username == un(op[1])]
            if left or (b.usm.local_session and b.usm.local_session.user.username == un(op[1])):
                ck.violation("session-survived-password-change", "sessions %s of %s survive its password change" % (left, un(op[1])), dict(ctx, at=i))
        if op[0] in ("LocalLogin", "RemoteLogin", "RemoteLoginDirect") and ok:
            u = users.get(un(op[1]))
            if u is None or u.password != pw(op[2]) or u.disabled or b.server.operating_state.name != "ON":
                ck.violation("login-without-valid-credentials", "%s succeeded although the account/password/node state does not allow it" % (op,), dict(ctx, at=i))
        if len(b.usm.remote_sessions) > maxrem:
            ck.violation("remote-session-limit-exceeded", "%d remote sessions > max %d" % (len(b.usm.remote_sessions), maxrem), dict(ctx, at=i))
        if not any(u.is_admin and not u.disabled for u in users.values()):
            ck.violation("no-enabled-admin-left", "after %s no enabled administrator account is left" % (op,), dict(ctx, at=i))
        if op[0] == "Command" and ok:
            u_ = next((x for x, o in b.ord.items() if o == op[1]), None)
            if u_ is None or u_ not in b.usm.remote_sessions:
                ck.violation("command-on-dead-session", "a remote command ran on the target through session %s which is not live" % op[1], dict(ctx, at=i))
        out += [1 if ok else 0] + obs + [-9]
    ck.case(canon=(maxrem, tl, tr, json.dumps(ops)), nontrivial=any(o[0] == "Command" for o in ops) and any(o[0] == "RemoteLogin" for o in ops),
            sample={"max_remote": maxrem, "timeouts": [tl, tr], "ops": [list(o) for o in ops[:10]], "trace_tail": out[-10:]})
    for o in ops:
        ck.count("op:" + o[0])
    coq_in.append(("(%d, %d, %d, %s)" % (maxrem, tl, tr, zl([coq_op(o) for o in ops])), out))


def directed(ck, coq_in):
    """the sequences the property names: stale session after time-out, password change, logout; the limit boundary."""
    seqs = [
        (3, 30, 4, [("RemoteLogin", 0, 0), ("Command", 0), ("Tick", 1), ("Tick", 2), ("Tick", 3), ("Command", 0), ("Tick", 7), ("Command", 0), ("Tick", 8), ("Command", 0)]),
        (3, 30, 3, [("RemoteLogin", 0, 0), ("RemoteLogin", 0, 0), ("Tick", 1), ("Tick", 2), ("Tick", 3), ("Command", 0), ("Command", 1)]),
        (3, 30, 30, [("RemoteLogin", 0, 0), ("RemoteLogin", 0, 0), ("LocalLogin", 0, 0), ("ChangePw", 0, 0, 4), ("Command", 0), ("Command", 1), ("RemoteLogin", 0, 0), ("RemoteLogin", 0, 4), ("Command", 3)]),
        (2, 30, 30, [("RemoteLogin", 0, 0), ("RemoteLogin", 0, 0), ("RemoteLogin", 0, 0), ("RemoteLogout", 0), ("RemoteLogin", 0, 0), ("Command", 0), ("Command", 2)]),
        (3, 30, 30, [("AddUser", 1, 1, True), ("DisableUser", 0), ("DisableUser", 1), ("RemoteLogin", 0, 0), ("RemoteLogin", 1, 1), ("LocalLogin", 0, 0), ("LocalLogin", 0, 3)]),
        (3, 30, 2, [("RemoteLoginDirect", 0, 0), ("Tick", 1), ("Tick", 2), ("Tick", 3), ("Command", 0)]),
        (3, 3, 30, [("LocalLogin", 0, 0), ("Tick", 1), ("Tick", 2), ("Tick", 3), ("LocalLogin", 0, 9), ("LocalLogin", 0, 0)]),
        (3, 30, 30, [("RemoteLogin", 0, 0), ("PowerOff",), ("Command", 0), ("RemoteLogin", 0, 0), ("PowerOn",), ("Command", 0), ("RemoteLogin", 0, 0), ("Command", 1)]),
    ]
    for (m, tl, tr, ops) in seqs:
        run_seq(ck, m, tl, tr, ops, coq_in)


def request_battery(ck):
    """the request path of the terminal (what agent actions use), checked directly: a login request is answered success only
    when the server opened a session for these credentials -- also when the client already holds a connection to that server --
    and a node executes remote commands only for sessions IT granted (a server cannot command the client that logged in to it)."""
    for maxrem in (1, 3):
        b = Bench(maxrem, 30, 30)
        b.sreq(["service", "user-manager", "add_user", "user1", "pw1", False])
        cip, sip = "192.168.1.2", "192.168.1.3"

        def creq(tail):
            return b.sim.apply_request(["network", "node", b.cname] + tail)
        ctx = {"max_remote_sessions": maxrem, "history": []}
        steps = [("admin", "admin", True), ("admin", "WRONG", False), ("nobody", "x", False), ("user1", "pw1", True), ("user1", "pw0", False), ("admin", "admin", True)]
        for (u, p_, valid) in steps:
            before = len(b.usm.remote_sessions)
            r = creq(["service", "terminal", "node_session_remote_login", u, p_, sip])
            after = len(b.usm.remote_sessions)
            ctx["history"].append([u, p_, r.status, after])
            ck.evaluations += 1
            ck.case(canon=("login-request", maxrem, u, p_, before), nontrivial=before > 0)
            expect_ok = valid and before < maxrem
            if (r.status == "success") != (after == before + 1):
                ck.violation("login-request-answer-disagrees-with-server", "login request %s/%s while the client holds %d session(s) was answered %r but the server's live remote "
                             "sessions went %d -> %d" % (u, p_, before, r.status, before, after), dict(ctx))
                break
            if r.status == "success" and not expect_ok:
                ck.violation("login-without-valid-credentials", "login request %s/%s was answered success (valid credentials: %s, sessions before: %d of %d)"
                             % (u, p_, valid, before, maxrem), dict(ctx))
                break
        # a command through a held connection whose target no longer answers (server powered off): still one of the four answers
        from primaite.interface.request import RequestResponse
        b.sreq(["shutdown"])
        try:
            r0 = creq(["service", "terminal", "send_remote_command", sip, {"command": ["file_system", "create", "folder", "late"]}])
        except Exception as e:
            r0 = e
        ck.evaluations += 1
        ck.case(canon=("command-to-silent-target", maxrem), nontrivial=True)
        if not isinstance(r0, RequestResponse) or r0.status not in ("success", "failure", "unreachable", "pending") or r0.status == "success":
            ck.violation("remote-command-to-silent-target-not-answered-properly", "send_remote_command through a held connection to a server that was powered off was answered %r"
                         % (r0,), dict(ctx))
        b.sreq(["startup"])
        # reverse direction: the server, which granted the session, tries to command the client, which granted none
        r = b.sreq(["service", "terminal", "send_remote_command", cip, {"command": ["file_system", "create", "folder", "reverse"]}])
        ck.evaluations += 1
        ck.case(canon=("reverse-command", maxrem), nontrivial=True)
        if b.client.file_system.get_folder("reverse") is not None or len(b.client.user_session_manager.remote_sessions):
            ck.violation("command-without-session-on-target", "the server sent a remote command to the client that had logged in to it: the client executed it although it "
                         "never granted a session (answer %r)" % (r.status,), dict(ctx, answer=r.status))
        r2 = b.sreq(["service", "terminal", "send_remote_command", cip, {"command": ["service", "user-manager", "add_user", "mallory", "m", True]}])
        if "mallory" in b.client.user_manager.users:
            ck.violation("command-without-session-on-target", "the server created an administrator account on the client through a session the client never granted", dict(ctx))


def run(ck):
    ck.rule = ("sequences of add-user, disable-user, change-password, local/remote login (right and wrong credentials), remote command through live, "
               "stale and forged connection identifiers (client-side bookkeeping bypassed), logoff, ticks up to and past the time-outs and server power "
               "events, on a client and a server joined by a link; after every op (accounts, local session, ordered remote sessions) is compared with "
               "the model and the property is checked directly (credentials, session limit, an enabled admin remains, commands only on live sessions); "
               "whether a command ran is observed as a folder created on the server; non-trivial = has both a remote login and a command")
    coq_props(ck)
    gen_tie.check(ck, ["session", "sessiongate"])
    coq_in = []
    directed(ck, coq_in)
    request_battery(ck)
    rng = ck.rng
    for k in range(ck.n(140, 900)):
        run_seq(ck, rng.choice([1, 2, 3]), rng.choice([2, 3, 30]), rng.choice([2, 3, 4, 30]), gen_ops(rng, rng.randint(8, 28)), coq_in)
    ck.traces += len(coq_in)
    try:
        mism = coq_cases(ck, "From PV Require Import Model.Session.", "run_case", coq_in, name="c16", chunk=60)
    except RuntimeError as e:
        ck.broken("correspondence Model.Session.run_case", str(e))
        return
    ck.obligation("correspondence UserManager/UserSessionManager/Terminal gate = Model.Session on %d op sequences" % len(coq_in), "correspondence", not mism,
                  "" if not mism else "first mismatch: case %d model=%s impl=%s input=%s" % (mism[0][0], mism[0][1][-50:], coq_in[mism[0][0]][1][-50:], coq_in[mism[0][0]][0][:500]))


def replay(ck, path):
    run(ck)
