"""C19 -- scripted green/red agents act only when and how their settings allow."""
import copy, json, random
from fractions import Fraction
from lib.common import coq_props, coq_cases, coq_compute, zl, Raw
from lib import world, family, gen_tie


# ---- (a) periodic agents -------------------------------------------------------------------------------------------
def periodic_cfg(kind, st, sv, f, v, mx, nodes, seed):
    hosts = [{"hostname": n, "type": "computer", "ip_address": "192.168.1.%d" % (10 + i), "subnet_mask": "255.255.255.0",
              "applications": [{"type": "data-manipulation-bot", "options": {"server_ip": "192.168.1.99"}}]} for i, n in enumerate(["pa", "pb", "pc"])]
    settings = {"possible_start_nodes": nodes, "target_application": "data-manipulation-bot", "start_step": st, "frequency": f, "variance": v, "start_variance": sv}
    if mx is not None:
        settings["max_executions"] = mx
    agent = {"ref": "red", "team": "RED", "type": kind,
             "action_space": {"action_map": {0: {"action": "do-nothing", "options": {}}}},
             "agent_settings": settings, "reward_function": {"reward_components": [{"type": "dummy"}]}}
    return {"io_settings": dict(world.IO_OFF), "game": {"max_episode_length": 256, "ports": ["HTTP"], "protocols": ["TCP"], "seed": seed},
            "agents": [agent], "simulation": {"network": {"nodes": hosts, "links": []}}}


def periodic_case(ck, kind, st, sv, f, v, mx, nodes, steps, coq_in):
    draws = []
    orig = random.randint

    def rec(a, b):
        x = orig(a, b)
        draws.append((a, b, x))
        return x
    random.seed(ck.rng.randrange(10 ** 6))
    random.randint = rec
    try:
        game = world.make_game(periodic_cfg(kind, st, sv, f, v, mx, nodes, 1))
        times, used_nodes, bad_actions = [], set(), []
        for t in range(steps):
            game.step()
            h = game.agents["red"].history[-1]
            if h.action != "do-nothing":
                times.append(t)
                if h.action != "node-application-execute" or h.parameters.get("application_name") != "data-manipulation-bot":
                    bad_actions.append((t, h.action, h.parameters))
                used_nodes.add(h.parameters.get("node_name"))
    finally:
        random.randint = orig
    ctx = {"agent": kind, "start_step": st, "start_variance": sv, "frequency": f, "variance": v, "max_executions": mx, "possible_start_nodes": nodes,
           "action_times": times}
    ck.case(canon=(kind, st, sv, f, v, mx, tuple(nodes), tuple(times)), nontrivial=len(times) >= 2,
            sample={"agent": kind, "settings": [st, sv, f, v, mx], "action_times": times[:8]})
    # ---- the property, directly ----
    if times:
        lo, hi = (st, st) if kind == "red-database-corrupting-agent" else (st - sv, st + sv)
        if not (lo <= times[0] <= hi):
            ck.violation("first-action-outside-start-window:%s" % kind, "first action at step %d, configured start %d +- %d" % (times[0], st, sv), ctx)
    elif st + sv < steps and (mx is None or mx > 0):
        ck.violation("agent-never-acted:%s" % kind, "no action in %d steps although start is %d +- %d" % (steps, st, sv), ctx)
    for a, b in zip(times, times[1:]):
        if not (f - v <= b - a <= f + v):
            ck.violation("gap-outside-frequency-window:%s" % kind, "consecutive actions at %d and %d: gap %d outside %d +- %d" % (a, b, b - a, f, v), ctx)
    if kind == "periodic-agent" and mx is not None and len(times) > mx:
        ck.violation("more-than-max-executions", "%d actions > max_executions %d" % (len(times), mx), ctx)
    if not used_nodes <= set(nodes):
        ck.violation("acted-from-unconfigured-node", "acted from %s, configured start nodes %s" % (sorted(used_nodes), nodes), ctx)
    if bad_actions:
        ck.violation("unconfigured-action", "agent used %s" % (bad_actions[:2],), ctx)
    for (a, b, x) in draws:
        if not (a <= x <= b):
            ck.violation("randint-contract", "randint(%d,%d) = %d" % (a, b, x), ctx)
    coq_in.append(("(%d, %d, %d, %d, %d, %s, %s, %d)" % (st, sv, f, v, 999999 if mx is None else mx, "true" if kind == "red-database-corrupting-agent" else "false",
                                                      zl([x for (_, _, x) in draws]), steps), times))


# ---- (b) probabilistic agent ---------------------------------------------------------------------------------------
def prob_case(ck, probs_map, draws, coq_exprs, expect):
    import numpy as np
    from primaite.game.agent.scripted_agents.probabilistic_agent import ProbabilisticAgent
    n = len(probs_map)
    am = {i: {"action": "do-nothing", "options": {}} if i == 0 else {"action": "node-os-scan", "options": {"node_name": "x%d" % i}} for i in range(n)}
    cfg = {"ref": "g", "team": "GREEN", "type": "probabilistic-agent", "agent_settings": {"action_probabilities": dict(probs_map)},
           "action_space": {"action_map": am}, "reward_function": {"reward_components": [{"type": "dummy"}]}}
    ag = ProbabilisticAgent(config=cfg)
    vec = [float(x) for x in ag.probabilities]
    want = [probs_map_v for _, probs_map_v in sorted(probs_map.items())]
    ctx = {"action_probabilities": [[k, v] for k, v in probs_map.items()]}
    ck.case(canon=json.dumps(ctx), nontrivial=list(probs_map) != sorted(probs_map), sample=dict(ctx, vector=vec) if len(ck.samples) < 5 else None)
    if vec != want:
        ck.violation("probability-vector-not-by-action-index", "probability vector %s, by action index it is %s" % (vec, want), ctx)
    chosen = {}
    for _ in range(draws):
        a, params = ag.get_action(None, 0)
        idx = 0 if a == "do-nothing" else int(params["node_name"][1:])
        chosen[idx] = chosen.get(idx, 0) + 1
    zero = [i for i, p in sorted(probs_map.items()) if p == 0.0 and chosen.get(i)]
    if zero:
        ck.violation("zero-probability-action-selected", "actions %s have probability 0 but were selected %s times" % (zero, [chosen[i] for i in zero]), dict(ctx, chosen=chosen))
    # model: probs = values sorted by key; choice = inverse CDF against numpy on the same uniform draws
    seed = ck.rng.randrange(10 ** 6)
    g1, g2 = np.random.default_rng(seed), np.random.default_rng(seed)
    p = np.asarray(want)
    for _ in range(6):
        idx = int(g1.choice(n, p=p))
        u = Fraction(float(g2.random()))
        ps = "[" + "; ".join("(%d # %d)" % (Fraction(x).numerator, Fraction(x).denominator) for x in want) + "]"
        coq_exprs.append("[Z.of_nat (choice %s (%d # %d))]" % (ps, u.numerator, u.denominator))
        expect.append([idx])
    kv = "[" + "; ".join("(%d, %d # %d)" % (k, Fraction(v).numerator, Fraction(v).denominator) for k, v in probs_map.items()) + "]"
    coq_exprs.append("map (fun q => Qnum (Qred (q * 1024))) (probs %s)" % kv)
    expect.append([int(Fraction(x) * 1024) for x in vec])


# ---- (c) threat-actor kill chains ----------------------------------------------------------------------------------
def undo_request(h):
    """the request with which a defender removes what the attacker's last action just put in place"""
    a, prm = h.action, h.parameters
    node = prm.get("node_name")
    if a == "node-application-install":
        return ["network", "node", node, "software_manager", "application", "uninstall", prm["application_name"]]
    if a == "node-file-create":
        return ["network", "node", node, "file_system", "delete", "file", prm["folder_name"], prm["file_name"]]
    if a == "node-folder-create":
        return ["network", "node", node, "file_system", "delete", "folder", prm["folder_name"]]
    return None


def tap_walk(ck, name, cfg, steps, coq_exprs, expect, hostile=0.0, idle=False, zero_stage=None):
    rng = ck.rng
    env = world.make_env(cfg)
    env.reset()
    n = env.action_space.n

    def hook(env):
        out = []
        for aname, ag in env.game.agents.items():
            if hasattr(ag, "current_kill_chain_stage"):
                out.append((aname, ag))
        return out
    taps = hook(env)
    if not taps:
        return
    logs = {a: [] for a, _ in taps}

    def instrument(taps):
        for aname, ag in taps:
            cls = type(ag)
            for meth, tag in (("_progress_kill_chain", "KProgress"), ("_tap_start", "KStart"), ("_tap_outcome_handler", "KOutcome"), ("_tap_return_handler", "KReturn")):
                orig = getattr(cls, meth)
                if getattr(orig, "_pv", False):
                    continue

                def w(self, *a, _o=orig, _tag=tag, **k):
                    before = (int(self.current_kill_chain_stage), int(self.next_kill_chain_stage))
                    status = None
                    if _tag == "KReturn":
                        # what the simulation answered to the agent's previous request, read here and not taken from the agent
                        ts = k.get("timestep", a[0] if a else None)
                        status = self.history[ts].response.status if ts < len(self.history) else "success"    # nothing requested yet
                    r = _o(self, *a, **k)
                    after = (int(self.current_kill_chain_stage), int(self.next_kill_chain_stage))
                    lg = getattr(self, "_pv_log", None)
                    if lg is not None:
                        lg.append((_tag, before, after, bool(self.config.agent_settings.repeat_kill_chain), bool(self.actions_concluded),
                                   status, bool(self.config.agent_settings.repeat_kill_chain_stages), r))
                    return r
                w._pv = True
                setattr(cls, meth, w)
    instrument(taps)
    for aname, ag in taps:
        object.__setattr__(ag, "_pv_log", logs[aname])
    prev = {a: (int(ag.current_kill_chain_stage), int(ag.next_kill_chain_stage)) for a, ag in taps}
    act_times = {a: [] for a, _ in taps}
    for st in range(steps):
        try:
            env.step(0 if idle else rng.randrange(n) if not hostile or rng.random() < 0.15 else 0)
        except Exception as e:
            ck.violation("scripted-agent-step-raises:%s" % type(e).__name__, "%s: env.step raised %r at step %d (threat-actor settings %s)"
                         % (name, e, st, {a: dict(start_step=g.config.agent_settings.start_step, frequency=g.config.agent_settings.frequency,
                                                    variance=g.config.agent_settings.variance) for a, g in taps}),
                         {"scenario": name, "step": st})
            return
        for aname, ag in hook(env):
            h = ag.history[-1]
            if hostile and h.action != "do-nothing" and h.response.status == "success" and \
                    rng.random() < hostile * {"node-application-install": 1.5 if h.parameters.get("application_name") == "c2-beacon" else 0.3,
                                              "node-file-create": 0.3, "node-folder-create": 0.15}.get(h.action, 0):
                req = undo_request(h)
                if req:
                    env.game.simulation.apply_request(req)
                    ck.count("defender-removed:%s" % h.action)
        for aname, ag in hook(env):
            last = 6 if type(ag).__name__ == "TAP001" else 5
            cur = (int(ag.current_kill_chain_stage), int(ag.next_kill_chain_stage))
            p = prev[aname][0]
            c = cur[0]
            ok = (c == p) or (p == 100 and c == 1) or (1 <= p < last and c == p + 1) or (p == last and c == 200) or (1 <= p <= last and c == 300) or \
                 (1 <= p <= last and c == 100 and ag.config.agent_settings.repeat_kill_chain) or \
                 (p in (200, 300) and c == 100 and ag.config.agent_settings.repeat_kill_chain) or (p in (200, 300) and c == 1 and ag.config.agent_settings.repeat_kill_chain)
            ck.evaluations += 1
            if not ok:
                ck.violation("kill-chain-stage-order:%s" % type(ag).__name__, "%s moved from stage %d to %d in one step (last stage %d, repeat=%s)"
                             % (aname, p, c, last, ag.config.agent_settings.repeat_kill_chain), {"scenario": name, "step": st, "agent": aname, "log": logs[aname][-6:]})
            prev[aname] = cur
            h = ag.history[-1]
            if h.action != "do-nothing":
                act_times[aname].append(st)
                # only from its configured start node: everything TAP001 does itself runs on its starting node; what it has the
                # C2 server do is addressed to the configured C2 server
                if type(ag).__name__ == "TAP001" and "node_name" in h.parameters:
                    c2 = ag.config.agent_settings.kill_chain.COMMAND_AND_CONTROL.c2_server_name
                    allowed = {c2} if h.action.startswith("c2-server") else {ag.starting_node}
                    ck.evaluations += 1
                    if h.parameters["node_name"] not in allowed:
                        ck.violation("tap-acted-from-unconfigured-node", "%s issued %s on %s at step %d (stage %d); its starting node is %s"
                                     % (aname, h.action, h.parameters["node_name"], st, c, ag.starting_node),
                                     {"scenario": name, "step": st, "agent": aname, "action": h.action, "parameters": {k: str(v) for k, v in h.parameters.items()}})
                        return
            if zero_stage is not None and type(ag).__name__ == "TAP001" and ((1 <= c < 100 and c > zero_stage) or c == 200):
                ck.violation("tap-passed-a-stage-of-probability-zero", "%s reached stage %d although stage %d is configured with probability 0"
                             % (aname, c, zero_stage), {"scenario": name, "step": st, "agent": aname, "zero_probability_stage": zero_stage})
                return
        if env.game.calculate_truncated():
            break
    for aname, ag in taps:
        f, v = ag.config.agent_settings.frequency, ag.config.agent_settings.variance
        ts = act_times[aname]
        ck.case(canon=(name, aname, tuple(ts)), nontrivial=len(ts) >= 2, sample={"scenario": name, "agent": aname, "action_times": ts[:10], "frequency": f, "variance": v})
        for a, b in zip(ts, ts[1:]):
            if b - a < f - v:
                ck.violation("tap-gap-below-frequency:%s" % type(ag).__name__, "%s acted at steps %d and %d: gap %d < frequency %d - variance %d" % (aname, a, b, b - a, f, v),
                             {"scenario": name, "agent": aname, "action_times": ts})
        if ts and ts[0] < ag.config.agent_settings.start_step - v:
            ck.violation("tap-acted-before-start", "%s first acted at %d, start_step %d" % (aname, ts[0], ag.config.agent_settings.start_step), {"scenario": name})
        # replay the logged bookkeeping calls through the model
        last = 6 if type(ag).__name__ == "TAP001" else 5
        lg = logs[aname]
        if lg:
            s = lg[0][1]
            ops, exp = [], []
            cur = s
            for (tag, before, after, rep, done, status, rep_stages, ret) in lg:
                if tag == "KReturn":
                    ck.evaluations += 1
                    ck.count("tap-response:%s" % status)
                    if status != "success":
                        want = before[0] if rep_stages else 300
                        if after[0] != want or ret is not False:
                            ck.violation("unsuccessful-response-did-not-stop-the-stage:%s" % type(ag).__name__,
                                         "%s: its previous request came back %r in stage %d (repeat_kill_chain_stages=%s); the stage afterwards is %d (expected %d) "
                                         "and the agent %s" % (aname, status, before[0], rep_stages, after[0], want, "carried on" if ret else "held"),
                                         {"scenario": name, "agent": aname, "status": status, "stage": before[0], "repeat_kill_chain_stages": rep_stages,
                                          "history": [(x.action, x.parameters, x.response.status) for x in ag.history if x.action != "do-nothing"][-8:]})
                if before != cur:
                    # a direct assignment between calls: the only one in the sources is "stage := FAILED"
                    if before[0] == 300:
                        ops.append("KFail")
                        exp += [300, cur[1]]
                        cur = before
                    else:
                        break
                ops.append("KOutcome %s" % ("true" if rep else "false") if tag == "KOutcome" else
                           "KReturn %s %s" % ("true" if status == "success" else "false", "true" if rep_stages else "false") if tag == "KReturn" else tag)
                exp += [after[0], after[1]]
                cur = after
            ops, exp = ops[:300], exp[:600]
            coq_exprs.append("(fix go (s : kc) (l : list kop) : list Z := match l with [] => [] | o :: t => let s' := k_step %d s o in [k_cur s'; k_next s'] ++ go s' t end) "
                             "{| k_cur := %d; k_next := %d; k_done := false; k_prog := 0 |} [%s]" % (last, s[0], s[1], "; ".join(ops)))
            expect.append(exp)


def run(ck):
    ck.rule = ("(a) periodic and data-manipulation agents over start step / start variance / frequency / variance / max executions / start-node lists x seeds: "
               "action times compared with the model fed the recorded randint draws, and checked against the start window, the frequency window, the "
               "execution cap, the node list and the configured action; (b) probabilistic agents over probability tables with zeros and shuffled key order: "
               "vector by action index, zero-probability actions never selected in many draws, numpy's choice vs the model's inverse CDF on the same "
               "uniform draws; (c) TAP001 / TAP003 in the UC7 scenarios under random blue actions: stage transitions, action gaps, and the logged "
               "bookkeeping calls replayed through the model; non-trivial = at least two actions / shuffled keys")
    coq_props(ck)
    gen_tie.check(ck, ["scripted", "killchain", "periodic"])
    rng = ck.rng
    coq_in = []
    for k in range(ck.n(40, 300)):
        kind = rng.choice(["periodic-agent", "red-database-corrupting-agent"])
        f = rng.randint(1, 6)
        v = rng.randint(0, f - 1)
        st = rng.randint(0, 8)
        sv = rng.randint(0, 3)
        mx = rng.choice([None, 0, 1, 2, 3, 5]) if kind == "periodic-agent" else None
        nodes = rng.sample(["pa", "pb", "pc"], rng.randint(1, 3))
        periodic_case(ck, kind, st, sv, f, v, mx, nodes, 40, coq_in)
    ck.traces += len(coq_in)
    try:
        mism = coq_cases(ck, "From PV Require Import Model.Scripted.", "run_case", coq_in, name="c19", chunk=100)
    except RuntimeError as e:
        ck.broken("correspondence Model.Scripted.run_case", str(e))
        mism = None
    if mism is not None:
        ck.obligation("correspondence PeriodicAgent/DataManipulationAgent scheduling = Model.Scripted on %d settings x draws" % len(coq_in), "correspondence",
                      not mism, "" if not mism else "first mismatch: case %d model=%s impl=%s input=%s" % (mism[0][0], mism[0][1], coq_in[mism[0][0]][1], coq_in[mism[0][0]][0][:300]))
    exprs, expect = [], []
    tables = [{0: 1.0, 1: 0.0}, {1: 1.0, 0: 0.0}, {2: 0.0, 1: 0.5, 0: 0.5}, {0: 0.25, 1: 0.0, 2: 0.75, 3: 0.0}, {3: 0.125, 0: 0.0, 2: 0.875, 1: 0.0},
              {0: 0.0, 1: 0.0, 2: 1.0}, {2: 0.5, 0: 0.5, 1: 0.0}]
    for t in tables:
        prob_case(ck, t, ck.n(300, 3000), exprs, expect)
    for k in range(ck.n(6, 40)):
        n = rng.randint(2, 5)
        ws = [rng.choice([0, 0, 1, 2, 4]) for _ in range(n)]
        if sum(ws) == 0:
            ws[0] = 1
        tot = sum(ws)
        # dyadic probabilities that sum to exactly 1
        while tot & (tot - 1):
            ws[0] += 1
            tot += 1
        keys = list(range(n))
        rng.shuffle(keys)
        prob_case(ck, {kk: ws[kk] / tot for kk in keys}, ck.n(200, 1500), exprs, expect)
    for nme in (["uc7_config.yaml", "uc7_config_tap003.yaml"]):
        cfg = world.load_cfg(world.PKG + "/" + nme)
        for a in cfg["agents"]:
            if a["type"] in ("tap-001", "tap-003"):
                a["agent_settings"]["repeat_kill_chain"] = rng.random() < 0.5
        tap_walk(ck, "pkg/" + nme, cfg, ck.n(70, 128), exprs, expect)
        if "tap003" not in nme:
            # an undisturbed attacker that restarts: the whole chain twice, every action from the configured nodes
            cfg3 = copy.deepcopy(cfg)
            for a in cfg3["agents"]:
                if a["type"] == "tap-001":
                    a["agent_settings"].update({"repeat_kill_chain": True, "repeat_kill_chain_stages": True, "frequency": 2, "variance": 0, "start_step": 1})
            cfg3["game"]["max_episode_length"] = 200
            tap_walk(ck, "pkg/%s + idle defender, attacker restarting" % nme, cfg3, ck.n(110, 160), exprs, expect, idle=True)
            # a stage configured with probability 0 is never passed
            zs, zname = rng.choice([(4, "PROPAGATE"), (5, "COMMAND_AND_CONTROL"), (6, "PAYLOAD")])     # the stages that hold a trial
            cfg4 = copy.deepcopy(cfg3)
            for a in cfg4["agents"]:
                if a["type"] == "tap-001":
                    a["agent_settings"]["kill_chain"][zname]["probability"] = 0
                    a["agent_settings"]["repeat_kill_chain_stages"] = rng.random() < 0.5
            tap_walk(ck, "pkg/%s + idle defender, %s probability 0" % (nme, zname), cfg4, ck.n(50, 80), exprs, expect, idle=True, zero_stage=zs)
        # a defender who removes what the attacker has just put in place (application, file, folder), with stages repeated or not
        for rs in ((False, True) if "tap003" not in nme else ()):       # TAP003 installs and creates nothing a defender could remove
            for rep in range(ck.n(2, 5)):
                cfg2 = copy.deepcopy(cfg)
                for a in cfg2["agents"]:
                    if a["type"] in ("tap-001", "tap-003"):
                        a["agent_settings"]["repeat_kill_chain"] = rng.random() < 0.5
                        a["agent_settings"]["repeat_kill_chain_stages"] = rs
                        a["agent_settings"]["frequency"] = rng.choice([2, 3])
                        a["agent_settings"]["variance"] = rng.choice([0, 1])
                        a["agent_settings"]["start_step"] = rng.choice([0, 1, 2, 4])
                tap_walk(ck, "pkg/%s + hostile defender, repeat_kill_chain_stages=%s" % (nme, rs), cfg2, ck.n(70, 128), exprs, expect, hostile=0.6)
    try:
        got = coq_compute(ck, "From Coq Require Import QArith.\nFrom PV Require Import Model.Scripted.", exprs, name="c19b")
        bad = [i for i, (g, e) in enumerate(zip(got, expect)) if g != e]
        ck.traces += len(exprs)
        ck.obligation("correspondence probabilities / numpy choice / kill-chain bookkeeping = Model.Scripted on %d evaluations" % len(exprs), "correspondence",
                      not bad and len(got) == len(expect), "" if not bad else "first mismatch at %d: model=%s impl=%s expr=%s" % (bad[0], got[bad[0]][:30], expect[bad[0]][:30], exprs[bad[0]][:300]))
    except RuntimeError as e:
        ck.broken("correspondence Model.Scripted (probabilities, choice, kill chain)", str(e))


def replay(ck, path):
    run(ck)
