"""C18 -- a link never carries more than its bandwidth in a tick; down links carry nothing."""
import json, math
from lib.common import coq_props, coq_cases, zl, Raw
from lib import world, family, gen_tie

SCALE = 131072.0      # Mbit -> bytes (1024*1024/8): loads are exact dyadic rationals, so this is an exact integer
EPS = 1e-9


class Monitor:
    """in-process wrappers around Link / AirSpace accounting: builds the call tree of transmission attempts per
    medium per tick and checks the property directly (independent tally of carried data)."""

    def __init__(self, ck):
        self.ck = ck
        self.installed = False
        self.reset_all()

    def reset_all(self):
        self.stack = {}        # medium -> stack of open nodes
        self.top = {}          # medium -> list of top-level nodes this tick
        self.carried = {}      # medium -> Mbits delivered this tick (own tally)
        self.lastchk = {}      # (medium, id(frame)) -> (size, up)
        self.dirty = set()     # media whose load was reset mid-tick (endpoint down): outside the model
        self.after = {}        # medium -> loads after each top-level attempt
        self.bw = {}
        self.names = {}
        self.context = {}

    def note(self, **kw):
        self.context = kw

    def install(self):
        if self.installed:
            return
        self.installed = True
        from primaite.simulator.network.hardware.base import Link
        from primaite.simulator.network.airspace import AirSpace
        mon = self
        o_can, o_tx, o_pre, o_down = Link.can_transmit_frame, Link.transmit_frame, Link.pre_timestep, Link.endpoint_down

        def node_open(m, chk, add, up):
            n = {"chk": chk, "add": add, "up": up, "ok": False, "kids": []}
            st = mon.stack.setdefault(m, [])
            (st[-1]["kids"] if st else mon.top.setdefault(m, [])).append(n)
            return n

        def K(link):
            k = ("L", id(link))
            mon.names[k] = link
            return k

        def can(link, frame):
            r = o_can(link, frame)
            self = K(link)
            mon.bw[self] = link.bandwidth
            sz = frame.size_Mbits
            if r:
                mon.lastchk[(self, id(frame))] = (sz, True)
            else:
                # refused at the sender: nothing may move
                n = node_open(self, sz, sz, bool(link.is_up))
                if not mon.stack.get(self):
                    mon.after.setdefault(self, []).append(link.current_load)
            mon.check(self, link.current_load, link.bandwidth, "after can_transmit_frame")
            return r

        def tx(link, sender_nic, frame):
            self = K(link)
            mon.bw[self] = link.bandwidth
            add = frame.size_Mbits
            chk, up = mon.lastchk.pop((self, id(frame)), (None, None))
            if chk is None:
                # sent without asking the link: the model treats it as an attempt that must pass admission now
                chk, up = add, bool(link.is_up)
                mon.ck.count("transmit-without-admission-check")
            up_now = bool(link.is_up)
            n = node_open(self, chk, add, up)
            mon.stack[self].append(n)
            try:
                r = o_tx(link, sender_nic, frame)
            finally:
                mon.stack[self].pop()
            n["ok"] = bool(r)
            if r:
                mon.carried[self] = mon.carried.get(self, 0.0) + add
                if not up_now:
                    mon.ck.violation("frame-crossed-down-link", "a frame was delivered over %s although not both end interfaces were enabled" % link,
                                     dict(mon.context, link=str(link)))
            if not mon.stack[self]:
                mon.after.setdefault(self, []).append(link.current_load)
            mon.check(self, link.current_load, link.bandwidth, "after transmit_frame")
            return r

        def pre(self, timestep):
            o_pre(self, timestep)
            if self.current_load != 0.0:
                mon.ck.violation("load-not-zero-at-tick-start", "link %s starts the tick with load %r" % (self, self.current_load),
                                 dict(mon.context, link=str(self)))

        def down(self):
            before = self.current_load
            o_down(self)
            if before != 0.0 and self.current_load == 0.0:
                mon.dirty.add(K(self))
        Link.can_transmit_frame, Link.transmit_frame, Link.pre_timestep, Link.endpoint_down = can, tx, pre, down

        from primaite.simulator.network.container import Network
        o_npre = Network.pre_timestep

        def npre(net, timestep):
            o_npre(net, timestep)
            # loads start every tick at zero: every link of the network (up or down) and every wireless channel, read here
            for link in net.links.values():
                mon.ck.evaluations += 1
                if link.current_load != 0.0:
                    mon.ck.violation("load-not-zero-at-tick-start", "link %s (is_up=%s) starts the tick with load %r" % (link, link.is_up, link.current_load),
                                     dict(mon.context, link=str(link), is_up=bool(link.is_up), load=link.current_load))
            for fr, load in net.airspace.bandwidth_load.items():
                mon.ck.evaluations += 1
                if load != 0.0:
                    mon.ck.violation("load-not-zero-at-tick-start", "wireless channel %s starts the tick with load %r" % (fr, load),
                                     dict(mon.context, channel=str(fr), load=load))
        Network.pre_timestep = npre

        a_can, a_tx = AirSpace.can_transmit_frame, AirSpace.transmit

        def acan(self, frame, sender_network_interface):
            r = a_can(self, frame, sender_network_interface)
            m = ("A", id(self), sender_network_interface.frequency.frequency_hz)
            cap = self.get_frequency_max_capacity_mbps(sender_network_interface.frequency.name)
            mon.bw[m] = cap
            sz = frame.size_Mbits
            if r:
                mon.lastchk[(m, id(frame))] = (sz, True)
            else:
                node_open(m, sz, sz, True)
                if not mon.stack.get(m):
                    mon.after.setdefault(m, []).append(self.bandwidth_load.get(m[2], 0.0))
            mon.check(m, self.bandwidth_load.get(m[2], 0.0), cap, "after AirSpace.can_transmit_frame")
            return r

        def atx(self, frame, sender_network_interface):
            m = ("A", id(self), sender_network_interface.frequency.frequency_hz)
            cap = self.get_frequency_max_capacity_mbps(sender_network_interface.frequency.name)
            mon.bw[m] = cap
            add = frame.size_Mbits
            chk, up = mon.lastchk.pop((m, id(frame)), (None, None))
            if chk is None:
                chk, up = add, True
                mon.ck.count("transmit-without-admission-check")
            n = node_open(m, chk, add, up)
            n["ok"] = True
            mon.stack[m].append(n)
            try:
                a_tx(self, frame, sender_network_interface)
            finally:
                mon.stack[m].pop()
            mon.carried[m] = mon.carried.get(m, 0.0) + add
            if not mon.stack[m]:
                mon.after.setdefault(m, []).append(self.bandwidth_load.get(m[2], 0.0))
            mon.check(m, self.bandwidth_load.get(m[2], 0.0), cap, "after AirSpace.transmit")
        AirSpace.can_transmit_frame, AirSpace.transmit = acan, atx

    def check(self, m, load, bw, where):
        self.ck.evaluations += 1
        if load > bw + EPS or load < -EPS:
            self.ck.violation("load-exceeds-bandwidth", "current load %r is outside [0, bandwidth %r] %s on %s" % (load, bw, where, self.name(m)),
                              dict(self.context, medium=self.name(m), load=load, bandwidth=bw, tree=self.tree_json(m)))
        c = self.carried.get(m, 0.0)
        if c > bw + EPS:
            self.ck.violation("carried-exceeds-bandwidth", "data carried in this tick %r exceeds bandwidth %r on %s (own tally of delivered frames)"
                              % (c, bw, self.name(m)), dict(self.context, medium=self.name(m), carried=c, bandwidth=bw, tree=self.tree_json(m)))

    def name(self, m):
        return str(self.names.get(m)) if m[0] == "L" else "airspace@%s" % m[2]

    def tree_json(self, m):
        return json.loads(json.dumps(self.top.get(m, [])[-3:], default=str))

    def end_tick(self, coq_in):
        """close the tick: emit one correspondence case per medium that saw traffic; reset."""
        for m, tops in self.top.items():
            if not tops or m in self.dirty or self.stack.get(m):
                continue
            bw = self.bw.get(m)
            if bw is None:
                continue
            def B(x):
                return int(round(x * SCALE))
            if any(abs(x * SCALE - round(x * SCALE)) > 1e-6 for x in [bw] + self.after.get(m, [])):
                self.ck.count("skipped:non-integral-byte-size")
                continue

            def term(n):
                return Raw("Tx %d %d %s %s %s" % (B(n["chk"]), B(n["add"]), "true" if n["up"] else "false", "true" if n["ok"] else "false",
                                                zl([term(k) for k in n["kids"]])))
            after = [B(x) for x in self.after.get(m, [])]
            if len(after) != len(tops):
                continue
            final = after[-1] if after else 0
            exp = after + [final, B(self.carried.get(m, 0.0))]
            coq_in.append(("(%d, %s)" % (B(bw), zl([term(t) for t in tops])), exp))
            depth = max((self.depth(t) for t in tops), default=0)
            self.ck.case(canon=(B(bw), json.dumps(tops, default=str)), nontrivial=depth > 1 or any(not t["ok"] for t in tops),
                         sample={"medium": self.name(m), "bandwidth_bytes": B(bw), "top_level_attempts": len(tops), "max_nesting": depth,
                                 "loads_after_each": after[:6]} if depth > 1 else None)
            self.ck.count("nesting-depth:%d" % depth)
        self.stack, self.top, self.carried, self.lastchk, self.after = {}, {}, {}, {}, {}
        self.dirty = set()

    def discard(self):
        """forget traffic that happened outside a tick (construction / episode set-up, before the first pre_timestep)."""
        self.stack, self.top, self.carried, self.lastchk, self.after = {}, {}, {}, {}, {}
        self.dirty = set()

    def depth(self, n):
        return 1 + max((self.depth(k) for k in n["kids"]), default=0)


def tight_network(rng, seed):
    """two to four hosts on a switch / across a router, link bandwidths from below one frame to a few frames."""
    cfg, r, fam, hosts = family.base(seed)
    frame = 0.0046          # a ping / ARP frame is 0.004 - 0.007 Mbit
    for l in cfg["simulation"]["network"]["links"]:
        l["bandwidth"] = rng.choice([frame * k for k in (0.5, 1.0, 1.25, 1.5, 2.0, 2.5, 3.0, 4.0, 8.0)] + [1, 100])
    for n in cfg["simulation"]["network"]["nodes"]:
        n.pop("operating_state", None)
    cfg["agents"] = []
    return cfg, hosts


def drive_tight(ck, mon, seed, ticks, coq_in):
    rng = ck.rng
    cfg, hosts = tight_network(rng, seed)
    game = world.make_game(cfg)
    game.setup_for_episode(0)
    sim = game.simulation
    mon.discard()
    nodes = {n.config.hostname: n for n in sim.network.nodes.values()}
    ips = [h["ip_address"] for h in hosts]
    for t in range(ticks):
        mon.note(scenario="tight/%d" % seed, tick=t)
        game.pre_timestep()
        for _ in range(rng.randint(1, 4)):
            src = nodes[rng.choice(hosts)["hostname"]]
            x = rng.random()
            try:
                if x < 0.6:
                    src.ping(rng.choice(ips), pings=rng.choice([1, 1, 2, 4]))
                elif x < 0.68:
                    nic = src.network_interface[1]
                    (nic.disable if rng.random() < 0.5 else nic.enable)()
                elif x < 0.75:
                    nic = src.network_interface[1]      # bounce the interface inside the tick
                    nic.disable()
                    nic.enable()
                elif x < 0.85:
                    sw = src.software_manager.software.get("nmap")
                    if sw:
                        sw.ping_scan(target_ip_address=rng.choice(ips), show=False)
                else:
                    apps = [a for a in src.software_manager.software.values() if hasattr(a, "run") and a.name in world.EXECUTABLE_APPS]
                    if apps:
                        a = rng.choice(apps)
                        a.run()
                        sim.apply_request(["network", "node", src.config.hostname, "application", a.name, "execute"])
            except Exception as e:
                ck.violation("traffic-raises:%s" % type(e).__name__, "driving traffic raised %r" % (e,), {"scenario": "tight/%d" % seed, "tick": t})
        game.advance_timestep()
        mon.end_tick(coq_in)


def drive_scenario(ck, mon, name, cfg, steps, coq_in, shrink_bw=None):
    rng = ck.rng
    import copy
    cfg = copy.deepcopy(cfg)
    if shrink_bw:
        for l in cfg["simulation"]["network"].get("links", []):
            l["bandwidth"] = rng.choice(shrink_bw)
    env = world.make_env(cfg)
    env.reset()
    mon.discard()
    n = env.action_space.n
    for st in range(steps):
        mon.note(scenario=name, step=st)
        env.step(rng.randrange(n))
        mon.end_tick(coq_in)
        if env.game.calculate_truncated():
            env.reset()
            mon.discard()


def wireless(ck, mon, coq_in):
    rng = ck.rng
    import yaml
    from primaite.simulator.network.airspace import AirSpaceFrequency
    p = world.ASSETS + "/wireless_wan_network_config.yaml"
    cfg = yaml.safe_load(open(p))
    cfg["io_settings"] = dict(world.IO_OFF)
    game = world.make_game(cfg)
    game.setup_for_episode(0)
    sim = game.simulation
    mon.discard()
    nodes = {n.config.hostname: n for n in sim.network.nodes.values()}
    air = sim.network.airspace
    saved = {k: v.data_rate_bps for k, v in air.frequencies.items()}
    try:
        hosts = [n for n in nodes.values() if type(n).__name__.lower() in world.HOSTS]
        ips = [str(h.network_interface[1].ip_address) for h in hosts]
        for t in range(ck.n(25, 120)):
            # the channel capacity is changed between ticks through the public API: ample while the first traffic flows, then
            # of the order of one frame (a capacity looked up once and kept would let the old, larger one through)
            import contextlib, io
            with contextlib.redirect_stdout(io.StringIO()):
                air.set_frequency_max_capacity_mbps({k: (1000.0 if t == 0 else rng.choice([0.5, 1.0, 1.5, 2.0, 3.0, 1000.0])) * 0.0052 for k in air.frequencies})
            mon.note(scenario="wireless_wan", tick=t)
            game.pre_timestep()
            for _ in range(rng.randint(1, 3)):
                rng.choice(hosts).ping(rng.choice(ips), pings=rng.choice([1, 2]))
            game.advance_timestep()
            mon.end_tick(coq_in)
    finally:
        for k, v in saved.items():
            air.frequencies[k].data_rate_bps = v


def run(ck):
    ck.rule = ("call trees of transmission attempts per link / wireless channel per tick, recorded by wrappers around can_transmit_frame / "
               "transmit_frame: pings and ARP (request with nested reply), interface toggles, nmap scans, red/green applications on links from "
               "half a frame to a few frames, shipped and generated scenarios with shrunk bandwidths, a wireless WAN with channel capacities of "
               "the order of one frame; the load and an independent tally of delivered data are checked against the bandwidth after every "
               "attempt; non-trivial = a tree with nesting or a refused/undelivered attempt; evaluations count every bound check")
    coq_props(ck)
    gen_tie.check(ck, ["link", "linktx"])
    mon = Monitor(ck)
    mon.install()
    coq_in = []
    for k in range(ck.n(4, 16)):
        drive_tight(ck, mon, ck.seed + k, ck.n(30, 60), coq_in)
    wireless(ck, mon, coq_in)
    drive_scenario(ck, mon, "pkg/data_manipulation.yaml(shrunk links)", world.load_cfg(world.PKG + "/data_manipulation.yaml"), ck.n(40, 200), coq_in,
                   shrink_bw=[0.005, 0.01, 0.02, 0.05, 1, 100])
    for k in range(ck.n(2, 8)):
        drive_scenario(ck, mon, "family/%d" % (ck.seed + k), family.generate(ck.seed + k), ck.n(25, 60), coq_in, shrink_bw=[0.005, 0.0075, 0.01, 0.03, 1, 100])
    if not ck.quick:
        drive_scenario(ck, mon, "pkg/uc7_config.yaml", world.load_cfg(world.PKG + "/uc7_config.yaml"), 60, coq_in, shrink_bw=[0.01, 0.05, 1, 100])
    ck.traces += len(coq_in)
    try:
        mism = coq_cases(ck, "From PV Require Import Model.Link.", "run_case", coq_in, name="c18", chunk=200)
    except RuntimeError as e:
        ck.broken("correspondence Model.Link.run_case", str(e))
        return
    ck.obligation("correspondence Link/AirSpace accounting = Model.Link.run on %d link-ticks" % len(coq_in), "correspondence", not mism,
                  "" if not mism else "first mismatch: case %d model=%s impl=%s input=%s" % (mism[0][0], mism[0][1], coq_in[mism[0][0]][1], coq_in[mism[0][0]][0][:400]))


def replay(ck, path):
    run(ck)
