"""C15 -- the file system stays structurally consistent under any operation sequence."""
import itertools, json
from lib.common import coq_props, coq_cases, zl, Raw
from lib import world, family, gen_tie

ST = {"success": 1, "failure": 2, "unreachable": 3}


def gname(i):
    return "root" if i == 0 else "fold%d" % i


def fname(i):
    return "f%d.txt" % i


class Bench:
    _sim = None
    _count = 0

    def __init__(self, ck, seed):
        from primaite.simulator.network.hardware.nodes.host.computer import Computer
        from primaite.simulator.sim_container import Simulation
        if Bench._sim is None or Bench._count % 200 == 0:
            Bench._sim = Simulation()
        Bench._count += 1
        self.sim = Bench._sim
        self.name = "pc%d" % Bench._count
        self.node = Computer.from_config(config={"type": "computer", "hostname": self.name, "ip_address": "192.168.1.2",
                                                 "subnet_mask": "255.255.255.0"})
        self.sim.network.add_node(self.node)
        self.fs = self.node.file_system
        self.t = 0
        # the model starts from a file system holding only the root folder
        for f in list(self.fs.folders.values()):
            if f.name != "root":
                self.fs.delete_folder(f.name)
        self.fs.deleted_folders.clear()
        for f in self.fs.folders.values():
            for x in list(f.files.values()):
                f.remove_file(x)
            f.deleted_files.clear()
        self.fs.num_file_creations = self.fs.num_file_deletions = 0

    def req(self, tail):
        return self.sim.apply_request(["network", "node", self.name, "file_system"] + tail)

    def apply(self, op):
        k = op[0]
        if k == "CreateFolder":
            return self.req(["create", "folder", gname(op[1])])
        if k == "CreateFile":
            return self.req(["create", "file", gname(op[1]), fname(op[2]), op[3]])
        if k == "ActionCreateFile":      # the agent action (force False) through form_request
            return self.sim.apply_request(world.form_request("node-file-create", {"node_name": self.name, "folder_name": gname(op[1]),
                                                                                  "file_name": fname(op[2]), "force": False}))
        if k == "ActionCreateFolder":
            return self.sim.apply_request(world.form_request("node-folder-create", {"node_name": self.name, "folder_name": gname(op[1])}))
        if k == "DeleteFile":
            return self.req(["delete", "file", gname(op[1]), fname(op[2])])
        if k == "ActionDeleteFile":
            return self.sim.apply_request(world.form_request("node-file-delete", {"node_name": self.name, "folder_name": gname(op[1]), "file_name": fname(op[2])}))
        if k == "DeleteFolder":
            return self.req(["delete", "folder", gname(op[1])])
        if k == "RestoreFile":
            return self.req(["restore", "file", gname(op[1]), fname(op[2])])
        if k == "RestoreFolder":
            return self.req(["restore", "folder", gname(op[1])])
        if k == "FolderRestore":
            return self.sim.apply_request(world.form_request("node-folder-restore", {"node_name": self.name, "folder_name": gname(op[1])}))
        if k == "FolderDeleteFile":
            return self.req(["folder", gname(op[1]), "delete", fname(op[2])])
        if k == "FileVerb":
            return self.sim.apply_request(world.form_request("node-file-" + op[3], {"node_name": self.name, "folder_name": gname(op[1]), "file_name": fname(op[2])}))
        if k == "FolderVerb":
            return self.sim.apply_request(world.form_request("node-folder-" + op[2], {"node_name": self.name, "folder_name": gname(op[1])}))
        if k == "PowerOff":
            return self.sim.apply_request(["network", "node", self.name, "shutdown"])
        if k == "PowerOn":
            return self.sim.apply_request(["network", "node", self.name, "startup"])
        if k == "Tick":
            self.node.apply_timestep(self.t)
            self.t += 1
            self.node.pre_timestep(self.t)
            return None
        raise ValueError(k)

    def gi(self, nm):
        return 0 if nm == "root" else int(nm[4:])

    def fi(self, nm):
        return int(nm[1:-4])

    def observe(self):
        out = []

        def folder(f):
            o = [-10, self.gi(f.name), 1 if f.deleted else 0, -11]
            for x in f.files.values():
                o += [self.fi(x.name), 1 if x.deleted else 0]
            o.append(-12)
            for x in f.deleted_files.values():
                o += [self.fi(x.name), 1 if x.deleted else 0]
            return o
        for f in self.fs.folders.values():
            out += folder(f)
        out.append(-20)
        for f in self.fs.deleted_folders.values():
            out += folder(f)
        out += [-30, self.fs.num_file_creations, self.fs.num_file_deletions]
        return out

    def invariant(self):
        """the property, checked directly on the objects; returns list of problems."""
        bad = []
        fs = self.fs
        allf = list(fs.folders.values()) + list(fs.deleted_folders.values())
        if set(fs.folders) & set(fs.deleted_folders):
            bad.append("a folder is both live and deleted")
        names = [f.name for f in fs.folders.values()]
        if len(names) != len(set(names)):
            bad.append("duplicate live folder names %s" % names)
        for f in fs.folders.values():
            if f.deleted:
                bad.append("live folder %s has the deleted flag" % f.name)
        for f in fs.deleted_folders.values():
            if not f.deleted:
                bad.append("deleted folder %s lacks the deleted flag" % f.name)
        seen = {}
        for f in allf:
            ln = [x.name for x in f.files.values()]
            if len(ln) != len(set(ln)):
                bad.append("duplicate live file names in %s: %s" % (f.name, ln))
            if set(f.files) & set(f.deleted_files):
                bad.append("a file of %s is both live and deleted" % f.name)
            for x in f.files.values():
                if x.deleted:
                    bad.append("live file %s/%s has the deleted flag" % (f.name, x.name))
            for x in f.deleted_files.values():
                if not x.deleted:
                    bad.append("deleted file %s/%s lacks the deleted flag" % (f.name, x.name))
            for u in list(f.files) + list(f.deleted_files):
                if u in seen and seen[u] is not f:
                    bad.append("file object listed in two folders")
                seen[u] = f
        st = fs.describe_state()
        if set(st["folders"]) != set(names) or set(st["deleted_folders"]) != {f.name for f in fs.deleted_folders.values()}:
            bad.append("reported folders differ from the live/deleted folders")
        for f in fs.folders.values():
            rep = st["folders"].get(f.name, {})
            if set(rep.get("files", {})) != {x.name for x in f.files.values()} or \
               set(rep.get("deleted_files", {})) != {x.name for x in f.deleted_files.values()}:
                bad.append("reported files of %s differ from its live/deleted files" % f.name)
        return bad


FOLDERS, FILES = [0, 1, 1, 2], [1, 1, 2]
VERBS = ("scan", "repair", "corrupt", "restore", "access", "checkhash")


def gen_ops(rng, n):
    ops = []
    focus = (rng.choice(FOLDERS), rng.choice(FILES))
    for _ in range(n):
        x = rng.random()
        g, f = rng.choice(FOLDERS), rng.choice(FILES)
        if rng.random() < 0.6:          # stay on one folder/file so that conflicting sequences (delete, re-create, restore) occur
            g, f = focus
        elif rng.random() < 0.2:
            focus = (g, f)
        if x < 0.14:
            ops.append(("CreateFile", g, f, rng.random() < 0.3))
        elif x < 0.24:
            ops.append(("ActionCreateFile", g, f))
        elif x < 0.36:
            ops.append((rng.choice(["DeleteFile", "ActionDeleteFile"]), g, f))
        elif x < 0.44:
            ops.append(("RestoreFile", g, f))
        elif x < 0.50:
            ops.append((rng.choice(["CreateFolder", "ActionCreateFolder"]), g))
        elif x < 0.57:
            ops.append(("DeleteFolder", g))
        elif x < 0.63:
            ops.append(("RestoreFolder", g))
        elif x < 0.69:
            ops.append(("FolderRestore", g))
        elif x < 0.73:
            ops.append(("FolderDeleteFile", g, f))
        elif x < 0.77:
            ops.append(("FileVerb", g, f, rng.choice(VERBS)))
        elif x < 0.80:
            ops.append(("FolderVerb", g, rng.choice(("scan", "repair", "checkhash"))))
        else:
            ops += [("Tick",)] * rng.choice([1, 1, 2, 4])
    if rng.random() < 0.3:
        # the node is shut down in the same tick as the last requests and brought back later: the containers are untouched by
        # power, and the per-tick counters still start every tick at zero
        g, f = focus
        ops.append(("CreateFile", g, f, False) if rng.random() < 0.5 else ("DeleteFile", g, f))
        ops += [("PowerOff",)] + [("Tick",)] * rng.choice([1, 2, 5]) + [("PowerOn",)] + [("Tick",)] * rng.choice([1, 2, 5])
    return ops


def coq_op(op):
    k = op[0]
    if k in ("CreateFolder", "ActionCreateFolder"):
        return Raw("CreateFolder %d" % op[1])
    if k == "CreateFile":
        return Raw("CreateFile %d %d %s" % (op[1], op[2], "true" if op[3] else "false"))
    if k == "ActionCreateFile":
        return Raw("CreateFile %d %d false" % (op[1], op[2]))
    if k in ("DeleteFile", "ActionDeleteFile"):
        return Raw("DeleteFile %d %d" % (op[1], op[2]))
    if k in ("DeleteFolder", "RestoreFolder", "FolderRestore"):
        return Raw("%s %d" % (k, op[1]))
    if k in ("RestoreFile", "FolderDeleteFile"):
        return Raw("%s %d %d" % (k, op[1], op[2]))
    if k == "Tick":
        return Raw("Tick")
    return None


def run_seq(ck, bench_seed, ops, coq_in, label):
    b = Bench(ck, bench_seed)
    out, mops = [], []
    ctx = {"ops": [list(o) for o in ops]}
    for i, op in enumerate(ops):
        before = b.observe()
        try:
            resp = b.apply(op)
        except Exception as e:
            ck.violation("fs-op-raises:%s:%s" % (op[0], type(e).__name__), "%s raised %r" % (op, e), dict(ctx, at=i))
            return
        after = b.observe()
        probs = b.invariant()
        if probs:
            ck.violation("fs-invariant:%s" % probs[0].split(" ")[0:3], "after %s: %s" % (op, "; ".join(probs[:3])), dict(ctx, at=i, problems=probs))
            return
        if op[0] == "Tick" and after[-2:] != [0, 0]:
            ck.violation("fs-counters-not-zero", "creation/deletion counters %s at the start of a tick" % after[-2:], dict(ctx, at=i))
        if op[0] in ("FileVerb", "FolderVerb") and op[0] != "Tick" and before[:-2] != after[:-2] and not (op[0] == "FolderVerb"):
            ck.violation("fs-verb-changed-partition", "%s changed the live/deleted partition" % (op,), dict(ctx, at=i))
        if op[0] in ("ActionCreateFile", "CreateFile", "ActionCreateFolder", "CreateFolder"):
            existed = (op[0].endswith("File") and _has_live(before, op[1], op[2])) or (op[0].endswith("Folder") and _has_folder(before, op[1]))
            if existed and before[:-2] != after[:-2] and not (op[0] == "CreateFile" and op[3]):
                ck.violation("fs-create-existing-changed-state", "%s on an existing item changed the file system" % (op,), dict(ctx, at=i))
        m = coq_op(op)
        if op[0] == "Tick" and b.node.operating_state.name != "ON":
            # the node is not ON once its own boot / shut-down countdown of this tick has run: the per-tick counters were reset at
            # the start of the tick, nothing timed in the file system progresses (a tick in which the node comes ON is an ordinary one)
            m = Raw("TickOff")
        if m is not None:
            mops.append(m)
            out += [ST.get(getattr(resp, "status", "success"), 9) if resp is not None else 1] + after
    ck.case(canon=json.dumps(ops), nontrivial=sum(1 for o in ops if o[0].startswith(("Delete", "Restore", "ActionDelete", "FolderRestore"))) >= 2,
            sample={"ops": [list(o) for o in ops[:8]], "final": out[-12:]})
    for o in ops:
        ck.count("op:" + o[0])
    coq_in.append((zl(mops), out))


def _has_folder(obs, g):
    i = 0
    live_part = obs[:obs.index(-20)]
    while i < len(live_part):
        if live_part[i] == -10 and live_part[i + 1] == g:
            return True
        i += 1
    return False


def _has_live(obs, g, f):
    live_part = obs[:obs.index(-20)]
    i = 0
    while i < len(live_part):
        if live_part[i] == -10 and live_part[i + 1] == g:
            j = i + 4
            while live_part[j] != -12:
                if live_part[j] == f:
                    return True
                j += 2
            return False
        i += 1
    return False


def exhaustive(depth):
    """all sequences to `depth` over a small op alphabet (one folder, two names, one file name)."""
    alpha = [("ActionCreateFile", 1, 1), ("ActionDeleteFile", 1, 1), ("RestoreFile", 1, 1), ("DeleteFolder", 1),
             ("RestoreFolder", 1), ("FolderRestore", 1), ("Tick",)]
    for seq in itertools.product(alpha, repeat=depth):
        yield list(seq)


def run(ck):
    ck.rule = ("sequences of file-system requests and agent actions (create/delete/restore of files and folders with repeated and conflicting "
               "names on existing, deleted and never-created targets, folder restore, file/folder verbs, ticks) on a host of a generated network; "
               "after every op the full live/deleted partition with flags and counters is compared with the model and the invariant is checked "
               "directly on the objects and on describe_state; non-trivial = at least two delete/restore ops; plus bounded-exhaustive sequences")
    coq_props(ck)
    gen_tie.check(ck, ["fs", "file", "pretick"])
    coq_in = []
    for k in range(ck.n(250, 1500)):
        run_seq(ck, ck.seed, gen_ops(ck.rng, ck.rng.randint(6, 24)), coq_in, "rand")
    depth = 4 if ck.quick else 5
    seqs = list(exhaustive(depth))
    for s in seqs:
        run_seq(ck, ck.seed, s + [("Tick",), ("Tick",), ("Tick",), ("ActionDeleteFile", 1, 1), ("RestoreFile", 1, 1)], coq_in, "exh")
    ck.extra["exhaustive_depth"] = depth
    ck.traces += len(coq_in)
    try:
        mism = coq_cases(ck, "From PV Require Import Model.Fs.", "run_case", coq_in, name="c15", chunk=80)
    except RuntimeError as e:
        ck.broken("correspondence Model.Fs.run_case", str(e))
        return
    ck.obligation("correspondence FileSystem/Folder containers = Model.Fs on %d op sequences" % len(coq_in), "correspondence", not mism,
                  "" if not mism else "first mismatch: case %d model=%s impl=%s input=%s" % (mism[0][0], mism[0][1][-60:], coq_in[mism[0][0]][1][-60:], coq_in[mism[0][0]][0][:400]))


def replay(ck, path):
    run(ck)
