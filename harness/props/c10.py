"""C10 -- reward = weighted sum of components; shared rewards use same-step values."""
import copy, itertools, json
from fractions import Fraction
from lib.common import coq_props, coq_cases, zl, Raw
from lib import world, family, gen_tie

W = [0.25, 0.5, 1.0, 2.0, 0.0]        # component weights (multiples of 1/4: exact in floats and in the model)
P = [-1.0, -0.5, 0.25, 1.0, 0.0]


def base_cfg(n_agents, rng, edges, order):
    """n scripted agents on a one-host network; edges: (a, b, weight) = a shares b's reward."""
    agents = []
    params = {}
    for i in range(n_agents):
        a_pen, d_pen, w = rng.choice(P), rng.choice(P), rng.choice(W[:4])
        params[i] = [(a_pen, d_pen, w)]
        comps = [{"type": "action-penalty", "weight": w, "options": {"action_penalty": a_pen, "do_nothing_penalty": d_pen}}]
        if rng.random() < 0.3:
            # the same component listed a second time (same options, its own weight): the reward is still the weighted sum of
            # everything that is listed
            w2 = rng.choice(W[:4])
            params[i].append((a_pen, d_pen, w2))
            comps.append({"type": "action-penalty", "weight": w2, "options": {"action_penalty": a_pen, "do_nothing_penalty": d_pen}})
        for (a, b, ww) in edges:
            if a == i:
                comps.append({"type": "shared-reward", "weight": ww, "options": {"agent_name": "ag%d" % b}})
        rng.shuffle(comps)
        agents.append({"ref": "ag%d" % i, "team": "GREEN", "type": "probabilistic-agent",
                       "agent_settings": {"action_probabilities": {0: 0.5, 1: 0.5}},
                       "action_space": {"action_map": {0: {"action": "do-nothing", "options": {}},
                                                       1: {"action": "node-os-scan", "options": {"node_name": "pc"}}}},
                       "reward_function": {"reward_components": comps}})
    cfg = {"io_settings": dict(world.IO_OFF), "game": {"max_episode_length": 64, "ports": ["HTTP"], "protocols": ["ICMP", "TCP"], "seed": rng.randrange(1000)},
           "agents": [agents[i] for i in order],
           "simulation": {"network": {"nodes": [{"hostname": "pc", "type": "computer", "ip_address": "192.168.1.2", "subnet_mask": "255.255.255.0"}], "links": []}}}
    return cfg, params


def has_cycle(n, edges):
    adj = {i: [b for (a, b, _) in edges if a == i] for i in range(n)}
    color = {}

    def dfs(u):
        color[u] = 1
        for v in adj[u]:
            if color.get(v) == 1 or (v not in color and dfs(v)):
                return True
        color[u] = 2
        return False
    return any(dfs(u) for u in range(n) if u not in color)


def sharing_case(ck, n, edges, order, steps, coq_in):
    rng = ck.rng
    cfg, params = base_cfg(n, rng, edges, order)
    ctx = {"agents": n, "edges": edges, "declaration_order": order}
    cyclic = has_cycle(n, edges)
    try:
        game = world.make_game(cfg)
    except RuntimeError as e:
        ck.case(canon=(n, tuple(edges), tuple(order)), nontrivial=True)
        if not cyclic:
            ck.violation("acyclic-sharing-rejected", "an acyclic reward-sharing graph was rejected at load: %r" % (e,), ctx)
        return
    except Exception as e:
        ck.violation("sharing-load-raises:%s" % type(e).__name__, "loading raised %r" % (e,), ctx)
        return
    if cyclic:
        ck.violation("cyclic-sharing-accepted", "a cyclic reward-sharing graph was accepted at load", ctx)
        return
    totals = {i: Fraction(0) for i in range(n)}
    for st in range(steps):
        try:
            game.step()
        except Exception as e:
            ck.violation("step-raises:%s" % type(e).__name__, "game.step raised %r" % (e,), dict(ctx, step=st))
            return
        own, cur = {}, {}
        for i in range(n):
            ag = game.agents["ag%d" % i]
            act = ag.history[-1].action
            own[i] = sum(Fraction(w) * Fraction(d_pen if act == "do-nothing" else a_pen) for (a_pen, d_pen, w) in params[i])
            cur[i] = Fraction(ag.reward_function.current_reward)
            totals[i] += cur[i]
        for i in range(n):
            want = own[i] + sum(Fraction(ww) * cur[b] for (a, b, ww) in edges if a == i)
            if cur[i] != want:
                ck.violation("reward-not-weighted-sum-of-same-step-values",
                             "step %d: agent %d reward %s, weighted sum of its components with the other agents' rewards of this step is %s (graph %s, order %s)"
                             % (st, i, cur[i], want, edges, order), dict(ctx, step=st, agent=i, own={k: str(v) for k, v in own.items()}, rewards={k: str(v) for k, v in cur.items()}))
            ag = game.agents["ag%d" % i]
            if Fraction(ag.history[-1].reward) != cur[i]:
                ck.violation("history-reward-differs", "agent %d history reward %s != current reward %s" % (i, ag.history[-1].reward, cur[i]), dict(ctx, step=st))
            if Fraction(ag.reward_function.total_reward) != totals[i]:
                ck.violation("total-not-sum-of-steps", "agent %d total %s != sum of step rewards %s" % (i, ag.reward_function.total_reward, totals[i]), dict(ctx, step=st))
        # model case (in declaration order, neighbours in the order the implementation's set iterates)
        ags = []
        for i in order:
            sh = [(b, int(Fraction(ww) * 4)) for (a, b, ww) in edges if a == i]
            ags.append((i, int(own[i] * 4096), sh))
        coq_in.append((zl(ags), [1] + [int(cur[i] * 4096) for i in order]))
    ck.case(canon=(n, tuple(edges), tuple(order)), nontrivial=len(edges) >= 1,
            sample={"agents": n, "edges": edges, "declaration_order": order, "last_rewards": [str(cur[i]) for i in range(n)]})
    ck.count("edges:%d" % len(edges))


def all_dags(n):
    pairs = [(a, b) for a in range(n) for b in range(n) if a != b]
    for k in range(0, len(pairs) + 1):
        for es in itertools.combinations(pairs, k):
            yield list(es)


# ---- component oracles (independent reading of the documented behaviour) -------------------------------------------
def component_walk(ck, name, cfg, steps, idle=False, db_down=False):
    rng = ck.rng
    env = world.make_env(cfg)
    env.reset()
    n = env.action_space.n
    state_by_comp = {}
    total = {}
    removed_any = False
    for st in range(steps):
        if st == 3 and not db_down:
            # a green user's application disappears (as a blue node-application-remove would make it): its next execution is
            # answered "unreachable", which the penalty components must treat as a failed attempt
            for a in env.game.agents.values():
                for comp, _w in a.reward_function.reward_components:
                    if type(comp).__name__ == "GreenAdminDatabaseUnreachablePenalty" and rng.random() < 0.6:
                        try:
                            env.game.simulation.apply_request(world.form_request("node-application-remove", {"node_name": comp.config.node_hostname, "application_name": "database-client"}))
                        except Exception:
                            pass
        if st == 0 and db_down:
            # the database is down before any page that needs it was ever fetched: those pages are answered 500
            for nd in env.game.simulation.network.nodes.values():
                if "database-service" in nd.software_manager.software:
                    env.game.simulation.apply_request(["network", "node", nd.config.hostname, "service", "database-service", "stop"])
        if st == 6 and not db_down:
            # the web server loses its database client: from now on it answers 500 to the pages that need the database
            for nd in env.game.simulation.network.nodes.values():
                if "web-server" in nd.software_manager.software and "database-client" in nd.software_manager.software:
                    try:
                        env.game.simulation.apply_request(["network", "node", nd.config.hostname, "software_manager", "application", "uninstall", "database-client"])
                        ck.count("web-server-lost-its-database-client")
                    except Exception:
                        pass
        if st == 0 and not db_down:
            # a green user's browser is gone before its first fetch (nothing in its history yet): the failed attempt is a failure
            for a in env.game.agents.values():
                for comp, _w in a.reward_function.reward_components:
                    if type(comp).__name__ == "WebpageUnavailablePenalty" and (rng.random() < 0.5 or not removed_any):
                        removed_any = True
                        try:
                            env.game.simulation.apply_request(world.form_request("node-application-remove", {"node_name": comp.config.node_hostname, "application_name": "web-browser"}))
                            ck.count("browser-removed-before-first-fetch")
                        except Exception:
                            pass
        obs, reward, term, trunc, info = env.step(0 if idle else rng.randrange(n))
        game = env.game
        state = game.get_sim_state()
        for aname, ag in game.agents.items():
            rf = ag.reward_function
            h = ag.history[-1]
            s = Fraction(0)
            for k, (comp, w) in enumerate(rf.reward_components):
                kind = type(comp).__name__
                key = (aname, k)
                prev = state_by_comp.get(key, Fraction(0))
                val = None
                if kind == "ActionPenalty":
                    val = Fraction(comp.config.do_nothing_penalty if h.action == "do-nothing" else comp.config.action_penalty)
                elif kind == "GreenAdminDatabaseUnreachablePenalty":
                    attempted = h.request == ["network", "node", comp.config.node_hostname, "application", "database-client", "execute"]
                    val = (Fraction(1) if h.response.status == "success" else Fraction(-1)) if attempted else (prev if comp.config.sticky else Fraction(0))
                elif kind == "WebServer404Penalty":
                    node = next((x for x in game.simulation.network.nodes.values() if x.config.hostname == comp.config.node_hostname), None)
                    svc = node.software_manager.software.get(comp.config.service_name) if node is not None else None
                    if svc is None:
                        val = Fraction(0)
                    else:
                        codes = [getattr(c_, "value", c_) for c_ in (getattr(svc, "response_codes_this_timestep", None) or [])]
                        if codes:
                            # every answer of the step counts: 200 -> +1, 404 -> -1, anything else -> 0, averaged
                            val = Fraction(sum(1 if c_ == 200 else -1 if c_ == 404 else 0 for c_ in codes), len(codes))
                        else:
                            val = prev if comp.config.sticky else Fraction(0)
                elif kind == "WebpageUnavailablePenalty":
                    attempted = h.request == ["network", "node", comp.config.node_hostname, "application", "web-browser", "execute"]
                    node = next((x for x in game.simulation.network.nodes.values() if x.config.hostname == comp.config.node_hostname), None)
                    br = node.software_manager.software.get("web-browser") if node is not None else None
                    if attempted:
                        if h.response.status != "success":
                            val = Fraction(-1)          # the fetch was refused / unreachable / failed: a failure, whatever the history holds
                        elif br is None or not br.history:
                            val = Fraction(0)
                        else:
                            it = br.history[-1]
                            loaded = it.status.name == "LOADED"
                            code = getattr(it.response_code, "value", it.response_code)
                            val = Fraction(0) if it.status.name == "PENDING" else Fraction(1) if (loaded and code == 200) else Fraction(-1)
                    elif comp.config.sticky:
                        val = Fraction(0) if br is None else prev
                    elif isinstance(getattr(comp, "reward", None), (int, float)):
                        val = Fraction(comp.reward)
                elif kind == "DatabaseFileIntegrity":
                    node = next((x for x in game.simulation.network.nodes.values() if x.config.hostname == comp.config.node_hostname), None)
                    val = Fraction(0)
                    if node is not None:
                        f = node.file_system.get_file(comp.config.folder_name, comp.config.file_name)
                        if f is None:
                            dl = [x for fo in list(node.file_system.folders.values()) + list(node.file_system.deleted_folders.values()) for x in fo.deleted_files.values()
                                  if x.name == comp.config.file_name and fo.name == comp.config.folder_name]
                            val = None if not dl else None          # deleted: leave to the implementation (documented as -1 / 0 depending on state)
                        else:
                            hs = f.health_status.name
                            val = Fraction(1) if hs == "GOOD" else Fraction(-1) if hs == "COMPROMISED" else Fraction(0)     # compromised = what the data manipulation attack leaves
                elif kind == "SharedReward":
                    val = Fraction(game.agents[comp.config.agent_name].reward_function.current_reward)
                elif kind == "DummyReward":
                    val = Fraction(0)
                elif isinstance(getattr(comp, "reward", None), (int, float)):
                    # a component this oracle has no independent reading for: take the value it reports itself, so that the
                    # weighted sum and the components that ARE recomputed stay checked
                    val = Fraction(comp.reward)
                got = None
                # the component's own last value is not exposed uniformly; recompute the agent total instead where all are known
                state_by_comp[key] = val if val is not None else prev
                if val is None:
                    s = None
                elif s is not None:
                    s += Fraction(w) * val
            ck.evaluations += 1
            cur = Fraction(rf.current_reward)
            if s is not None and abs(cur - s) > Fraction(1, 10 ** 9):
                ck.violation("reward-not-weighted-sum:%s" % aname, "%s step %d: reward %s, weighted sum of its components recomputed from the post-step state and its own last action is %s"
                             % (name, st, float(cur), float(s)), {"scenario": name, "step": st, "agent": aname})
            total[aname] = total.get(aname, Fraction(0)) + cur
            if abs(Fraction(rf.total_reward) - total[aname]) > Fraction(1, 10 ** 6):
                ck.violation("total-not-sum-of-steps:%s" % aname, "%s: total %s != sum of step rewards %s" % (aname, rf.total_reward, float(total[aname])), {"scenario": name, "step": st})
        if abs(Fraction(reward) - Fraction(env.agent.reward_function.current_reward)) > 0:
            ck.violation("env-reward-differs", "env.step reward %s != agent current reward" % reward, {"scenario": name, "step": st})
        if trunc:
            env.reset()
            total = {}
            state_by_comp = {}


def run(ck):
    ck.rule = ("(a) every reward-sharing digraph on 2-3 agents (4 in thorough) x declaration orders through PrimaiteGame.from_config: cyclic graphs must be "
               "rejected, acyclic ones accepted; along stepped episodes with stochastic scripted agents each agent's reward is compared with its own weighted "
               "component plus weight x the other agents' rewards of the SAME step, with its history entry, with the running total, and with the model; "
               "(b) generated scenarios stepped with random blue actions: rewards of every agent recomputed from the post-step state and its own last "
               "action/response by independent component oracles (action penalty, sticky/non-sticky green penalties, file integrity, shared); "
               "non-trivial = at least one sharing edge")
    coq_props(ck)
    gen_tie.check(ck, ["reward", "rewardsum"])
    rng = ck.rng
    coq_in = []
    for n in ((2, 3) if ck.quick else (2, 3, 4)):
        graphs = list(all_dags(n))
        if n == 4:
            graphs = rng.sample(graphs, 500)
        elif ck.quick and n == 3:
            graphs = rng.sample(graphs, 40)
        for es in graphs:
            edges = [(a, b, rng.choice(W)) for (a, b) in es]
            if edges and rng.random() < 0.2:
                a, b, _w = rng.choice(edges)
                edges.append((a, b, rng.choice(W[:4])))      # the same agent's reward shared twice, each entry with its own weight
            orders = list(itertools.permutations(range(n)))
            for order in (orders if (n <= 2 or not ck.quick) else rng.sample(orders, 2)):
                sharing_case(ck, n, edges, list(order), ck.n(4, 8), coq_in)
    ck.traces += len(coq_in)
    try:
        mism = coq_cases(ck, "From PV Require Import Model.Reward.", "run_case", coq_in, name="c10", chunk=200)
    except RuntimeError as e:
        ck.broken("correspondence Model.Reward.run_case", str(e))
        mism = None
    if mism is not None:
        ck.obligation("correspondence setup_reward_sharing/update_agents/RewardFunction.update = Model.Reward on %d agent-steps" % len(coq_in), "correspondence",
                      not mism, "" if not mism else "first mismatch: case %d model=%s impl=%s input=%s" % (mism[0][0], mism[0][1], coq_in[mism[0][0]][1], coq_in[mism[0][0]][0][:300]))
    for k in range(ck.n(4, 10)):
        component_walk(ck, "family/%d" % (ck.seed + k), family.generate(ck.seed + k), ck.n(30, 80))
    component_walk(ck, "pkg/data_manipulation.yaml", world.load_cfg(world.PKG + "/data_manipulation.yaml"), ck.n(40, 200))
    # the defender also rewarded by what the web server answers (sticky and not): good pages first, then -- the database stopped
    # for a while -- only server errors
    for sticky in (True, False):
        cfg = world.load_cfg(world.PKG + "/data_manipulation.yaml")
        for a in cfg["agents"]:
            if a.get("type") == "proxy-agent":
                a["reward_function"]["reward_components"].append(
                    {"type": "web-server-404-penalty", "weight": 0.5, "options": {"node_hostname": "web_server", "service_name": "web-server", "sticky": sticky}})
        # one user reads the static front page (200), the other the page that needs the database (500 while it is down)
        for nd in cfg["simulation"]["network"]["nodes"]:
            if nd["hostname"] == "client_1":
                for ap in nd.get("applications", []):
                    if ap["type"] == "web-browser":
                        ap.setdefault("options", {})["target_url"] = "http://arcd.com/"
        component_walk(ck, "pkg/data_manipulation.yaml + web-server-404-penalty (sticky=%s), database down" % sticky, cfg, ck.n(24, 60), idle=True, db_down=True)


def replay(ck, path):
    run(ck)
