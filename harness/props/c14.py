"""C14 -- visible health changes only by scanning; fixes and scans take their set time."""
import json
from lib.common import coq_props, coq_cases, zl, Raw
from lib import world, gen_tie
from lib.swbench import SwBench, gen_ops, coq_ops


class FsBench:
    _n = 0

    def __init__(self, nfiles, sd, rd, nd):
        from primaite.simulator.network.hardware.nodes.host.computer import Computer
        from primaite.simulator.sim_container import Simulation
        FsBench._n += 1
        self.sim = Simulation()
        self.name = "pc%d" % FsBench._n
        self.node = Computer.from_config(config={"type": "computer", "hostname": self.name, "ip_address": "192.168.1.2",
                                                 "subnet_mask": "255.255.255.0", "node_scan_duration": nd})
        self.sim.network.add_node(self.node)
        fs = self.node.file_system
        self.files = ["f%d.txt" % i for i in range(nfiles)]
        for f in self.files:
            fs.create_file(folder_name="docs", file_name=f)
        if not self.files:
            fs.create_folder("docs")
        self.folder = fs.get_folder("docs")
        self.folder.scan_duration, self.folder.restore_duration = sd, rd
        self.t = 0

    def req(self, tail):
        return self.sim.apply_request(["network", "node", self.name] + tail)

    def observe(self):
        o = [self.folder.health_status.value, self.folder.visible_health_status.value]
        for f in self.folder.files.values():
            o += [f.health_status.value, f.visible_health_status.value]
        return o

    def apply(self, op):
        k = op[0]
        if k in ("FileScan", "FileRepair", "FileCorrupt", "FileRestore"):
            return self.req(["file_system", "folder", "docs", "file", self.files[op[1]], k[4:].lower()])
        if k in ("FolderScan", "FolderRepair", "FolderCorrupt", "FolderRestore"):
            return self.req(["file_system", "folder", "docs", k[6:].lower()])
        if k == "NodeScan":
            return self.req(["os", "scan"])
        if k == "Tick":
            self.node.apply_timestep(self.t)
            self.t += 1
            self.node.pre_timestep(self.t)
            return None
        raise ValueError(k)


def gen_fs_ops(rng, nfiles, n):
    ops = []
    for _ in range(n):
        x = rng.random()
        if x < 0.35 and nfiles:
            ops.append((rng.choice(["FileScan", "FileRepair", "FileCorrupt", "FileCorrupt", "FileRestore"]), rng.randrange(nfiles)))
        elif x < 0.55:
            ops.append((rng.choice(["FolderScan", "FolderScan", "FolderRepair", "FolderCorrupt", "FolderRestore"]),))
        elif x < 0.63:
            ops.append(("NodeScan",))
        else:
            ops.append(("Tick",))
    return ops


def coq_fs_op(op):
    return Raw(op[0] if len(op) == 1 else "%s %d" % (op[0], op[1]))


def fs_case(ck, nfiles, sd, rd, nd, ops, coq_in):
    b = FsBench(nfiles, sd, rd, nd)
    init = b.observe()
    out = []
    ctx = {"files": nfiles, "scan_duration": sd, "restore_duration": rd, "node_scan_duration": nd, "ops": [list(o) for o in ops]}
    # shadow of the property: when is a scan due, and what may change a visible value
    folder_due, node_due, restore_due, tick = None, None, None, 0
    for i, op in enumerate(ops):
        before = b.observe()
        try:
            b.apply(op)
        except Exception as e:
            ck.violation("health-op-raises:%s" % type(e).__name__, "%s raised %r" % (op, e), dict(ctx, at=i))
            return
        after = b.observe()
        k = op[0]
        if k == "FolderScan" and folder_due is None:
            folder_due = tick + max(sd, 1)
        if k == "NodeScan":
            node_due = tick + max(nd, 1)
        if k == "FolderRestore" and restore_due is None:
            restore_due = tick + max(rd, 1)
        scans_now, restore_now = set(), False
        if k == "Tick":
            tick += 1
            if node_due == tick:
                scans_now.add("node"); node_due = None
            if folder_due == tick:
                scans_now.add("folder"); folder_due = None
            if restore_due == tick:
                restore_now = True; restore_due = None
        # visible values
        for j in range(nfiles):
            vb, va, hb = before[3 + 2 * j], after[3 + 2 * j], before[2 + 2 * j]
            allowed = (k == "FileScan" and op[1] == j) or bool(scans_now)
            if va != vb and not allowed:
                ck.violation("file-visible-changed-without-scan", "file %d visible health %d -> %d on %s with no scan completing" % (j, vb, va, op), dict(ctx, at=i))
            if allowed and va != hb:
                ck.violation("scan-did-not-show-true-health", "file %d: scan completed (%s) but visible=%d, true health at that moment=%d" % (j, op, va, hb), dict(ctx, at=i))
            ab, aa = before[2 + 2 * j], after[2 + 2 * j]
            if aa != ab and not (k in ("FileRepair", "FileCorrupt", "FileRestore") and op[1] == j) and k not in ("FolderRepair", "FolderCorrupt") and not restore_now:
                ck.violation("file-health-changed-without-event", "file %d true health %d -> %d on %s" % (j, ab, aa, op), dict(ctx, at=i))
        if after[1] != before[1] and not scans_now:
            ck.violation("folder-visible-changed-without-scan", "folder visible health %d -> %d on %s with no scan completing" % (before[1], after[1], op), dict(ctx, at=i))
        if "folder" in scans_now:
            want = max([before[2 + 2 * j] for j in range(nfiles)] or [0])
            if after[1] != want:
                ck.violation("folder-scan-time", "folder scan due at tick %d (duration %d): visible=%d, worst true file health=%d" % (tick, sd, after[1], want), dict(ctx, at=i))
        if restore_now and (any(after[2 + 2 * j] == 3 for j in range(nfiles)) or after[0] in (3, 4)):
            ck.violation("folder-restore-time", "folder restore due at tick %d (duration %d) but health is %s" % (tick, rd, after), dict(ctx, at=i))
        out += after
    ck.case(canon=(nfiles, sd, rd, nd, json.dumps(ops)), nontrivial=sum(1 for o in ops if o[0] in ("FolderScan", "NodeScan", "FileCorrupt")) >= 2,
            sample={"files": nfiles, "durations": [sd, rd, nd], "ops": [list(o) for o in ops[:8]], "trace_tail": out[-6:]})
    files = [(init[2 + 2 * j], init[3 + 2 * j]) for j in range(nfiles)]
    coq_in.append(("(%d, %d, %d, %d, %d, %s, %s)" % (sd, rd, nd, init[0], init[1], zl(files), zl([coq_fs_op(o) for o in ops])), out))


def fix_timeline(ck, b, name, fd, restart=False):
    """a fix returns software to good health after exactly max(fd, 1) ticks (also when the service is restarted while the fix
    runs); a compromise during the fix is not undone."""
    s = b.sw(name)
    if s.operating_state.name != "RUNNING":
        if b.is_service(name):
            return
        s.operating_state = type(s.operating_state).RUNNING
    s.config.fixing_duration = fd
    b.req(name, "compromise")
    r = b.req(name, "fix")
    if restart:
        s.restart_duration = fd + 2
        if b.req(name, "restart").status != "success":
            return
    got = [s.health_state_actual.name]
    n = max(fd, 1)
    for _ in range(n + 1):
        b.tick()
        got.append(s.health_state_actual.name)
    want = ["FIXING"] * n + ["GOOD"] * 2
    ck.case(canon=("fix", name, fd, restart), nontrivial=True)
    if r.status != "success" or got != want:
        ck.violation("fix-time:%s%s" % (name, ":while-restarting" if restart else ""), "%s fixing_duration=%d%s: fix answered %s, observed %s, configured timing gives %s"
                     % (name, fd, " (service restarted right after the fix request)" if restart else "", r.status, got, want),
                     {"software": name, "fixing_duration": fd, "restart_after_fix": restart, "observed": got, "expected": want})
    if restart:
        for _ in range(4):
            b.tick()
        return
    if fd >= 2:
        b.req(name, "compromise")
        b.req(name, "fix")
        b.tick()
        b.req(name, "compromise")       # second compromise while the fix is running
        later = []
        for _ in range(fd + 2):
            b.tick()
            later.append(s.health_state_actual.name)
        if any(x != "COMPROMISED" for x in later):
            ck.violation("health-changed-without-event:%s" % name, "%s compromised again during a fix: true health went %s with no new fix" % (name, later),
                         {"software": name, "fixing_duration": fd, "observed": later})
        b.req(name, "fix")
        for _ in range(fd + 1):
            b.tick()


def node_scan_covers(ck, b, name):
    """a whole-node scan covers every installed service and application, whatever its operating state: when it completes the
    visible health of each equals its true health at that moment"""
    s = b.sw(name)
    for state_verb in (None, "pause", "stop", "restart", "close"):
        if state_verb in ("pause", "stop", "restart") and not b.is_service(name):
            continue
        if state_verb == "close" and b.is_service(name):
            continue
        if s.operating_state.name != "RUNNING":
            if b.is_service(name):
                for v in ("enable", "start", "resume"):
                    b.req(name, v)
                for _ in range(4):
                    b.tick()
            else:
                s.operating_state = type(s.operating_state).RUNNING
        if s.operating_state.name != "RUNNING":
            continue
        b.req(name, "scan")
        b.req(name, "compromise")                     # true health changes after it was last seen
        if state_verb:
            s.restart_duration = 5
            b.req(name, state_verb)
        before = (s.operating_state.name, s.health_state_actual.name, s.health_state_visible.name)
        b.apply(name, ("NodeScan",))                 # duration 1: completes in the tick applied here
        ck.evaluations += 1
        ck.case(canon=("node-scan-covers", name, state_verb), nontrivial=state_verb is not None)
        if s.health_state_visible != s.health_state_actual:
            ck.violation("node-scan-left-stale-visible-health:%s" % (state_verb or "running"),
                         "%s (%s) true health %s: the whole-node scan completed but its visible health is still %s"
                         % (name, before[0], s.health_state_actual.name, s.health_state_visible.name),
                         {"software": name, "state": before[0], "true": s.health_state_actual.name, "visible": s.health_state_visible.name})
            return
        b.req(name, "fix")
        for _ in range(8):
            b.tick()


def db_restore_visible(ck):
    """the database file is a file like any other: restoring it from the backup server (explicitly, or at the completion of a
    service fix) is no scan -- what a defender last saw of it must stay what it was until the next scan"""
    from props import c17
    import random as _r
    for last_seen, how in (("GOOD", "restore"), ("GOOD", "fix"), ("CORRUPT", "restore"), ("COMPROMISED", "fix")):
        b = c17.Bench(_r.Random(3), "secret", 3, 0, 2)
        fs = b.srv.file_system
        ctx = {"last_seen": last_seen, "restored_by": how}
        if not b.backup():
            ck.count("skipped:backup-failed")
            continue
        f = fs.get_file("database", "database.db")
        if last_seen != "GOOD":
            f.health_status = type(f.health_status)[last_seen]
        f.scan()
        seen = f.visible_health_status.name
        b.tick()
        if how == "restore":
            b.restore()
        else:
            b.compromise(); b.service("fix")
            for _ in range(4):
                b.tick()
        f2 = fs.get_file("database", "database.db")
        ck.evaluations += 1
        ck.case(canon=("db-restore-visible", last_seen, how), nontrivial=True)
        if f2 is None:
            continue
        if f2.visible_health_status.name != seen:
            ck.violation("visible-health-changed-without-scan:database-file", "database.db was last scanned as %s; after the %s (no scan in between) its visible health is %s"
                         % (seen, "explicit restore from backup" if how == "restore" else "service fix that restores the backup", f2.visible_health_status.name),
                         dict(ctx, visible_before=seen, visible_after=f2.visible_health_status.name, true_health=f2.health_status.name))


def run(ck):
    ck.rule = ("(a) op sequences on a folder with 0-3 files: file scan/repair/corrupt/restore, folder scan/repair/corrupt/restore, whole-node scan, ticks, "
               "for folder scan / restore / node scan durations in {0,1,2,3} incl. overlapping scans and a second corruption during a scan; after every op "
               "(folder health, visible, each file's health, visible) is compared with the model and a shadow of the property decides which visible/true "
               "values may change and when a scan or restore is due; (b) for every service and application type: exact fix timelines per fixing duration and "
               "a second compromise during a fix; (c) the software health correspondence of C13's model")
    coq_props(ck)
    gen_tie.check(ck, ["health", "software", "file", "folder", "nodescan"])
    rng = ck.rng
    coq_in = []
    for k in range(ck.n(220, 1500)):
        nf = rng.choice([0, 1, 2, 2, 3])
        fs_case(ck, nf, rng.choice([0, 1, 2, 3]), rng.choice([0, 1, 2, 3]), rng.choice([0, 1, 2, 3]), gen_fs_ops(rng, nf, rng.randint(6, 24)), coq_in)
    ck.traces += len(coq_in)
    try:
        mism = coq_cases(ck, "From PV Require Import Model.FileHealth.", "run_case", coq_in, name="c14fs", chunk=80)
    except RuntimeError as e:
        ck.broken("correspondence Model.FileHealth.run_case", str(e))
        mism = None
    if mism is not None:
        ck.obligation("correspondence File/Folder/Node scan health = Model.FileHealth on %d op sequences" % len(coq_in), "correspondence", not mism,
                      "" if not mism else "first mismatch: case %d model=%s impl=%s input=%s" % (mism[0][0], mism[0][1][-40:], coq_in[mism[0][0]][1][-40:], coq_in[mism[0][0]][0][:400]))
    db_restore_visible(ck)
    # software
    for fd in (0, 1, 2, 3):
        b = SwBench()
        for name in b.services + b.apps:
            fix_timeline(ck, b, name, fd)
        for name in b.services:
            fix_timeline(ck, b, name, fd, restart=True)
    b = SwBench()
    for name in b.services + b.apps:
        node_scan_covers(ck, b, name)
    sw_in = []
    b0 = SwBench()
    for name in b0.services + b0.apps:
        for k in range(ck.n(1, 6)):
            bb = SwBench()
            d, fd = rng.choice([0, 1, 2, 3]), rng.choice([0, 1, 2, 3])
            bb.set_durations(name, d, fd)
            init = bb.observe(name)
            ops = gen_ops(rng, bb.is_service(name), rng.randint(8, 24), name)
            out = []
            for op in ops:
                r = bb.apply(name, op)
                out += [r] + bb.observe(name)
            ck.case(canon=("sw", name, d, fd, json.dumps(ops)), nontrivial=True)
            sw_in.append(("(%s, %d, %d, %d, %d, %d, %s)" % ("true" if bb.is_service(name) else "false", init[0], init[1], init[2], d, fd, zl(coq_ops(ops))), out))
    ck.traces += len(sw_in)
    try:
        mism = coq_cases(ck, "From PV Require Import Model.Software.", "run_case", sw_in, name="c14sw", chunk=60)
    except RuntimeError as e:
        ck.broken("correspondence Model.Software.run_case", str(e))
        return
    ck.obligation("correspondence software health (fix/scan/compromise/ticks) = Model.Software on %d op sequences" % len(sw_in), "correspondence", not mism,
                  "" if not mism else "first mismatch: case %d model=%s impl=%s input=%s" % (mism[0][0], mism[0][1][-40:], sw_in[mism[0][0]][1][-40:], sw_in[mism[0][0]][0][:400]))


def replay(ck, path):
    run(ck)
