"""C13 -- services and applications follow their lifecycle; only running software works."""
import json
from lib.common import coq_props, coq_cases, zl, Raw
from lib import world, gen_tie
from lib.swbench import SwBench, gen_ops, coq_ops, SVC_SOURCE, APP_SOURCE

SNAME = {1: "RUNNING", 2: "STOPPED", 3: "PAUSED", 4: "DISABLED", 5: "INSTALLING", 6: "RESTARTING"}
ANAME = {1: "RUNNING", 2: "CLOSED", 3: "INSTALLING"}
# documented transitions of a service: (verb) -> {source: target}
SVC_T = {"start": {"STOPPED": "RUNNING"}, "stop": {"RUNNING": "STOPPED"}, "pause": {"RUNNING": "PAUSED"}, "resume": {"PAUSED": "RUNNING"},
         "restart": {"RUNNING": "RESTARTING"}, "enable": {"DISABLED": "STOPPED"}}


NAMES = []


def lifecycle_case(ck, b, name, d, fd, ops, coq_in):
    is_svc = b.is_service(name)
    b.set_durations(name, d, fd)
    init = b.observe(name)
    names = SNAME if is_svc else ANAME
    out = []
    ctx = {"software": name, "restart_or_install_duration": d, "fixing_duration": fd, "ops": [list(o) for o in ops], "initial": init}
    restart_left = None
    for i, op in enumerate(ops):
        before = b.observe(name)
        on_before = b.node.operating_state.name == "ON"
        try:
            r = b.apply(name, op)
        except Exception as e:
            ck.violation("lifecycle-op-raises:%s" % type(e).__name__, "%s on %s raised %r" % (op, name, e), dict(ctx, at=i))
            return
        after = b.observe(name)
        sb, sa = names[before[0]], names[after[0]]
        # ---- the property, directly on the implementation ----
        if op[0] == "Req":
            src = (SVC_SOURCE if is_svc else APP_SOURCE)[op[1]]
            should = on_before and (src is None or sb in src)
            if (r == 1) and not should:
                ck.violation("request-accepted-outside-source-state:%s" % op[1],
                             "%s.%s accepted (success) in state %s, node on=%s; documented source states %s" % (name, op[1], sb, on_before, src), dict(ctx, at=i))
            if not should and after != before:
                ck.violation("refused-request-changed-state:%s" % op[1], "%s.%s in state %s changed %s -> %s" % (name, op[1], sb, before, after), dict(ctx, at=i))
            if should and is_svc and op[1] in SVC_T and sa != SVC_T[op[1]][sb]:
                ck.violation("wrong-transition:%s" % op[1], "%s.%s from %s went to %s, documented target %s" % (name, op[1], sb, sa, SVC_T[op[1]][sb]), dict(ctx, at=i))
            if should and op[1] == "disable" and sa != "DISABLED":
                ck.violation("wrong-transition:disable", "%s.disable from %s went to %s" % (name, sb, sa), dict(ctx, at=i))
            if should and op[1] == "close" and sa != "CLOSED":
                ck.violation("wrong-transition:close", "%s.close from %s went to %s" % (name, sb, sa), dict(ctx, at=i))
            if op[1] == "execute" and sb == "INSTALLING" and sa != "INSTALLING":
                ck.violation("installing-application-opened-by-execute", "%s.execute while INSTALLING moved it to %s: an application works only once its installation has finished" % (name, sa), dict(ctx, at=i))
            if op[1] in ("fix", "scan", "compromise") and sa != sb:
                ck.violation("health-request-changed-operating-state", "%s.%s changed operating state %s -> %s" % (name, op[1], sb, sa), dict(ctx, at=i))
        if op[0] in ("NodeOn", "NodeOff") and sb == "INSTALLING" and sa == "RUNNING":
            ck.violation("installing-application-opened-by-power-cycle", "%s went INSTALLING -> RUNNING on %s" % (name, op[0]), dict(ctx, at=i))
        if op[0] in ("Tick", "NodeScan") and sa != sb:
            if not (is_svc and sb == "RESTARTING" and sa == "RUNNING") and not (not is_svc and sb == "INSTALLING" and sa == "RUNNING"):
                ck.violation("tick-changed-operating-state", "%s moved %s -> %s on a tick" % (name, sb, sa), dict(ctx, at=i))
        # only running software keeps its port open: the open ports are exactly the main and listening ports of the
        # RUNNING port owners
        sm = b.node.software_manager
        expect = []
        for owner in sm.port_protocol_mapping.values():
            if owner.operating_state.name == "RUNNING":
                expect.append(owner.port)
                expect += list(owner.listen_on_ports or [])
        if sorted(sm.get_open_ports()) != sorted(expect):
            ck.violation("open-ports-disagree", "open ports %s differ from the ports of running software %s" % (sorted(sm.get_open_ports()), sorted(expect)), dict(ctx, at=i))
        sw = b.sw(name)
        if sa != "RUNNING" and sw.port != 0 and sm.port_protocol_mapping.get((sw.port, sw.protocol)) is sw and \
                not any(o is not sw and o.operating_state.name == "RUNNING" and (o.port == sw.port or sw.port in (o.listen_on_ports or [])) for o in sm.software.values()) \
                and sw.port in sm.get_open_ports():
            ck.violation("port-open-while-not-running", "%s is %s but its port %s is reported open" % (name, sa, sw.port), dict(ctx, at=i))
        out += [r] + after
    ck.case(canon=(name, d, fd, json.dumps(ops)), nontrivial=any(o[0] == "Req" and o[1] in ("restart", "disable", "pause", "close") for o in ops),
            sample={"software": name, "duration": d, "fixing": fd, "ops": [list(o) for o in ops[:8]], "trace_tail": out[-8:]})
    ck.count("kind:" + ("service" if is_svc else "application"))
    NAMES.append(name)
    coq_in.append(("(%s, %d, %d, %d, %d, %d, %s)" % ("true" if is_svc else "false", init[0], init[1], init[2], d, fd, zl(coq_ops(ops))), out))


def restart_timeline(ck, b, name, d):
    """restart completes after the configured number of ticks: RESTARTING observed for d ticks, RUNNING at tick d+1."""
    s = b.sw(name)
    if s.operating_state.name != "RUNNING":
        return
    s.restart_duration = d
    b.req(name, "restart")
    got = [s.operating_state.name]
    for _ in range(d + 2):
        b.tick()
        got.append(s.operating_state.name)
    want = ["RESTARTING"] * (d + 1) + ["RUNNING"] * 2
    ck.case(canon=("restart", name, d), nontrivial=True)
    if got != want:
        ck.violation("restart-time:%s" % name, "%s restart_duration=%d: observed %s, configured timing gives %s" % (name, d, got, want),
                     {"software": name, "duration": d, "observed": got, "expected": want})


def install_timeline(ck, b, app, d):
    """install completes after max(d, 1) ticks; software list, request routes, node.applications and state agree."""
    from primaite.simulator.system.applications.application import Application
    sm = b.node.software_manager
    node = b.node
    r = b.sim.apply_request(["network", "node", b.name, "software_manager", "application", "uninstall", app])
    def agree(tag):
        sw_names = {n for n, s in sm.software.items() if isinstance(s, Application)}
        routes = set(node._application_request_manager.request_types)
        objs = {a.name for a in node.applications.values()}
        reported = set(node.describe_state().get("applications", {}))
        if not (sw_names == routes == objs == reported):
            ck.violation("registries-disagree", "%s %s: software list %s, request routes %s, node.applications %s, reported %s"
                         % (tag, app, sorted(sw_names), sorted(routes), sorted(objs), sorted(reported)), {"application": app, "phase": tag})
        for key, owner in sm.port_protocol_mapping.items():
            if owner.name not in sm.software or sm.software[owner.name] is not owner:
                ck.violation("stale-port-owner", "%s: port %s still mapped to uninstalled %s" % (tag, key, owner.name), {"application": app})
    agree("after uninstall")
    if app in sm.software:
        ck.violation("uninstall-left-software", "%s still installed after uninstall (status %s)" % (app, r.status), {"application": app})
    r2 = b.sim.apply_request(["network", "node", b.name, "application", app, "scan"])
    if r2.status == "success":
        ck.violation("uninstalled-still-routed", "request to uninstalled %s succeeded" % app, {"application": app})
    cls = Application._registry[app]
    old = getattr(cls, "__fields__", None)
    b.sim.apply_request(["network", "node", b.name, "software_manager", "application", "install", app])
    agree("after install")
    a = sm.software.get(app)
    if a is None:
        ck.violation("install-failed", "%s not installed" % app, {"application": app})
        return
    a.install_countdown = d
    a.install_duration = d
    got = [a.operating_state.name]
    for _ in range(max(d, 1) + 1):
        b.tick()
        got.append(a.operating_state.name)
    want = ["INSTALLING"] * max(d, 1) + ["RUNNING"] * 2
    ck.case(canon=("install", app, d), nontrivial=True)
    if got != want:
        ck.violation("install-time:%s" % app, "%s install_duration=%d: observed %s, configured timing gives %s" % (app, d, got, want),
                     {"application": app, "duration": d, "observed": got, "expected": want})
    # reinstalling an installed application is a no-op that keeps everything in agreement
    b.sim.apply_request(["network", "node", b.name, "software_manager", "application", "install", app])
    agree("after second install")


def shared_port(ck):
    """two software items on one port/protocol: uninstalling the one that does not own the port must not close it."""
    b = SwBench()
    sm = b.node.software_manager
    for (port, proto), owner in list(sm.port_protocol_mapping.items()):
        others = [s for s in sm.software.values() if s.port == port and s.protocol == proto and s is not owner and isinstance(s, b.Application)]
        for o in others:
            was_open = port in sm.get_open_ports()
            b.sim.apply_request(["network", "node", b.name, "software_manager", "application", "uninstall", o.name])
            ck.case(canon=("shared-port", owner.name, o.name), nontrivial=True)
            if sm.port_protocol_mapping.get((port, proto)) is not owner:
                ck.violation("uninstall-took-foreign-port", "uninstalling %s removed the port mapping %s/%s owned by %s" % (o.name, port, proto, owner.name),
                             {"owner": owner.name, "uninstalled": o.name})
            elif was_open and port not in sm.get_open_ports():
                ck.violation("uninstall-closed-foreign-port", "uninstalling %s closed port %s of running %s" % (o.name, port, owner.name),
                             {"owner": owner.name, "uninstalled": o.name})


def run(ck):
    ck.rule = ("for every registered service and application type on a server: random sequences of lifecycle requests (start stop pause resume "
               "restart disable enable close), fix/scan/compromise, ticks, whole-node scans and node power events, for restart/install durations "
               "and fixing durations in {0,1,2,3}; after every op (status, operating state, true health, visible health) is compared with the "
               "model and the documented transition table / source states / port rule are checked directly; plus exact restart and install "
               "timelines and install/uninstall registry agreement; non-trivial = sequence containing restart/disable/pause/close")
    coq_props(ck)
    gen_tie.check(ck, ["service", "software"])
    rng = ck.rng
    coq_in = []
    b = SwBench()
    items = b.services + b.apps
    per = ck.n(8, 24)
    for name in items:
        for k in range(per):
            bb = SwBench()
            lifecycle_case(ck, bb, name, rng.choice([0, 1, 2, 3]), rng.choice([0, 1, 2, 3]), gen_ops(rng, bb.is_service(name), rng.randint(8, 26), name), coq_in)
    for d in (0, 1, 2, 3):
        bb = SwBench()
        for name in bb.services:
            restart_timeline(ck, bb, name, d)
        bb = SwBench()
        for app in bb.apps:
            install_timeline(ck, bb, app, d)
    shared_port(ck)
    ck.traces += len(coq_in)
    try:
        mism = coq_cases(ck, "From PV Require Import Model.Software.", "run_case", coq_in, name="c13", chunk=60)
    except RuntimeError as e:
        ck.broken("correspondence Model.Software.run_case", str(e))
        return
    ck.obligation("correspondence Service/Application lifecycle+health = Model.Software on %d op sequences over %d software types" % (len(coq_in), len(items)),
                  "correspondence", not mism, "" if not mism else "first mismatch: case %d (%s) model=%s impl=%s input=%s" % (
                      mism[0][0], NAMES[mism[0][0]], mism[0][1], coq_in[mism[0][0]][1], coq_in[mism[0][0]][0][:500]))


def replay(ck, path):
    run(ck)
