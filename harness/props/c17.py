"""C17 -- database: password-gated connections, connection-gated queries, restorable data."""
import json, uuid
from lib.common import coq_props, coq_cases, zl, Raw, Opt
from lib import gen_tie

SQL = {"SELECT": 1, "INSERT": 2, "DELETE": 3, "ENCRYPT": 4, "SELECT * FROM pg_stat_activity": 5}
VERBS = {"start": "Start", "stop": "Stop", "pause": "Pause", "resume": "Resume", "restart": "Restart", "fix": "Fix", "disable": "Disable", "enable": "Enable"}
PW = {"secret": 7, "wrong": 8, None: None}


class Bench:
    """two clients -- switch -- router -- switch -- database server + backup (FTP) server."""
    _n = 0

    def __init__(self, rng, password, max_sessions, restart_d, fix_d):
        from primaite.simulator.sim_container import Simulation
        from primaite.simulator.network.hardware.nodes.host.computer import Computer
        from primaite.simulator.network.hardware.nodes.host.server import Server
        from primaite.simulator.network.hardware.nodes.network.switch import Switch
        from primaite.simulator.network.hardware.nodes.network.router import Router, ACLAction
        Bench._n += 1
        self.rng = rng
        sim = self.sim = Simulation()
        net = sim.network
        z = {"start_up_duration": 0, "shut_down_duration": 0}
        sw1 = Switch.from_config(config=dict(type="switch", hostname="sw1", num_ports=4, **z))
        sw2 = Switch.from_config(config=dict(type="switch", hostname="sw2", num_ports=4, **z))
        r = self.router = Router.from_config(config=dict(type="router", hostname="r1", num_ports=2, **z))
        self.clients = [Computer.from_config(config=dict(type="computer", hostname="c%d" % i, ip_address="10.0.1.%d" % (10 + i), subnet_mask="255.255.255.0",
                                                          default_gateway="10.0.1.1", **z))
                        for i in (0, 1)]
        dbopts = {} if password is None else {"db_password": password}
        self.srv = Server.from_config(config=dict(type="server", hostname="srv", ip_address="10.0.2.10", subnet_mask="255.255.255.0", default_gateway="10.0.2.1", **z))
        self.bk = Server.from_config(config=dict(type="server", hostname="bk", ip_address="10.0.2.11", subnet_mask="255.255.255.0", default_gateway="10.0.2.1", **z))
        for n in [sw1, sw2, r, self.srv, self.bk] + self.clients:
            net.add_node(n)
            n.power_on()
        r.configure_port(1, "10.0.1.1", "255.255.255.0")
        r.configure_port(2, "10.0.2.1", "255.255.255.0")
        net.connect(sw1.network_interface[4], r.network_interface[1], bandwidth=1000000)
        net.connect(sw2.network_interface[4], r.network_interface[2], bandwidth=1000000)
        r.enable_port(1); r.enable_port(2)
        r.acl.add_rule(action=ACLAction.PERMIT, position=20)
        for i, c in enumerate(self.clients):
            net.connect(sw1.network_interface[i + 1], c.network_interface[1], bandwidth=1000000)
        net.connect(sw2.network_interface[1], self.srv.network_interface[1], bandwidth=1000000)
        net.connect(sw2.network_interface[2], self.bk.network_interface[1], bandwidth=1000000)
        from primaite.simulator.system.services.database.database_service import DatabaseService
        from primaite.simulator.system.services.ftp.ftp_server import FTPServer
        from primaite.simulator.system.applications.database_client import DatabaseClient
        self.srv.software_manager.install(DatabaseService, software_config=DatabaseService.ConfigSchema(backup_server_ip="10.0.2.11", **dbopts))
        self.bk.software_manager.install(FTPServer)
        for c in self.clients:
            c.software_manager.install(DatabaseClient, software_config=DatabaseClient.ConfigSchema(db_server_ip="10.0.2.10"))
            c.software_manager.software["database-client"].run()
        self.db = self.srv.software_manager.software["database-service"]
        if self.db.backup_server_ip is None:
            self.db.configure_backup("10.0.2.11")
        self.db.max_sessions = max_sessions
        self.db.restart_duration = restart_d
        self.db.config.fixing_duration = fix_d
        self.password = password
        self.ord = {}                 # server connection id -> ordinal of issue
        self.handles = []             # (client index, handle)
        self.events = []              # (coq op text, [code] + observation) in order of arrival / application
        self.blocked = False
        self.bk_down = None
        self.t = 1
        self._sent = None
        self._hook()

    # ---- observation ------------------------------------------------------------------------------
    def file_health(self):
        f = self.db.db_file
        return 0 if f is None else f.health_status.value

    def backup_health(self):
        f = self.bk.file_system.get_file(folder_name=str(self.db.uuid), file_name="database.db")
        return 0 if f is None else f.health_status.value

    def observe(self):
        db = self.db
        return [1 if self.srv.operating_state.name == "ON" else 0, db.operating_state.value, db.health_state_actual.value, len(db.connections),
                self.file_health(), self.backup_health()]

    def note(self):
        for cid in self.db.connections:
            if cid not in self.ord:
                self.ord[cid] = len(self.ord)

    def _hook(self):
        db, b = self.db, self
        o_recv, o_send = db.receive, db.send

        def send(payload, session_id, **kw):
            b._sent = payload.get("status_code")
            return o_send(payload=payload, session_id=session_id, **kw)

        def recv(payload, session_id, **kw):
            b._sent = None
            before = set(db.connections)
            r = o_recv(payload=payload, session_id=session_id, **kw)
            code = -1 if b._sent is None else b._sent
            b.note()
            if isinstance(payload, dict):
                t = payload.get("type")
                if t == "connect_request":
                    op = "Connect %s" % zl(Opt(PW.get(payload.get("password"), 9)))
                elif t == "sql":
                    op = "Query %d %s" % (b.ord.get(payload.get("connection_id"), 99), {1: "SELECT", 2: "INSERT", 3: "DELETE", 4: "ENCRYPT", 5: "PGSTAT"}.get(SQL.get(payload.get("sql")), "UNKNOWN"))
                elif t == "disconnect":
                    cid = payload.get("connection_id")
                    own = True
                    if cid in before:
                        own = before and (str(kw.get("frame").ip.src_ip_address) == str(b._conn_ip.get(cid)))
                    op = "Disconnect %d %s" % (b.ord.get(cid, 99), "true" if own else "false")
                else:
                    op = None
                if op:
                    b.events.append((op, [code] + b.observe(), {"arrived": t, "code": code}))
            return r
        object.__setattr__(db, "receive", recv)
        object.__setattr__(db, "send", send)
        self._conn_ip = {}
        o_add = db.add_connection

        def add(connection_id, session_id=None):
            ok = o_add(connection_id=connection_id, session_id=session_id)
            if ok:
                b._conn_ip[connection_id] = db._connections[connection_id]["ip_address"]
            return ok
        object.__setattr__(db, "add_connection", add)

    def ev(self, op, code):
        self.note()
        self.events.append((op, [code] + self.observe(), {"applied": op}))

    # ---- operations -------------------------------------------------------------------------------
    def client_app(self, k):
        return self.clients[k].software_manager.software.get("database-client")

    def connect(self, k, pw):
        c = self.client_app(k)
        if c is None:
            return None
        c.server_password = pw
        n0 = len(self.events)
        h = c.get_new_connection()
        if h is not None:
            self.handles.append((k, h))
        return h, self.events[n0:]

    def query(self, hi, sql, raw):
        k, h = self.handles[hi]
        c = self.client_app(k)
        n0 = len(self.events)
        if raw and c is not None:
            r = c._query(sql, connection_id=h.connection_id)          # bypasses the handle's own is_active gate: a stale id
        else:
            r = h.query(sql)
        return bool(r), self.events[n0:], h.connection_id

    def forged_query(self, k, sql):
        c = self.client_app(k)
        if c is None:
            return None
        n0 = len(self.events)
        r = c._query(sql, connection_id=str(uuid.uuid4()))
        return bool(r), self.events[n0:]

    def foreign_disconnect(self, k, hi):
        """client k sends a disconnect for a connection that belongs to the other client."""
        _k2, h = self.handles[hi]
        self.clients[k].software_manager.send_payload_to_session_manager(payload={"type": "disconnect", "connection_id": h.connection_id},
                                                                         dest_ip_address=self.srv.network_interface[1].ip_address, dest_port=self.db.port)

    def service(self, verb):
        r = self.sim.apply_request(["network", "node", "srv", "service", "database-service", verb])
        self.ev("Sw (Req %s)" % VERBS[verb], 1 if r.status == "success" else 2)

    def compromise(self):
        from primaite.simulator.system.software import SoftwareHealthState
        if self.srv.operating_state.name == "ON":
            self.db.set_health_state(SoftwareHealthState.COMPROMISED)
            self.ev("Sw (Req Compromise)", 1)

    def power(self, on):
        r = self.sim.apply_request(["network", "node", "srv", "startup" if on else "shutdown"])
        self.ev("Sw %s" % ("NodeOn" if on else "NodeOff"), 1)

    def backup(self):
        r = self.db.backup_database()
        self.ev("Backup", 1 if r else 0)
        return r

    def restore(self):
        r = self.db.restore_backup()
        self.ev("Restore", 1 if r else 0)
        return r

    def file_delete(self):
        r = self.sim.apply_request(["network", "node", "srv", "file_system", "delete", "file", "database", "database.db"])
        if r.status == "success":
            self.ev("FileDelete", 1)

    def bk_toggle(self):
        ftp = self.bk.software_manager.software["ftp-server"]
        if self.bk_down is None:
            how = self.rng.choice(["service", "nic", "node"])
            if how == "service":
                ftp.stop()
            elif how == "nic":
                self.bk.network_interface[1].disable()
            else:
                self.sim.apply_request(["network", "node", "bk", "shutdown"])
            self.bk_down = how
            self.ev("BkUp false", 1)
        else:
            if self.bk_down == "service":
                ftp.start()
            elif self.bk_down == "nic":
                self.bk.network_interface[1].enable()
            else:
                self.sim.apply_request(["network", "node", "bk", "startup"])
            self.bk_down = None
            self.ev("BkUp true", 1)

    def block(self, on):
        from primaite.simulator.network.hardware.nodes.network.router import ACLAction
        if on and not self.blocked:
            self.router.acl.add_rule(action=ACLAction.DENY, position=1, dst_ip_address="10.0.2.10", protocol="tcp")
        elif not on and self.blocked:
            self.router.acl.remove_rule(1)
        self.blocked = on

    def tick(self):
        self.t += 1
        self.sim.pre_timestep(self.t)
        self.sim.apply_timestep(self.t)
        self.ev("Sw Tick", 1)

    def uninstall(self, k):
        n0 = len(self.events)
        self.clients[k].software_manager.uninstall("database-client")
        return self.events[n0:]


def one_case(ck, rng, coq_in, length):
    password = rng.choice(["secret", "secret", None])
    mx = rng.choice([1, 2, 3, 3])
    b = Bench(rng, password, mx, rng.choice([0, 1, 2]), rng.choice([1, 2, 3]))
    db = b.db
    init = "(mkdb 1 %d %d %d %d %s %d %d 1)" % (db.operating_state.value, db.health_state_actual.value, db.restart_duration, db.config.fixing_duration,
                                               zl(Opt(PW[password])), mx, b.file_health())
    ctx = {"password": password, "max_sessions": mx, "restart_duration": db.restart_duration, "fixing_duration": db.config.fixing_duration, "ops": []}
    closed = set()           # connection ids the server has closed (own disconnect arrived)
    backup_good = False

    def violation(sig, what):
        ck.violation(sig, what, dict(ctx))
    for step in range(length):
        x = rng.random()
        # keep the history lively: when the service is unavailable, half of the time do something that may bring it back
        if rng.random() < 0.5:
            if b.srv.operating_state.name != "ON":
                x = 0.72
            elif db.operating_state.name != "RUNNING":
                ctx["ops"].append(["service", "recover"])
                b.service({"STOPPED": "start", "PAUSED": "resume", "DISABLED": "enable"}.get(db.operating_state.name, "start"))
                continue
            elif b.blocked:
                x = 0.93
            elif not b.handles or all(h.connection_id not in db.connections for _k, h in b.handles):
                x = 0.1
        srv_on = b.srv.operating_state.name == "ON"
        running = db.operating_state.name == "RUNNING"
        conns_before = set(db.connections)
        file_before = b.file_health()
        n_before = len(db.connections)
        if x < 0.2:
            k, pw = rng.randrange(2), rng.choice([password, password, password, "wrong", None])
            ctx["ops"].append(["connect", k, pw])
            r = b.connect(k, pw)
            if r is None:
                continue
            h, evs = r
            ck.count("op:connect:%s" % ("right" if pw == password else "wrong"))
            if h is not None:
                ok = (pw == password) and srv_on and running and n_before < mx and not b.blocked
                if not ok:
                    violation("connection-opened-wrongly:%s" % ("password" if pw != password else "capacity" if n_before >= mx else "unavailable"),
                              "a client obtained a connection with password %r (configured %r), server on=%s running=%s, %d/%d connections, path blocked=%s"
                              % (pw, password, srv_on, running, n_before, mx, b.blocked))
                if h.connection_id not in db.connections:
                    violation("client-handle-without-server-connection", "the client holds connection %s which the server does not list" % h.connection_id)
        elif x < 0.45 and b.handles:
            hi, sql, raw = rng.randrange(len(b.handles)), rng.choice(list(SQL) + ["DROP TABLE", "SELECT", "DELETE"]), rng.random() < 0.35
            ctx["ops"].append(["query", hi, sql, raw])
            ok, evs, cid = b.query(hi, sql, raw)
            ck.count("op:query:%s" % ("stale" if cid not in conns_before else "live"))
            answered200 = any(e[2].get("arrived") == "sql" and e[2]["code"] == 200 for e in evs)
            if ok and not answered200:
                violation("query-reported-successful-without-server-success", "query %r on connection %s returned True but the server did not answer 200 (arrivals %s; server on=%s running=%s blocked=%s)"
                          % (sql, "live" if cid in conns_before else "closed/unknown", [e[2] for e in evs], srv_on, running, b.blocked))
            if answered200 and cid not in conns_before:
                violation("query-served-on-closed-connection", "the server ran %r for connection id %s which it had not issued or had closed" % (sql, cid))
            if answered200 and sql == "DELETE" and b.file_health() != 2:
                violation("delete-did-not-compromise", "DELETE answered 200 but database.db health is %d" % b.file_health())
            if answered200 and sql == "ENCRYPT" and b.file_health() != 3:
                violation("encrypt-did-not-corrupt", "ENCRYPT answered 200 but database.db health is %d" % b.file_health())
            if sql == "SELECT" and file_before == 2 and ok:
                violation("read-of-compromised-data-succeeded", "SELECT returned True while database.db is COMPROMISED")
            if not answered200 and b.file_health() != file_before:
                violation("file-changed-by-refused-query", "query %r was not served but database.db health went %d -> %d" % (sql, file_before, b.file_health()))
        elif 0.45 <= x < 0.5:
            k, sql = rng.randrange(2), rng.choice(["SELECT", "DELETE", "ENCRYPT"])
            ctx["ops"].append(["forged-query", k, sql])
            r = b.forged_query(k, sql)
            ck.count("op:query:forged")
            if r is not None and (r[0] or b.file_health() != file_before):
                violation("query-served-on-forged-connection", "a query %r with a made-up connection id was %s" % (sql, "reported successful" if r[0] else "executed"))
        elif x < 0.58 and b.handles:
            hi = rng.randrange(len(b.handles))
            k, h = b.handles[hi]
            if rng.random() < 0.3:
                ctx["ops"].append(["foreign-disconnect", 1 - k, hi])
                b.foreign_disconnect(1 - k, hi)
                ck.count("op:disconnect:foreign")
                if h.connection_id in conns_before and h.connection_id not in db.connections:
                    violation("connection-closed-by-another-client", "a disconnect sent from another address closed connection %s" % h.connection_id)
            else:
                ctx["ops"].append(["disconnect", hi])
                n0 = len(b.events)
                app = b.client_app(k)
                able = (app is not None and h.is_active and b.clients[k].operating_state.name == "ON" and app.operating_state.name == "RUNNING"
                        and srv_on and running and not b.blocked and h.connection_id in conns_before and getattr(h, "client", app) is app)
                h.disconnect()
                ck.count("op:disconnect:own")
                if any(e[2].get("arrived") == "disconnect" for e in b.events[n0:]) and h.connection_id not in db.connections:
                    closed.add(h.connection_id)
                if able and h.connection_id in db.connections:
                    # the client closed a connection of its own over an open path to a running server: the server must not keep serving it
                    violation("closed-connection-still-open-on-server", "the client closed connection %s (client and server on and running, path open; disconnect arrived: %s) "
                              "but the server still lists it, so queries quoting it would still run"
                              % (h.connection_id, any(e[2].get("arrived") == "disconnect" for e in b.events[n0:])))
        elif x < 0.6:
            k = rng.randrange(2)
            ctx["ops"].append(["client-uninstall-reinstall", k])
            mine = [h.connection_id for kk, h in b.handles if kk == k and h.connection_id in conns_before]
            b.uninstall(k)
            ck.count("op:client-uninstall")
            # (what the server does with the disconnects that reach it is compared with the model; the property does not say
            #  that an uninstall must close connections, e.g. ones whose client-side handle was dropped while the server was off)
            closed.update(c for c in mine if c not in db.connections)
            from primaite.simulator.system.applications.database_client import DatabaseClient
            b.clients[k].software_manager.install(DatabaseClient, software_config=DatabaseClient.ConfigSchema(db_server_ip="10.0.2.10"))
            b.clients[k].software_manager.software["database-client"].run()
        elif x < 0.68:
            verb = rng.choice(list(VERBS))
            ctx["ops"].append(["service", verb])
            b.service(verb)
            ck.count("op:service")
        elif x < 0.71:
            ctx["ops"].append(["compromise"])
            b.compromise()
        elif x < 0.76:
            ctx["ops"].append(["server-power", not srv_on])
            b.power(not srv_on)
            ck.count("op:power")
        elif x < 0.81:
            ctx["ops"].append(["backup"])
            r = b.backup()
            ck.count("op:backup")
            if r:
                backup_good = file_before == 1
                if not (srv_on and running):
                    violation("backup-while-unavailable", "backup_database succeeded with server on=%s running=%s" % (srv_on, running))
        elif x < 0.87:
            ctx["ops"].append(["restore"])
            r = b.restore()
            ck.count("op:restore")
            if r and not (srv_on and running and b.bk_down is None):
                violation("restore-while-unavailable", "restore_backup succeeded with server on=%s running=%s backup server down=%s" % (srv_on, running, b.bk_down))
            if r and backup_good and b.file_health() != 1:
                violation("restore-of-good-backup-not-good", "restore_backup of a backup taken while healthy left database.db with health %d" % b.file_health())
        elif x < 0.89:
            ctx["ops"].append(["file-delete"])
            b.file_delete()
        elif x < 0.92:
            ctx["ops"].append(["backup-server-toggle"])
            b.bk_toggle()
        elif x < 0.95:
            ctx["ops"].append(["block", not b.blocked])
            b.block(not b.blocked)
            ck.count("op:block")
        else:
            ctx["ops"].append(["tick"])
            b.tick()
            ck.count("op:tick")
        # whatever happened: closed connections stay closed, capacity holds
        if len(db.connections) > mx:
            violation("more-connections-than-capacity", "%d connections with max_sessions %d" % (len(db.connections), mx))
        back = closed & set(db.connections)
        if back:
            violation("closed-connection-listed-again", "connection %s was closed and is listed again" % sorted(back)[0])
    ops = [e[0] for e in b.events]
    out = [v for e in b.events for v in e[1]] + [b.ord[c] for c in db.connections]
    coq_in.append(("(%s, %s)" % (init, zl([Raw(o) for o in ops])), out))
    ck.case(canon=json.dumps(ctx["ops"]), nontrivial=any(e[1][0] == 200 for e in b.events),
            sample={"password": password, "max_sessions": mx, "ops": ctx["ops"][:12], "server_events": ops[:12]} if len(ck.samples) < 3 else None)
    ck.evaluations += len(b.events)
    return b


def tick1_backup(ck):
    """the mechanism named in the property: the service backs itself up at tick 1, and a fix ends with a restore."""
    import random
    b = Bench(random.Random(1), "secret", 3, 1, 2)
    b.t = 0
    b.tick()
    if b.backup_health() != 1:
        ck.violation("no-backup-at-tick-1", "after timestep 1 the backup server holds no healthy copy (health %d)" % b.backup_health(), {})
    h, _ = b.connect(0, "secret")
    h.query("DELETE")
    if b.file_health() != 2:
        ck.violation("delete-did-not-compromise", "DELETE left database.db with health %d" % b.file_health(), {})
    b.service("fix")
    for _ in range(3):
        b.tick()
    if b.file_health() != 1 or b.db.health_state_actual.name != "GOOD":
        ck.violation("fix-did-not-restore", "after a completed fix database.db health is %d, service health %s" % (b.file_health(), b.db.health_state_actual.name), {})
    ck.case(canon="tick1-backup-fix-restore", nontrivial=True)
    return b


def run(ck):
    ck.rule = ("random and directed histories on two clients, a router, a database server and a backup (FTP) server: connect with right / wrong / no password "
               "(service with and without a password, capacity 1-3), queries SELECT / INSERT / DELETE / ENCRYPT / connection check / unknown through live "
               "handles, through closed handles with the client-side gate bypassed, and with made-up connection ids, own and foreign disconnects, client "
               "uninstall, service start/stop/pause/resume/restart/fix/disable/enable, compromise, server power off/on, backup, restore, deletion of "
               "database.db, backup server down (service / interface / node), ACL block of the path, ticks; every request that reaches the server and every "
               "server-side operation is fed to Model.Database and status code, lifecycle state, health, connection count, file and backup health are "
               "compared after each; the clauses of the property are also checked directly on client results; non-trivial = a history with a 200 answer")
    coq_props(ck)
    gen_tie.check(ck, ["database", "dbservice"])
    rng = ck.rng
    coq_in = []
    benches = []
    for k in range(ck.n(60, 500)):
        benches.append(one_case(ck, rng, coq_in, rng.randint(12, 40)))
    b = tick1_backup(ck)
    ck.traces += len(coq_in)
    try:
        mism = coq_cases(ck, "From PV Require Import Model.Software Model.Database.", "Database.run_case", coq_in, name="c17", chunk=60)
    except RuntimeError as e:
        ck.broken("correspondence Model.Database.run_case", str(e))
        mism = None
    if mism is not None:
        det = ""
        if mism:
            i, mo = mism[0]
            im = coq_in[i][1]
            j = next((t for t in range(0, max(len(mo), len(im)), 7) if mo[t:t + 7] != im[t:t + 7]), 0)
            ops = benches[i].events
            det = "%d mismatching histories; first: history %d event %d (%s): model %s impl %s; events so far %s" % (
                len(mism), i, j // 7, ops[j // 7][0] if j // 7 < len(ops) else "final connection list", mo[j:j + 7], im[j:j + 7], [e[0] for e in ops[:j // 7 + 1]][-14:])
        ck.obligation("correspondence DatabaseService (connect / sql / disconnect / backup / restore / lifecycle / fix) = Model.Database on %d histories" % len(coq_in),
                      "correspondence", not mism, det)


def replay(ck, path):
    run(ck)
