"""C03 -- same scenario, seed and actions give the same trajectory, in any process."""
import json, os, shutil, subprocess, sys, tempfile
from concurrent.futures import ThreadPoolExecutor
from lib.common import coq_props, coq_cases, zl, Raw, VERIF
from lib import world, gen_tie

WORKER = os.path.join(VERIF, "harness", "workers", "traj_worker.py")
UC7_NODES = ["ST_PROJ-A-PRV-PC-1", "ST_PROJ-B-PRV-PC-2", "ST_PROJ-C-PRV-PC-3"]


def run_worker(ck, spec, hashseed, tag):
    d = tempfile.mkdtemp(prefix="c03_", dir=ck.scratch)
    sp = os.path.join(d, "spec.json")
    json.dump(spec, open(sp, "w"))
    env = dict(os.environ)
    env.update({"PYTHONHASHSEED": str(hashseed), "HOME": d, "PYTHONPATH": os.environ.get("PYTHONPATH", "")})
    try:
        p = subprocess.run([sys.executable, WORKER, sp], capture_output=True, text=True, env=env, timeout=1500, cwd=d)
        if p.returncode != 0:
            return None, p.stderr[-1500:]
        return [json.loads(l) for l in p.stdout.splitlines() if l.startswith("{")], ""
    finally:
        shutil.rmtree(d, ignore_errors=True)


def compare(ck, name, spec, runs):
    """runs: {variant name: trajectory}.  First divergence between any variant and the reference, and between episodes."""
    ref_name = next(iter(runs))
    ref = runs[ref_name]
    for vname, tr in runs.items():
        if vname == ref_name:
            continue
        for i, (a, b) in enumerate(zip(ref, tr)):
            ck.evaluations += 1
            if a != b:
                fields = [k for k in a if a.get(k) != b.get(k)]
                brief = ""
                if "acts_brief" in fields or "acts" in fields:
                    da = {k: (a["acts_brief"].get(k), b.get("acts_brief", {}).get(k)) for k in a.get("acts_brief", {}) if a["acts_brief"].get(k) != b.get("acts_brief", {}).get(k)}
                    brief = "; agents that acted differently: %s" % json.dumps(da)[:500]
                kind = "logging" if vname.split("/")[1] != ref_name.split("/")[1] and vname.split("/")[0] == ref_name.split("/")[0] else "process"
                ck.violation("trajectory-differs-between-runs:%s:%s" % (kind, ",".join(sorted(f for f in fields if f != "acts_brief"))[:60]),
                             "%s: runs %s and %s (same scenario, seed, actions) differ at episode %s step %s in %s%s"
                             % (name, ref_name, vname, a.get("ep"), a.get("t"), fields, brief),
                             {"scenario": name, "spec": spec, "variants": [ref_name, vname], "episode": a.get("ep"), "step": a.get("t"), "fields": fields})
                break
        if len(ref) != len(tr):
            ck.violation("trajectory-length-differs", "%s: runs %s and %s have %d and %d records" % (name, ref_name, vname, len(ref), len(tr)), {"scenario": name, "spec": spec})
    # re-seeding on reset reproduces the same episode again (within one process)
    eps = {}
    for rec in ref:
        eps.setdefault(rec["ep"], []).append({k: v for k, v in rec.items() if k != "ep"})
    keys = sorted(eps)
    for e in keys[1:]:
        if eps[e] != eps[keys[0]]:
            i = next((j for j, (x, y) in enumerate(zip(eps[keys[0]], eps[e])) if x != y), None)
            ck.violation("reseeded-episode-differs", "%s: episode %d after reset(seed=%s) differs from episode %d after the same reset at record %s"
                         % (name, e, spec["reset_seed"], keys[0], i), {"scenario": name, "spec": spec, "episode": e, "record": i})
            break


def explode_cases(ck, coq_in):
    from ipaddress import IPv4Address, IPv4Network
    from primaite.simulator.system.applications.nmap import NMAP
    rng = ck.rng
    for k in range(ck.n(120, 600)):
        items, terms = [], []
        for _ in range(rng.randint(1, 5)):
            if rng.random() < 0.5:
                a = rng.choice([1, 2, 3, 5, 6, 9]) + (10 << 24)
                items.append(IPv4Address(a)); terms.append(Raw("Addr %d" % a))
            else:
                base = (10 << 24) + rng.choice([0, 4, 8])
                pl = rng.choice([30, 29])
                net = IPv4Network((base, pl), strict=False)
                hosts = [int(h) for h in net.hosts()]
                items.append(net); terms.append(Raw("Net %d %d%%nat" % (hosts[0], len(hosts))))
        got = [int(x) for x in NMAP._explode_ip_address_network_array(items)]
        coq_in.append((zl(terms), got))
        ck.case(canon=("explode", str(items)), nontrivial=len(got) < sum(1 if isinstance(i, IPv4Address) else i.num_addresses - 2 for i in items))


def run(ck):
    ck.rule = ("each scenario (generated families with stochastic scripted agents, data_manipulation, UC7 with TAP001 given three starting nodes, UC7 TAP003) is "
               "run in separate interpreter processes -- PYTHONHASHSEED 0 / 1 / 12345 (/ random in thorough), all logging and output off or fully on at DEBUG -- "
               "with the same configured seed and the same action sequence for several episodes each started by reset(seed=s); observation digests, rewards, "
               "every agent's action / parameters / response and the per-agent histories (uuids and MACs replaced by ordinals) are compared record by "
               "record between processes and between the re-seeded episodes; plus nmap's target enumeration against Model.Determinism")
    coq_props(ck)
    gen_tie.check(ck, ["determinism"])
    coq_in = []
    explode_cases(ck, coq_in)
    ck.traces += len(coq_in)
    try:
        mism = coq_cases(ck, "From PV Require Import Model.Determinism.", "Determinism.run_case", coq_in, name="c03", chunk=300)
    except RuntimeError as e:
        ck.broken("correspondence Model.Determinism.run_case", str(e))
        mism = None
    if mism is not None:
        ck.obligation("correspondence NMAP._explode_ip_address_network_array = Model.Determinism.explode (order included) on %d requests" % len(coq_in), "correspondence",
                      not mism, "" if not mism else "first mismatch: case %d model=%s impl=%s input=%s" % (mism[0][0], mism[0][1], coq_in[mism[0][0]][1], coq_in[mism[0][0]][0]))
    scen = []
    for k in range(ck.n(3, 10)):
        scen.append(("family/%d" % (ck.seed + k), {"kind": "family", "seed": ck.seed + k}, ck.n(12, 25), None))
    scen.append(("pkg/data_manipulation.yaml", {"kind": "file", "path": world.PKG + "/data_manipulation.yaml"}, ck.n(40, 128), None))
    scen.append(("pkg/uc7_config.yaml + 3 starting nodes", {"kind": "file", "path": world.PKG + "/uc7_config.yaml"}, ck.n(14, 60), UC7_NODES))
    if not ck.quick:
        scen.append(("pkg/uc7_config_tap003.yaml", {"kind": "file", "path": world.PKG + "/uc7_config_tap003.yaml"}, 40, UC7_NODES))
        pass    # data_manipulation_marl.yaml has two learning agents: not a PrimaiteGymEnv scenario
    # the attacker that keeps re-scanning after exhausting its network list (idle defender so that it gets there)
    scen.append(("pkg/uc7_config.yaml + attacker rescanning", {"kind": "file", "path": world.PKG + "/uc7_config.yaml"}, ck.n(45, 70), "rescan"))
    variants = [("hash0", 0, False), ("hash1", 1, False), ("hash12345", 12345, True), ("hash0", 0, True)]
    if not ck.quick:
        variants += [("hashrandom", "random", False), ("hash777", 777, True)]
    jobs = []
    for name, sc, steps, taps in scen:
        for gs in ([3, 0] if ck.quick else [3, 11, 0]):         # 0: a legal seed that is falsy in Python
            spec = {"scenario": sc, "game_seed": gs, "reset_seed": (gs + 100) if gs else 0, "action_seed": 5, "steps": steps, "episodes": 2, "max_episode_length": steps + 5}
            if taps == "rescan":
                spec["tap_rescan"] = True
                spec["idle"] = True
                if gs != 3:
                    continue
            elif taps:
                spec["tap_starting_nodes"] = taps
            for vname, hs, logging in variants:
                jobs.append((name, gs, dict(spec, logging=logging), hs, "%s/%s" % (vname, "logs-on" if logging else "logs-off")))

    def do(j):
        name, gs, spec, hs, tag = j
        return j, run_worker(ck, spec, hs, tag)
    results = {}
    with ThreadPoolExecutor(max_workers=12) as ex:
        for j, (tr, err) in ex.map(do, jobs):
            name, gs, spec, hs, tag = j
            if tr is None:
                if "has_single_proxy" in err or "rl_agents" in err or "StopIteration" in err:
                    ck.count("skipped:no-single-learning-agent")
                    continue
                ck.violation("run-failed:%s" % tag.split("/")[1], "%s (%s): the worker process failed: %s" % (name, tag, err[-400:]), {"scenario": name, "spec": spec, "variant": tag})
                continue
            results.setdefault((name, gs), {})[tag] = tr
            ck.count("process-runs")
    for (name, gs), runs in results.items():
        spec = next(j[2] for j in jobs if j[0] == name and j[1] == gs)
        compare(ck, name, spec, runs)
        acted = any(any(v[0] not in (None, "do-nothing") for v in rec.get("acts_brief", {}).values()) for rec in next(iter(runs.values())))
        ck.case(canon=(name, gs), nontrivial=acted, sample={"scenario": name, "game_seed": gs, "variants": sorted(runs), "records": len(next(iter(runs.values())))} if len(ck.samples) < 4 else None)


def replay(ck, path):
    run(ck)
