"""C08 -- packets reach exactly their addressee via best routes, and forwarding ends."""
import itertools, json
from ipaddress import IPv4Address, IPv4Network
from lib.common import coq_props, coq_cases, coq_compute, zl, Raw, Opt
from lib import world, family, gen_tie

PREFIXES = [("10.0.0.0", "255.0.0.0"), ("10.1.0.0", "255.255.0.0"), ("10.1.1.0", "255.255.255.0"), ("10.1.1.128", "255.255.255.128"),
            ("10.1.1.5", "255.255.255.255"), ("10.1.1.77", "255.255.255.0"), ("172.16.0.0", "255.240.0.0")]
METRICS = [0.0, 0.25, 1.0, 5.0]
DESTS = ["10.1.1.5", "10.1.1.200", "10.1.2.9", "10.9.9.9", "172.20.1.1", "192.168.7.7"]


def ipi(s):
    return int(IPv4Address(s))


def spec_best(routes, default_hop, d):
    """the property: longest prefix, then lowest metric, first in table order on a full tie; default as last resort."""
    best = None
    for k, (a, m, hop, me) in enumerate(routes):
        net = IPv4Network("%s/%s" % (a, m), strict=False)
        if IPv4Address(d) in net:
            key = (-net.prefixlen, me, k)
            if best is None or key < best[0]:
                best = (key, hop)
    if best is not None:
        return best[1]
    return default_hop


def table_case(ck, routes, default_hop, coq_in, ctx_label):
    from primaite.simulator.network.hardware.nodes.network.router import RouteTable
    from primaite.simulator.system.core.sys_log import SysLog
    rt = RouteTable(sys_log=SysLog("c08"))
    for (a, m, hop, me) in routes:
        rt.add_route(address=a, subnet_mask=m, next_hop_ip_address=hop, metric=me)
    if default_hop:
        rt.set_default_route_next_hop_ip_address(default_hop)
    got, want = [], []
    for d in DESTS:
        r = rt.find_best_route(d)
        got.append(ipi(str(r.next_hop_ip_address)) if r else -2)
        w = spec_best(routes, default_hop, d)
        want.append(ipi(w) if w else -2)
    ck.case(canon=(json.dumps(routes), default_hop), nontrivial=len(routes) >= 2,
            sample={"routes": routes, "default": default_hop, "chosen_next_hops": got} if len(routes) >= 3 else None)
    ck.count("table-size:%d" % len(routes))
    if got != want:
        k = next(i for i in range(len(got)) if got[i] != want[i])
        ck.violation("best-route", "destination %s: find_best_route chose next hop %s, longest-prefix/lowest-metric gives %s (table %s, default %s)"
                     % (DESTS[k], got[k], want[k], routes, default_hop), {"routes": routes, "default": default_hop, "destination": DESTS[k]})
    rs = [Raw("mk %d %d %d %d %d" % (ipi(a) & ipi(m), ipi(m), IPv4Network("%s/%s" % (a, m), strict=False).prefixlen, ipi(hop), int(me * 4)))
          for (a, m, hop, me) in routes]
    # the model compares addresses under the mask, so the unmasked address is fine too; keep what the table holds
    rs = [Raw("mk %d %d %d %d %d" % (ipi(a), ipi(m), IPv4Network("%s/%s" % (a, m), strict=False).prefixlen, ipi(hop), int(me * 4)))
          for (a, m, hop, me) in routes]
    dflt = "None" if not default_hop else "(Some (mk 0 0 0 %d 0))" % ipi(default_hop)
    coq_in.append(("(%s, %s, %s)" % (zl(rs), dflt, zl([ipi(d) for d in DESTS])), got))


def gen_table(rng, n):
    routes = []
    for k in range(n):
        a, m = rng.choice(PREFIXES)
        routes.append((a, m, "192.168.0.%d" % (k + 1), rng.choice(METRICS)))
    return routes


# ---- topology level ---------------------------------------------------------------------------------------------
class NetMon:
    """wrappers on a built network: who handed a unicast payload to software, TTL along a frame's hops, next-hop choices."""

    def __init__(self, ck, sim, ctx):
        self.ck, self.sim, self.ctx = ck, sim, ctx
        self.hops = {}
        self.nodes = list(sim.network.nodes.values())
        self.mac_owner = {}
        for n in self.nodes:
            for nic in n.network_interface.values():
                self.mac_owner[nic.mac_address] = (n, nic)
        for n in self.nodes:
            self._wrap_node(n)

    def ips(self, n):
        return {str(nic.ip_address) for nic in n.network_interface.values() if getattr(nic, "ip_address", None) is not None}

    def _wrap_node(self, n):
        mon = self
        sm = n.software_manager
        orig = sm.receive_payload_from_session_manager

        def recv(payload, port, protocol, session_id, from_network_interface, frame, _o=orig, _n=n):
            if frame is not None and frame.ip is not None and not (frame.udp is not None and frame.is_arp) and not frame.is_broadcast:
                dst = str(frame.ip.dst_ip_address)
                own = mon.ips(_n)
                bcast = {str(nic.ip_network.broadcast_address) for nic in _n.network_interface.values() if getattr(nic, "ip_network", None) is not None}
                if dst not in own and dst not in bcast and dst != "255.255.255.255":
                    mon.ck.violation("payload-delivered-to-non-addressee", "%s (addresses %s) handed a unicast payload for %s to its software"
                                     % (_n.config.hostname, sorted(own), dst), dict(mon.ctx, node=_n.config.hostname, dst=dst))
            return _o(payload=payload, port=port, protocol=protocol, session_id=session_id, from_network_interface=from_network_interface, frame=frame)
        object.__setattr__(sm, "receive_payload_from_session_manager", recv)
        for nic in n.network_interface.values():
            o_recv = nic.receive_frame

            def nrecv(frame, _o=o_recv, _nic=nic, _n=n):
                if frame.ip is not None:
                    k = id(frame)
                    h = mon.hops.setdefault(k, (frame, []))[1]      # keep the frame alive so that its id is not reused
                    h.append(frame.ip.ttl)
                    if len(h) > 200:
                        raise RuntimeError("frame received more than 200 times")
                return _o(frame)
            object.__setattr__(nic, "receive_frame", nrecv)

    def check_ttl(self):
        for k, (_fr, h) in self.hops.items():
            self.ck.evaluations += 1
            if any(b > a for a, b in zip(h, h[1:])):
                self.ck.violation("ttl-increased", "TTL of one frame along its hops: %s" % h[:20], dict(self.ctx, ttls=h[:40]))
            if len(h) > 70:
                self.ck.violation("frame-outlived-ttl", "one frame was received %d times (initial TTL %s)" % (len(h), h[0]), dict(self.ctx, ttls=h[:80]))
        self.hops = {}


def topo_case(ck, seed, toggles):
    rng = ck.rng
    cfg, r2, fam, hosts = family.base(seed)
    cfg["agents"] = []
    for n in cfg["simulation"]["network"]["nodes"]:
        n.pop("operating_state", None)
        n["start_up_duration"], n["shut_down_duration"] = 0, 0
    for l in cfg["simulation"]["network"]["links"]:
        l.pop("bandwidth", None)
    game = world.make_game(cfg)
    game.setup_for_episode(0)
    sim = game.simulation
    ctx = {"family_seed": seed, "family": fam}
    mon = NetMon(ck, sim, ctx)
    nodes = {n.config.hostname: n for n in sim.network.nodes.values()}
    hs = [nodes[h["hostname"]] for h in hosts]
    ip = {h.config.hostname: str(h.network_interface[1].ip_address) for h in hs}

    def all_pairs(tag, expect=True):
        for a in hs:
            for b in hs:
                if a is b:
                    continue
                try:
                    ok = a.ping(ip[b.config.hostname])
                except RecursionError as e:
                    ck.violation("forwarding-does-not-end", "ping %s -> %s never ended (RecursionError)" % (a.config.hostname, b.config.hostname), dict(ctx, phase=tag))
                    return
                except Exception as e:
                    ck.violation("ping-raises:%s" % type(e).__name__, "ping %s -> %s raised %r" % (a.config.hostname, b.config.hostname, e), dict(ctx, phase=tag))
                    return
                ck.case(canon=(seed, tag, a.config.hostname, b.config.hostname), nontrivial=True,
                        sample={"family": fam, "seed": seed, "phase": tag, "from": a.config.hostname, "to": b.config.hostname, "ok": bool(ok)} if len(ck.samples) < 5 else None)
                if expect and not ok:
                    ck.violation("permitted-ping-failed:%s" % fam, "%s: ping %s -> %s failed although every device on the path is on and permits ICMP (%s)"
                                 % (fam, a.config.hostname, b.config.hostname, tag), dict(ctx, phase=tag, src=a.config.hostname, dst=b.config.hostname))
                mon.check_ttl()
    all_pairs("cold-arp")
    all_pairs("warm-arp")
    for t in range(toggles):
        n = rng.choice(list(nodes.values()))
        x = rng.random()
        if x < 0.4:
            nic = rng.choice(list(n.network_interface.values()))
            nic.disable()
            all_pairs("nic-down", expect=False)
            nic.enable()
        else:
            sim.apply_request(["network", "node", n.config.hostname, "shutdown"])
            all_pairs("node-off", expect=False)
            sim.apply_request(["network", "node", n.config.hostname, "startup"])
        game.pre_timestep()
        game.advance_timestep()
    all_pairs("after-recovery")


def looped_l2(ck):
    """two switches joined by two parallel links: a flooded frame must still stop (TTL), ping must return."""
    from primaite.simulator.network.hardware.nodes.host.computer import Computer
    from primaite.simulator.network.hardware.nodes.network.switch import Switch
    from primaite.simulator.sim_container import Simulation
    sim = Simulation()
    a = Computer.from_config(config={"type": "computer", "hostname": "la", "ip_address": "192.168.9.2", "subnet_mask": "255.255.255.0", "start_up_duration": 0})
    b = Computer.from_config(config={"type": "computer", "hostname": "lb", "ip_address": "192.168.9.3", "subnet_mask": "255.255.255.0", "start_up_duration": 0})
    s1 = Switch.from_config(config={"type": "switch", "hostname": "ls1", "num_ports": 4, "start_up_duration": 0})
    s2 = Switch.from_config(config={"type": "switch", "hostname": "ls2", "num_ports": 4, "start_up_duration": 0})
    for n in (a, b, s1, s2):
        sim.network.add_node(n)
        n.power_on()
    sim.network.connect(a.network_interface[1], s1.network_interface[1])
    sim.network.connect(b.network_interface[1], s2.network_interface[1])
    sim.network.connect(s1.network_interface[2], s2.network_interface[2])
    sim.network.connect(s1.network_interface[3], s2.network_interface[3])
    ctx = {"topology": "two switches joined by two parallel links"}
    mon = NetMon(ck, sim, ctx)
    import sys
    old = sys.getrecursionlimit()
    sys.setrecursionlimit(3000)
    try:
        a.ping("192.168.9.3")
        ck.case(canon=("looped-l2",), nontrivial=True)
    except (RecursionError, RuntimeError) as e:
        ck.violation("forwarding-does-not-end", "a frame flooded into a layer-2 loop never stopped: %r" % (e,), ctx)
    finally:
        sys.setrecursionlimit(old)
    mon.check_ttl()


def host_hop_cases(ck, coq_in):
    """SessionManager.resolve_outbound_transmission_details on a host whose ARP cache already knows on-link neighbours, the
    gateway AND off-link peers (learned from frames a neighbour router delivered): the MAC it picks must be that of the model's
    next hop -- the destination itself on-link, else the default gateway."""
    from ipaddress import IPv4Address
    from primaite.simulator.sim_container import Simulation
    from primaite.simulator.network.hardware.nodes.host.computer import Computer
    rng = ck.rng
    for k in range(ck.n(24, 120)):
        mask = rng.choice(["255.255.255.0", "255.255.255.128", "255.255.0.0"])
        # (a gateway outside the interface's own subnet is a configuration error: PrimAITE recurses without end on it)
        gw = rng.choice(["10.0.1.1", "10.0.1.1", None] + ([] if mask.endswith("128") else ["10.0.1.254"]))
        sim = Simulation()
        cfgd = {"type": "computer", "hostname": "hh%d" % k, "ip_address": "10.0.1.10", "subnet_mask": mask, "start_up_duration": 0}
        if gw:
            cfgd["default_gateway"] = gw
        h = Computer.from_config(config=cfgd)
        o = Computer.from_config(config={"type": "computer", "hostname": "oo%d" % k, "ip_address": "10.0.1.20", "subnet_mask": mask, "start_up_duration": 0})
        for n in (h, o):
            sim.network.add_node(n); n.power_on()
        sim.network.connect(h.network_interface[1], o.network_interface[1])
        object.__setattr__(o.network_interface[1], "receive_frame", lambda frame: True)
        known = ["10.0.1.1", "10.0.1.254", "10.0.1.20", "10.0.1.200", "10.0.2.10", "10.0.9.9", "172.16.0.5"]
        macs = {ip: "aa:bb:00:00:%02x:%02x" % (int(ip.split(".")[2]) % 256, int(ip.split(".")[3])) for ip in known}
        for ip in known:
            if rng.random() < 0.85:
                h.software_manager.arp.add_arp_cache_entry(ip_address=IPv4Address(ip), mac_address=macs[ip], network_interface=h.network_interface[1])
        cached = {str(ip): e.mac_address for ip, e in h.software_manager.arp.arp.items()}
        by_mac = {m: ip for ip, m in macs.items()}
        got = []
        for d in known:
            res = h.session_manager.resolve_outbound_transmission_details(dst_ip_address=IPv4Address(d))
            mac = res[1]
            got.append(ipi(by_mac[mac]) if mac in by_mac else -2)
        # what the model's next hop resolves to with this cache (an uncached next hop cannot be resolved: nobody answers ARP here)
        coq_in.append((("(%d, %d, %s, %s)" % (ipi("10.0.1.10"), ipi(mask), "None" if not gw else "(Some %d)" % ipi(gw), zl([ipi(d) for d in known]))), got, cached))
        ck.case(canon=("host-hop", gw, mask, tuple(sorted(cached))), nontrivial=True)


def two_gateways(ck):
    """a host LAN with two routers: the default gateway's best route to the far subnet points back into the LAN it arrived from
    (hairpin), and the far peer reaches the host through the other router -- so the host learns the peer's address from a
    neighbour that is NOT its gateway.  Permitted exchanges must succeed; off-subnet traffic must go to the default gateway."""
    from primaite.simulator.sim_container import Simulation
    from primaite.simulator.network.hardware.nodes.host.computer import Computer
    from primaite.simulator.network.hardware.nodes.network.switch import Switch
    from primaite.simulator.network.hardware.nodes.network.router import Router, ACLAction
    sim = Simulation()
    z = {"start_up_duration": 0, "shut_down_duration": 0}
    sw = {k: Switch.from_config(config=dict(type="switch", hostname=k, num_ports=4, **z)) for k in ("sw1", "sw2", "sw3")}
    r1 = Router.from_config(config=dict(type="router", hostname="r1", num_ports=2, **z))
    r2 = Router.from_config(config=dict(type="router", hostname="r2", num_ports=2, **z))
    h = Computer.from_config(config=dict(type="computer", hostname="h", ip_address="10.0.1.10", subnet_mask="255.255.255.0", default_gateway="10.0.1.1", **z))
    p = Computer.from_config(config=dict(type="computer", hostname="p", ip_address="10.0.2.10", subnet_mask="255.255.255.0", default_gateway="10.0.2.1", **z))
    e = Computer.from_config(config=dict(type="computer", hostname="e", ip_address="10.0.3.10", subnet_mask="255.255.255.0", default_gateway="10.0.3.1", **z))
    for n in list(sw.values()) + [r1, r2, h, p, e]:
        sim.network.add_node(n)
        n.power_on()
    r1.configure_port(1, "10.0.1.1", "255.255.255.0"); r1.configure_port(2, "10.0.3.1", "255.255.255.0")
    r2.configure_port(1, "10.0.1.2", "255.255.255.0"); r2.configure_port(2, "10.0.2.1", "255.255.255.0")
    c = sim.network.connect
    c(sw["sw1"].network_interface[1], h.network_interface[1]); c(sw["sw1"].network_interface[2], r1.network_interface[1]); c(sw["sw1"].network_interface[3], r2.network_interface[1])
    c(sw["sw2"].network_interface[1], p.network_interface[1]); c(sw["sw2"].network_interface[2], r2.network_interface[2])
    c(sw["sw3"].network_interface[1], e.network_interface[1]); c(sw["sw3"].network_interface[2], r1.network_interface[2])
    for r in (r1, r2):
        r.enable_port(1); r.enable_port(2)
        r.acl.add_rule(action=ACLAction.PERMIT, position=1)
    r1.route_table.add_route("10.0.2.0", "255.255.255.0", "10.0.1.2")
    r2.route_table.set_default_route_next_hop_ip_address("10.0.1.1")
    ctx = {"topology": "host LAN with two routers: h(10.0.1.10, gw r1) -- sw1 -- r1(.1 | 10.0.3.1 -- e) and r2(.2 | 10.0.2.1 -- p); r1 routes 10.0.2.0/24 via r2"}
    mon = NetMon(ck, sim, ctx)
    gw_mac = str(r1.network_interface[1].mac_address)
    wrong = []
    o_send = h.network_interface[1].send_frame

    def send(frame, _o=o_send):
        if frame.ip is not None and str(frame.ip.dst_ip_address).split(".")[2] != "1" and str(frame.ethernet.dst_mac_addr) not in (gw_mac, "ff:ff:ff:ff:ff:ff"):
            wrong.append((str(frame.ip.dst_ip_address), str(frame.ethernet.dst_mac_addr)))
        return _o(frame)
    object.__setattr__(h.network_interface[1], "send_frame", send)
    hosts = {"h": (h, "10.0.1.10"), "p": (p, "10.0.2.10"), "e": (e, "10.0.3.10")}
    order = [("p", "h"), ("h", "p"), ("h", "e"), ("e", "p"), ("p", "e"), ("e", "h"), ("h", "p"), ("p", "h")]     # the far peer speaks first
    for rnd in ("cold", "warm"):
        for a, b in order:
            ok = hosts[a][0].ping(hosts[b][1])
            ck.case(canon=("two-gateways", rnd, a, b), nontrivial=True)
            if not ok:
                ck.violation("permitted-ping-failed:two-gateways", "%s: ping %s -> %s failed although every device on the path is on and permits it (%s ARP)"
                             % (ctx["topology"], a, b, rnd), dict(ctx, src=a, dst=b, phase=rnd))
            mon.check_ttl()
    if wrong:
        ck.violation("off-subnet-traffic-not-sent-to-default-gateway", "host h sent a frame for %s to MAC %s, which is not its default gateway's (%s)" % (wrong[0][0], wrong[0][1], gw_mac),
                     dict(ctx, frames=wrong[:5]))
    # the gateway's rules are consulted: deny h -> p ICMP on r1 only; the peer already taught h its address through r2
    r1.acl.add_rule(action=ACLAction.DENY, position=0, src_ip_address="10.0.1.10", dst_ip_address="10.0.2.10")
    if h.ping("10.0.2.10"):
        ck.violation("gateway-rule-bypassed", "h reached p although its default gateway r1 denies h -> p (the only other way is the neighbour router r2, which is not h's gateway)", ctx)
    ck.case(canon=("two-gateways", "deny"), nontrivial=True)


def wireless_three(ck):
    """three wireless routers on one frequency, a host behind each: every ordered pair must ping with cold and warm ARP (a
    broadcast over the air has to reach every access point on the frequency, not just the first)."""
    z = {"start_up_duration": 0, "shut_down_duration": 0}
    nodes, links = [], []
    for i in (1, 2, 3):
        nodes.append(dict(type="computer", hostname="pc%d" % i, ip_address="192.168.%d.2" % (10 * i), subnet_mask="255.255.255.0", default_gateway="192.168.%d.1" % (10 * i), **z))
        nodes.append({"type": "wireless-router", "hostname": "wr%d" % i, "start_up_duration": 0,
                      "router_interface": {"ip_address": "192.168.%d.1" % (10 * i), "subnet_mask": "255.255.255.0"},
                      "wireless_access_point": {"ip_address": "192.168.1.%d" % i, "subnet_mask": "255.255.255.0", "frequency": "WIFI_2_4"},
                      "acl": {1: {"action": "PERMIT"}},
                      "routes": [{"address": "192.168.%d.0" % (10 * j), "subnet_mask": "255.255.255.0", "next_hop_ip_address": "192.168.1.%d" % j, "metric": 0}
                                 for j in (1, 2, 3) if j != i]})
        links.append({"endpoint_a_hostname": "pc%d" % i, "endpoint_a_port": 1, "endpoint_b_hostname": "wr%d" % i, "endpoint_b_port": 2})
    cfg = {"io_settings": dict(world.IO_OFF), "game": {"max_episode_length": 64, "ports": ["ARP"], "protocols": ["ICMP", "TCP", "UDP"]},
           "agents": [], "simulation": {"network": {"nodes": nodes, "links": links}}}
    ctx = {"topology": "three wireless routers wr1..wr3 on WIFI_2_4 (192.168.1.x), a host pc_i on 192.168.(10i).0/24 behind each, static routes both ways"}
    try:
        game = world.make_game(cfg)
        game.setup_for_episode(0)
    except Exception as e:
        ck.violation("wireless-topology-does-not-load:%s" % type(e).__name__, "the three-router wireless scenario raised %r at load" % (e,), ctx)
        return
    hosts = {n.config.hostname: n for n in game.simulation.network.nodes.values() if n.config.hostname.startswith("pc")}
    for rnd in ("cold", "warm"):
        for a in ("pc1", "pc2", "pc3"):
            for b in ("pc3", "pc2", "pc1"):
                if a == b:
                    continue
                game.pre_timestep()
                ok = hosts[a].ping(str(hosts[b].network_interface[1].ip_address))
                ck.case(canon=("wireless-three", rnd, a, b), nontrivial=True)
                ck.evaluations += 1
                if not ok:
                    ck.violation("permitted-ping-failed:wireless", "%s: ping %s -> %s failed although every device is on and permits it (%s ARP)"
                                 % (ctx["topology"], a, b, rnd), dict(ctx, src=a, dst=b, phase=rnd))
                    return


def run(ck):
    ck.rule = ("(a) route tables over a covering set of overlapping prefixes (/8 /12 /16 /24 /25 /32, unmasked addresses), metrics incl. ties, with and "
               "without default route x a fixed destination set: find_best_route vs the model and vs a longest-prefix/lowest-metric oracle, "
               "bounded-exhaustive to 2 routes (3 in thorough) and random to 7; (b) generated switched / routed / firewalled networks: every ordered host "
               "pair pings with cold and warm ARP, under interface and power toggles, and after recovery, with monitors for payload hand-over to a "
               "non-addressee and for the TTL along each frame's hops; (c) a layer-2 loop; non-trivial = table with >= 2 routes / any ping")
    coq_props(ck)
    gen_tie.check(ck, ["route", "routetable"])
    rng = ck.rng
    coq_in = []
    kinds = [(a, m, me) for (a, m) in PREFIXES[:5] for me in (0.0, 1.0)]
    depth = 2 if ck.quick else 3
    for n in range(0, depth + 1):
        for combo in itertools.product(kinds, repeat=n):
            routes = [(a, m, "192.168.0.%d" % (k + 1), me) for k, (a, m, me) in enumerate(combo)]
            for dflt in (None, "192.168.0.99"):
                table_case(ck, routes, dflt, coq_in, "exh")
    for k in range(ck.n(300, 2500)):
        table_case(ck, gen_table(rng, rng.randint(1, 7)), rng.choice([None, "192.168.0.99"]), coq_in, "rand")
    ck.traces += len(coq_in)
    try:
        mism = coq_cases(ck, "From PV Require Import Model.Route.", "run_case", coq_in, name="c08", chunk=150)
    except RuntimeError as e:
        ck.broken("correspondence Model.Route.run_case", str(e))
        mism = None
    if mism is not None:
        ck.obligation("correspondence RouteTable.find_best_route = Model.Route.find_best on %d tables x %d destinations" % (len(coq_in), len(DESTS)),
                      "correspondence", not mism, "" if not mism else "first mismatch: case %d model=%s impl=%s input=%s" % (mism[0][0], mism[0][1], coq_in[mism[0][0]][1], coq_in[mism[0][0]][0][:400]))
    hops = []
    host_hop_cases(ck, hops)
    try:
        outs = coq_compute(ck, "From PV Require Import Model.Route.", ["run_hops %s" % h[0] for h in hops], name="c08_hops")
    except RuntimeError as e:
        ck.broken("correspondence Model.Route.run_hops", str(e))
        outs = None
    if outs is not None:
        bad = []
        for (term, got, cached), model in zip(hops, outs):
            from ipaddress import IPv4Address
            # decided cases only: the model's next hop is in the cache (an on-link neighbour that does not answer ARP is outside
            # the property: the implementation then tries its gateway)
            want = [(m if (m != -2 and str(IPv4Address(m)) in cached) else None) for m in model]
            if any(w is not None and w != g for w, g in zip(want, got)):
                j = next(i for i in range(len(got)) if want[i] is not None and got[i] != want[i])
                bad.append((term, j, got[j], want[j]))
                ck.violation("host-next-hop-not-the-model's", "a host with interface / gateway %s and ARP cache %s sends to destination #%d via the MAC of %s; on-link => the destination itself, "
                             "off-link => the default gateway gives %s" % (term, sorted(cached), j, got[j], want[j]), {"case": term, "cache": sorted(cached), "destination_index": j})
        ck.obligation("correspondence host next hop (SessionManager.resolve_outbound_transmission_details with warm and poisoned ARP caches) = Model.Route.host_next_hop on %d hosts" % len(hops),
                      "correspondence", not bad, "" if not bad else str(bad[0]))
    for k in range(ck.n(3, 9)):
        topo_case(ck, ck.seed + k, toggles=ck.n(2, 6))
    looped_l2(ck)
    two_gateways(ck)
    wireless_three(ck)


def replay(ck, path):
    run(ck)
