"""C04 -- episodes and environment instances are isolated from one another."""
import copy, gc, json, os, random, shutil, subprocess, sys, tempfile
from concurrent.futures import ThreadPoolExecutor
from lib.common import coq_props, coq_cases, zl, Raw, Opt, VERIF
from lib import world, family, gen_tie

WORKER = os.path.join(VERIF, "harness", "workers", "iso_worker.py")
NMNE_ON = {"capture_nmne": True, "nmne_capture_keywords": ["DELETE"]}


def run_worker(ck, spec):
    d = tempfile.mkdtemp(prefix="c04_", dir=ck.scratch)
    sp = os.path.join(d, "spec.json")
    json.dump(spec, open(sp, "w"))
    env = dict(os.environ)
    env.update({"PYTHONHASHSEED": "0", "HOME": d})
    try:
        p = subprocess.run([sys.executable, WORKER, sp], capture_output=True, text=True, env=env, timeout=1500, cwd=d)
        if p.returncode != 0:
            return None, p.stderr[-1200:]
        return [json.loads(l) for l in p.stdout.splitlines() if l.startswith("{")], ""
    finally:
        shutil.rmtree(d, ignore_errors=True)


# ---- (a) the shared-settings model against the implementation -------------------------------------------------------
def small_cfg(nmne):
    cfg = family.generate(20260101, max_actions=10)
    cfg["simulation"]["network"].pop("nmne_config", None)
    if nmne is not None:
        cfg["simulation"]["network"]["nmne_config"] = {"capture_nmne": bool(nmne), "nmne_capture_keywords": ["DELETE"]}
    return cfg


def seen_by(env):
    for n in env.game.simulation.network.nodes.values():
        for nic in n.network_interface.values():
            return 1 if (nic.nmne_config and nic.nmne_config.capture_nmne) else 0
    return -1


def settings_case(ck, rng, coq_in):
    envs = {0: None, 1: None}
    wanted = {0: None, 1: None}
    ops, out = [], []
    for _ in range(rng.randint(4, 9)):
        i = rng.randrange(2)
        x = rng.random()
        if envs[i] is None or x < 0.35:
            if envs[i] is None or rng.random() < 0.5:
                c = rng.choice([None, 1, 0, 1])
                if envs[i] is not None:
                    envs[i].close()
                envs[i] = world.make_env(small_cfg(c))
                wanted[i] = c
            else:
                envs[i].reset(seed=1)            # a reset builds a new game from the same scenario
            ops.append(Raw("Build %d%%nat %s" % (i, zl(Opt(wanted[i])))))
            out.append(seen_by(envs[i]))
        elif x < 0.9:
            envs[i].step(0)
            ops.append(Raw("Step %d%%nat" % i))
            out.append(seen_by(envs[i]))
        else:
            envs[i].close()
            envs[i] = None
            ops.append(Raw("Close %d%%nat" % i))
    for e in envs.values():
        if e is not None:
            e.close()
    coq_in.append((zl(ops), out))
    ck.case(canon=("settings", str(ops)), nontrivial=len({str(o) for o in ops}) > 3)


# ---- (c) no simulation object of the old game is reachable from the new one -------------------------------------------
def components(game):
    objs = []
    for n in game.simulation.network.nodes.values():
        objs.append(n)
        objs += list(n.network_interface.values()) + list(n.software_manager.software.values()) + [n.file_system, n.sys_log, n.session_manager, n.software_manager]
        for fo in n.file_system.folders.values():
            objs.append(fo)
            objs += list(fo.files.values())
    objs += list(game.simulation.network.links.values()) + list(game.agents.values()) + [game.simulation, game.simulation.network]
    return objs


def identity_case(ck, name, cfg):
    env = world.make_env(cfg)
    env.reset(seed=1)
    for _ in range(3):
        env.step(0)
    old = components(env.game)
    env.reset(seed=1)
    new = components(env.game)
    shared = {id(o) for o in old} & {id(o) for o in new}
    ck.evaluations += len(new)
    ck.case(canon=("identity", name), nontrivial=True)
    if shared:
        o = next(x for x in new if id(x) in shared)
        ck.violation("component-shared-across-reset:%s" % type(o).__name__, "%s: after reset the new game still uses %d objects of the old one (e.g. a %s)" % (name, len(shared), type(o).__name__),
                     {"scenario": name, "example_type": type(o).__name__})
    env.close()


def first_diff(ref, tr):
    for a, b in zip(ref, tr):
        if a != b:
            fields = [k for k in a if a.get(k) != b.get(k)]
            nodes = [k for k in (a.get("nodes") or {}) if a["nodes"].get(k) != (b.get("nodes") or {}).get(k)]
            return a.get("t"), fields, nodes
    if len(ref) != len(tr):
        return "length", ["%d vs %d records" % (len(ref), len(tr))], []
    return None


def run(ck):
    ck.rule = ("(a) sequences of construct / reset / step / close on two environment slots with NMNE capture on, off or not mentioned by the scenario: the setting "
               "each environment's interfaces see after every op vs Model.Isolation; (b) differential runs in separate interpreter processes: the measured "
               "episode of environment A after clean resets in a fresh process vs the same episode after dirty earlier episodes (random actions + injected "
               "request histories), after / before / around another environment instance B with other options (logging and packet capture on, other "
               "thresholds, another scenario, other NMNE settings) built, stepped, kept alive, interleaved or closed, and for episode-scheduled scenarios the "
               "looped episode n+e vs episode e of a fresh process; observation digests, rewards and the digest of the whole normalised simulation state "
               "compared step by step; (c) no simulation component object of the old game is part of the new game after reset")
    coq_props(ck)
    gen_tie.check(ck, ["isolation"])
    rng = ck.rng
    coq_in = []
    for k in range(ck.n(14, 60)):
        settings_case(ck, rng, coq_in)
    ck.traces += len(coq_in)
    try:
        mism = coq_cases(ck, "From PV Require Import Model.Isolation.", "Isolation.run_case", coq_in, name="c04", chunk=100)
    except RuntimeError as e:
        ck.broken("correspondence Model.Isolation.run_case", str(e))
        mism = None
    if mism is not None:
        ck.obligation("correspondence class-level NMNE settings under construct / reset / step / close of two environments = Model.Isolation on %d sequences" % len(coq_in),
                      "correspondence", not mism, "" if not mism else "first mismatch: case %d model=%s impl=%s ops=%s" % (mism[0][0], mism[0][1], coq_in[mism[0][0]][1], coq_in[mism[0][0]][0]))
    # (c)
    identity_case(ck, "family/%d" % ck.seed, family.generate(ck.seed))
    identity_case(ck, "pkg/data_manipulation.yaml", world.load_cfg(world.PKG + "/data_manipulation.yaml"))
    # (b)
    dm = {"kind": "file", "path": world.PKG + "/data_manipulation.yaml"}
    fam = lambda k: {"kind": "family", "seed": ck.seed + k}
    targets = [("pkg/data_manipulation.yaml (no nmne section)", dm, {"nmne": None, "seed": 5}, 30),
               ("pkg/data_manipulation.yaml (NMNE capture on, attacker from step 2)", dm, {"seed": 5, "early_attacker": True}, 24),
               ("family/%d" % ck.seed, fam(0), {"seed": 5, "max_episode_length": 40}, 16),
               ("family/%d" % (ck.seed + 1), fam(1), {"seed": 5, "max_episode_length": 40}, 16)]
    if not ck.quick:
        targets += [("family/%d" % (ck.seed + k), fam(k), {"seed": 5, "max_episode_length": 40}, 20) for k in range(2, 8)]
        targets.append(("pkg/data_manipulation.yaml", dm, {"seed": 5}, 60))
    loud = {"io": {"save_pcap_logs": True, "save_sys_logs": True, "save_agent_logs": True, "save_agent_actions": True, "sys_log_level": "DEBUG"}}
    others0 = [("other-instance-closed-before:nmne-on", {"b": dm, "b_patch": {"nmne": NMNE_ON}, "when": "closed-before"}),
              ("other-instance-alive-built-before:nmne-on+logging", {"b": dm, "b_patch": dict(loud, nmne=NMNE_ON), "when": "before-construction"}),
              ("other-instance-built-before-measured-reset:nmne-on", {"b": fam(2), "b_patch": {"nmne": NMNE_ON, "thresholds": {"nmne": {"high": 2, "medium": 1, "low": 0}}}, "when": "before-measured-reset"}),
              ("other-instance-interleaved:deterministic-same-nmne+logging", {"b": dm, "b_patch": dict(loud, nmne=None, no_scripted=True), "when": "interleaved", "quiet": True}),
              ("live-instance-interleaved:other-nmne-settings", {"b": dm, "b_patch": {"nmne": NMNE_ON, "no_scripted": True}, "when": "interleaved", "quiet": True}),
              ("live-instance-interleaved:stochastic-agents-shared-rng-same-nmne", {"b": dm, "b_patch": {"nmne": None}, "when": "interleaved"})]
    jobs = []
    # an insider threat actor that works through the account changes its scenario lists (agents that consume what they were
    # configured with must start every episode with all of it)
    t3 = {"kind": "file", "path": world.PKG + "/uc7_config_tap003.yaml"}
    base3 = {"a": t3, "a_patch": {"seed": 5}, "seed": 5, "reset_seed": 21, "action_seed": 8, "steps": ck.n(44, 70), "idle": True, "other": None}
    jobs.append(("pkg/uc7_config_tap003.yaml (idle defender)", "reference", dict(base3, measure_episode=1, dirty=False)))
    jobs.append(("pkg/uc7_config_tap003.yaml (idle defender)", "after-an-undisturbed-episode", dict(base3, measure_episode=2, dirty=False, earlier_idle_steps=ck.n(44, 70))))
    for name, sc, patch, steps in targets:
        # the NMNE settings A's own scenario asks for (None = no section): B gets the same in the "same settings" variants
        a_cfg = family.generate(sc["seed"]) if sc["kind"] == "family" else world.load_cfg(sc["path"])
        a_nmne = None if "nmne" in patch and patch["nmne"] is None else patch.get("nmne", a_cfg["simulation"]["network"].get("nmne_config"))
        others = [(n, dict(o, b_patch=dict(o["b_patch"], nmne=a_nmne)) if "same-nmne" in n else o) for n, o in others0]
        base = {"a": sc, "a_patch": patch, "seed": 5, "reset_seed": 21, "action_seed": 8, "steps": steps, "idle": bool(patch.get("early_attacker")),
                "pings": sc["kind"] == "family"}          # echo traffic in every episode of the generated networks
        jobs.append((name, "reference", dict(base, measure_episode=1, dirty=False, other=None)))
        jobs.append((name, "after-dirty-episodes", dict(base, measure_episode=3, dirty=True, other=None)))
        jobs.append((name, "after-clean-episodes", dict(base, measure_episode=3, dirty=False, other=None)))
        jobs.append((name, "after-dirty-episodes-reset-with-the-same-seed", dict(base, measure_episode=3, dirty=True, other=None, earlier_seed="same")))
        jobs.append((name, "other-instance-with-the-same-settings-closed-mid-episode",
                     dict(base, measure_episode=2, dirty=False, other={"b": sc, "b_patch": dict(patch), "when": "closed-mid-episode", "quiet": True})))
        for oname, o in others:
            jobs.append((name, oname, dict(base, measure_episode=2, dirty=True, other=o)))
    # episode-scheduled scenarios: the looped episode vs the first pass in a fresh process
    for root in sorted(os.listdir(world.PKG)):
        full = os.path.join(world.PKG, root)
        if not os.path.exists(os.path.join(full, "schedule.yaml")):
            continue
        import yaml
        n_eps = len(yaml.safe_load(open(os.path.join(full, "schedule.yaml")))["schedule"])
        if ck.quick and "uc7" in root:
            steps = 6
        else:
            steps = 12
        for e in ([1] if ck.quick else list(range(1, min(n_eps, 3)))):
            base = {"a": {"kind": "dir", "path": full}, "a_patch": {}, "seed": 5, "reset_seed": 21, "action_seed": 8, "steps": steps, "other": None}
            nm = "%s episode %d" % (root, e)
            jobs.append((nm, "reference", dict(base, measure_episode=e, dirty=False)))
            jobs.append((nm, "looped-schedule-after-dirty-episodes", dict(base, measure_episode=e + n_eps, dirty=True)))

    def do(j):
        return j, run_worker(ck, j[2])
    res = {}
    with ThreadPoolExecutor(max_workers=12) as ex:
        for (name, vname, spec), (tr, err) in ex.map(do, jobs):
            if tr is None:
                ck.violation("run-failed:%s" % vname.split(":")[0], "%s (%s): the worker process failed: %s" % (name, vname, err[-500:]), {"scenario": name, "variant": vname, "spec": spec})
                continue
            res.setdefault(name, {})[vname] = (tr, spec)
            ck.count("process-runs")
    for name, runs in res.items():
        if "reference" not in runs:
            continue
        ref = runs["reference"][0]
        for vname, (tr, spec) in runs.items():
            if vname == "reference":
                continue
            ck.evaluations += len(tr)
            d = first_diff([{k: v for k, v in r.items() if k != "episode_counter"} for r in ref], [{k: v for k, v in r.items() if k != "episode_counter"} for r in tr])
            ck.case(canon=(name, vname), nontrivial=True, sample={"scenario": name, "variant": vname, "records": len(tr)} if len(ck.samples) < 4 else None)
            if d is not None:
                t, fields, nodes = d
                ck.violation(("instance-interference:%s" if "instance" in vname else "episode-leak:%s") % vname.split("/")[0],
                             "%s: the measured episode %s differs from the same episode in a fresh process at step %s in %s (nodes whose state differs: %s)"
                             % (name, vname, t, fields, nodes[:6]), {"scenario": name, "variant": vname, "spec": spec, "step": t, "fields": fields, "nodes": nodes[:20]})


def replay(ck, path):
    run(ck)
