"""C06 -- blocking is effective: a host cut off from another cannot affect it."""
import copy, json
from lib.common import coq_props, coq_cases
from lib import world, gen_tie, devbench, blocknet


def device_part(ck, coq_in):
    rng = ck.rng
    for k in range(ck.n(60, 400)):
        fw = k % 2 == 1
        term, out, specs, logs, bench = devbench.l3_case(rng, fw, rng.randint(4, 9))
        coq_in.append((term, out))
        for s, log in zip(specs, logs):
            code = log["code"][0]
            ck.case(canon=("l3", fw, json.dumps(s, sort_keys=True), tuple(log["lists"])), nontrivial=code in (1, 2, 4),
                    sample={"device": "firewall" if fw else "router", "frame": s, "lists": log["lists"], "decision": code} if (code == 1 and len(ck.samples) < 4) else None)
            ck.count("decision:%s" % {0: "ignored", 1: "denied", 2: "local", 3: "no-path", 4: "forwarded"}[code])
            # the local half of the property, directly on the implementation
            denied = any(not ok for _n, ok in log["lists"])
            if denied and (log["local"] or any(o[4] for o in log["outs"])):
                ck.violation("denied-frame-%s:%s" % ("handed-to-own-software" if log["local"] else "forwarded", "firewall" if fw else "router"),
                             "a %s decided to deny a frame (lists consulted %s) and still %s" % ("firewall" if fw else "router", log["lists"],
                             "handed it to its session manager" if log["local"] else "sent it out of port %d" % log["outs"][0][0]),
                             {"device": "firewall" if fw else "router", "frame": s, "lists": log["lists"], "outs": log["outs"], "state": term[:3000]})
            if fw and any(o[4] and o[3] != "None" for o in log["outs"]):      # (a frame sent with no destination MAC is accepted by nobody)
                # zone lists by ARRIVAL and by actual EGRESS port
                need = {1: "ext_in", 2: "int_out", 3: "dmz_out"}[s["port"]], {1: "ext_out", 2: "int_in", 3: "dmz_in"}[log["outs"][0][0]]
                have = [n for n, ok in log["lists"] if ok]
                if s["port"] != log["outs"][0][0] and any(n not in have for n in need):
                    ck.violation("firewall-forwarded-without-zone-list:%s->%s" % need,
                                 "a firewall forwarded a frame from port %d to port %d having consulted %s; the lists of that direction are %s"
                                 % (s["port"], log["outs"][0][0], log["lists"], list(need)), {"frame": s, "lists": log["lists"], "outs": log["outs"], "state": term[:3000]})
    for k in range(ck.n(40, 200)):
        term, out, specs = devbench.host_case(rng, rng.randint(4, 8))
        coq_in.append((term, out))
        for s, o in zip(specs, out):
            ck.case(canon=("host", json.dumps(s, sort_keys=True), o), nontrivial=o == 1)
    for k in range(ck.n(40, 200)):
        term, out, specs = devbench.switch_case(rng, rng.randint(4, 10))
        coq_in.append((term, out))
        ck.case(canon=("switch", json.dumps(specs, sort_keys=True)), nontrivial=True)


def first_diff(model, impl, term):
    w = 8 if term.startswith("(CFirewall") else 6 if term.startswith("(CRouter") else 1
    for i in range(0, max(len(model), len(impl)), w):
        if model[i:i + w] != impl[i:i + w]:
            return "injection %d: model %s impl %s" % (i // w, model[i:i + w], impl[i:i + w])
    return "?"


def run(ck):
    ck.rule = ("(a) single devices: routers and firewalls with random rule lists (exact / wildcard / protocol / port / any-any, both implicit actions), "
               "routes, warm and incomplete ARP caches, disabled ports, power off; hosts with running and stopped listeners; switches with disabled ports; "
               "random frames (TCP/UDP/ICMP/ARP, unicast / broadcast / foreign MAC, TTL 1-64, addressed to the device, to neighbours, to routed and to "
               "unknown destinations) injected into every port: decision, consulted lists, emitted frame and rule counters vs Model.Device, plus the "
               "deny-silent and zone-list rules checked directly; (b) generated switched / routed / firewalled networks x placements of attacker A and "
               "victim B x blocking mechanisms, block placed before or after a warm-up: frame-level monitors (no frame of a blocked flow reaches B's "
               "software; a denied frame is neither forwarded nor handed up) and the victim differential (B's normalised state with A running its "
               "whole repertoire = B's state with A idle); non-trivial = denied/forwarded/local decision, or a run in which A emitted traffic")
    coq_props(ck)
    gen_tie.check(ck, ["device", "acl", "aclrule", "acllist"])      # the device models decide with Model.Acl, whose address test is translator-tied
    coq_in = []
    device_part(ck, coq_in)
    ck.traces += len(coq_in)
    try:
        mism = coq_cases(ck, "From PV Require Import Model.Acl Model.Device.\nFrom PV Require Model.Route.", "Device.run_case", coq_in, name="c06", chunk=40)
    except RuntimeError as e:
        ck.broken("correspondence Model.Device.run_case", str(e))
        mism = None
    if mism and __import__("os").environ.get("PV_DEBUG"):
        for i, mo in mism[:6]:
            print("DBG case", i, first_diff(mo, coq_in[i][1], coq_in[i][0]), coq_in[i][0][:80])
    if mism is not None:
        ck.obligation("correspondence router / firewall / host / switch frame handling = Model.Device on %d device cases" % len(coq_in), "correspondence",
                      not mism, "" if not mism else "%d mismatching cases; first: case %d %s input=%s" % (len(mism), mism[0][0], first_diff(mism[0][1], coq_in[mism[0][0]][1], coq_in[mism[0][0]][0]), coq_in[mism[0][0]][0][:2500]))
    blocknet.run(ck)


def replay(ck, path):
    run(ck)
