"""C07 -- ACL verdict = first matching rule by position, else the implicit action."""
import json, os
from lib.common import coq_props, coq_cases, zl, Opt, Raw
from lib import gen_tie

PROTO = {"tcp": 1, "udp": 2, "icmp": 3}
IPS = ["192.168.1.10", "192.168.1.20", "192.168.2.10", "10.0.0.1", "10.0.1.1", "0.0.0.0", "255.255.255.255"]
WCS = ["0.0.0.255", "0.0.255.255", "255.255.255.255", "0.0.0.0", "0.255.0.255", "0.0.0.1"]
PORTS = [0, 22, 80, 443, 5432, 65535, 219]
PORT_NAME = {0: "NONE", 22: "SSH", 80: "HTTP", 443: "HTTPS", 5432: "POSTGRES_SERVER", 219: "ARP"}


def ip2i(s):
    a, b, c, d = map(int, s.split("."))
    return (a << 24) | (b << 16) | (c << 8) | d


# ---- generators ----------------------------------------------------------------------------------
def gen_rule(rng, cfg_path=False):
    def maybe(xs, p=0.5):
        return rng.choice(xs) if rng.random() < p else None
    ports = [p for p in PORTS if p in PORT_NAME] if cfg_path else PORTS
    r = {"action": rng.choice(["PERMIT", "DENY"]), "protocol": maybe(list(PROTO), 0.5),
         "src_ip": maybe(IPS[:5], 0.5), "src_wc": maybe(WCS, 0.4), "dst_ip": maybe(IPS[:5], 0.5),
         "dst_wc": maybe(WCS, 0.4), "src_port": maybe(ports, 0.35), "dst_port": maybe(ports, 0.45)}
    if cfg_path:
        # scenario loading maps a falsy port/protocol entry to "unspecified": name NONE is not expressible there
        for k in ("src_port", "dst_port"):
            if r[k] == 0:
                r[k] = None
    return r


def gen_pkt(rng):
    pr = rng.choice(list(PROTO))
    p = {"protocol": pr, "src": rng.choice(IPS), "dst": rng.choice(IPS)}
    if pr != "icmp":
        p["sport"], p["dport"] = rng.choice(PORTS), rng.choice(PORTS)
    return p


def gen_case(rng, entry, nops):
    ops = []
    nadd = rng.randint(0, 6)
    for _ in range(nadd):
        ops.append(("add", rng.choice([0, 1, 2, 3, 5, 21, 22, 23]) if rng.random() < 0.9 else rng.choice([-1, 24, 25, 100]),
                    gen_rule(rng, entry in ("config", "fwconfig"))))
    if entry not in ("config", "fwconfig"):
        for _ in range(nops):
            x = rng.random()
            if x < 0.15:
                ops.append(("add", rng.choice([0, 1, 2, 3, 23, 24, -1]), gen_rule(rng)))
            elif x < 0.25:
                ops.append(("remove", rng.choice([0, 1, 2, 3, 5, 22, 23, 24, -3])))
            else:
                ops.append(("check", gen_pkt(rng)))
    else:
        ops = [o for o in ops if 0 <= o[1] <= 23]
        for _ in range(nops):
            ops.append(("check", gen_pkt(rng)))
    return {"entry": entry, "implicit": rng.choice(["PERMIT", "DENY"]), "ops": ops}


# ---- specification oracle (independent of implementation and of the Coq model) -----------------------
def spec_rule_matches(r, p):
    if r["protocol"] is not None and r["protocol"] != p["protocol"]:
        return False
    for ipk, wk, pk in (("src_ip", "src_wc", "src"), ("dst_ip", "dst_wc", "dst")):
        if r[ipk] is not None:
            b, x = ip2i(r[ipk]), ip2i(p[pk])
            if r[wk] is not None:
                w = ip2i(r[wk])
                if any(((w >> n) & 1) == 0 and ((b >> n) & 1) != ((x >> n) & 1) for n in range(32)):
                    return False
            elif b != x:
                return False
    for rk, pk in (("src_port", "sport"), ("dst_port", "dport")):
        if r[rk] is not None and p.get(pk) != r[rk]:
            return False
    return True


def spec_run(case, base_rules):
    """the property, run as a reference: returns the canonical output list."""
    rules = dict(base_rules)   # pos -> [rule, count]
    imp_count, out = 0, []
    for o in case["ops"]:
        if o[0] == "add":
            if 0 <= o[1] < 24:
                rules[o[1]] = [o[2], 0]
                out.append(1)
            else:
                out.append(-2)
        elif o[0] == "remove":
            if 0 <= o[1] < 24:
                rules.pop(o[1], None)
                out.append(1)
            else:
                out.append(-2)
        else:
            hit = next((i for i in sorted(rules) if spec_rule_matches(rules[i][0], o[1])), None)
            if hit is None:
                imp_count += 1
                out += [1 if case["implicit"] == "PERMIT" else 0, -1]
            else:
                rules[hit][1] += 1
                out += [1 if rules[hit][0]["action"] == "PERMIT" else 0, hit]
    return out + [rules[i][1] if i in rules else -1 for i in range(24)] + [imp_count]


# ---- implementation driver ---------------------------------------------------------------------
def impl_run(case):
    from ipaddress import IPv4Address
    from primaite.simulator.network.hardware.nodes.network.router import ACLAction, Router
    from primaite.simulator.network.transmission.data_link_layer import EthernetHeader, Frame
    from primaite.simulator.network.transmission.network_layer import IPPacket
    from primaite.simulator.network.transmission.transport_layer import TCPHeader, UDPHeader
    from primaite.simulator.network.protocols.icmp import ICMPPacket
    from primaite.game.agent.actions.acl import RouterACLAddRuleAction, RouterACLRemoveRuleAction

    entry = case["entry"]
    ops = list(case["ops"])
    cfg = {"hostname": "r", "type": "router"}
    pre = []
    if entry in ("config", "fwconfig"):
        acl_cfg = {}
        while ops and ops[0][0] == "add":
            _, pos, r = ops.pop(0)
            d = {"action": r["action"]}
            if r["protocol"]:
                d["protocol"] = r["protocol"].upper()
            for k, ck in (("src_ip", "src_ip"), ("src_wc", "src_wildcard_mask"), ("dst_ip", "dst_ip"), ("dst_wc", "dst_wildcard_mask")):
                if r[k] is not None:
                    d[ck] = r[k]
            for k in ("src_port", "dst_port"):
                if r[k] is not None:
                    d[k] = PORT_NAME[r[k]]
            acl_cfg[pos] = d
            pre.append(1)
        cfg["acl"] = acl_cfg
    cfg_positions = set(cfg.get("acl", {}))      # from_config pops the key
    if entry == "fwconfig":
        # the same rules declared for one of a firewall's six lists (the others declared empty or with a rule of their own)
        from primaite.simulator.network.hardware.nodes.network.firewall import Firewall
        lists = ["internal_inbound_acl", "internal_outbound_acl", "dmz_inbound_acl", "dmz_outbound_acl", "external_inbound_acl", "external_outbound_acl"]
        mine = lists[case.get("fwlist", 0) % 6]
        fcfg = {"hostname": "fw", "type": "firewall",
                "ports": {"external_port": {"ip_address": "10.0.3.1", "subnet_mask": "255.255.255.0"},
                          "internal_port": {"ip_address": "10.0.1.1", "subnet_mask": "255.255.255.0"},
                          "dmz_port": {"ip_address": "10.0.2.1", "subnet_mask": "255.255.255.0"}},
                "acl": {l: ({7: {"action": "PERMIT"}} if (i + case.get("fwlist", 0)) % 2 else {}) for i, l in enumerate(lists)}}
        fcfg["acl"][mine] = dict(cfg["acl"])
        router = Firewall.from_config(config=fcfg)
        acl = getattr(router, mine)
        for pos, r in enumerate(acl.acl):
            if r is not None and pos not in cfg_positions:
                acl.remove_rule(pos)
    else:
        router = Router.from_config(config=cfg)
        acl = router.acl
        # the router's two default rules are not part of the case: clear them unless the case placed a rule there
        for pos in (22, 23):
            if pos not in cfg_positions:
                acl.remove_rule(pos)
    acl.implicit_action = ACLAction[case["implicit"]]
    acl.implicit_rule.action = ACLAction[case["implicit"]]
    out = list(pre)
    for o in ops:
        if o[0] == "add":
            _, pos, r = o
            if entry == "api":
                try:
                    ok = acl.add_rule(action=ACLAction[r["action"]], protocol=r["protocol"], src_ip_address=r["src_ip"],
                                      src_wildcard_mask=r["src_wc"], dst_ip_address=r["dst_ip"], dst_wildcard_mask=r["dst_wc"],
                                      src_port=r["src_port"], dst_port=r["dst_port"], position=pos)
                    out.append(1 if ok else 0)
                except ValueError:
                    out.append(-2)
            else:
                req = RouterACLAddRuleAction.form_request(RouterACLAddRuleAction.ConfigSchema(
                    type="router-acl-add-rule", target_router="r", position=pos, permission=r["action"],
                    src_ip=r["src_ip"] or "ALL", src_wildcard=r["src_wc"] or "NONE",
                    src_port="ALL" if r["src_port"] is None else r["src_port"],
                    dst_ip=r["dst_ip"] or "ALL", dst_wildcard=r["dst_wc"] or "NONE",
                    dst_port="ALL" if r["dst_port"] is None else r["dst_port"], protocol_name=r["protocol"] or "ALL"))
                resp = router.apply_request(req[3:], {})
                out.append(1 if resp.status == "success" else -2 if resp.status == "failure" else -9)
        elif o[0] == "remove":
            if entry == "api":
                try:
                    out.append(1 if acl.remove_rule(o[1]) else 0)
                except ValueError:
                    out.append(-2)
            else:
                req = RouterACLRemoveRuleAction.form_request(RouterACLRemoveRuleAction.ConfigSchema(
                    type="router-acl-remove-rule", target_router="r", position=o[1]))
                resp = router.apply_request(req[3:], {})
                out.append(1 if resp.status == "success" else -2 if resp.status == "failure" else -9)
        else:
            p = o[1]
            kw = {}
            if p["protocol"] == "tcp":
                kw["tcp"] = TCPHeader(src_port=p["sport"], dst_port=p["dport"])
            elif p["protocol"] == "udp":
                kw["udp"] = UDPHeader(src_port=p["sport"], dst_port=p["dport"])
            else:
                kw["icmp"] = ICMPPacket()
            fr = Frame(ethernet=EthernetHeader(src_mac_addr="aa:bb:cc:dd:ee:01", dst_mac_addr="aa:bb:cc:dd:ee:02"),
                       ip=IPPacket(src_ip_address=p["src"], dst_ip_address=p["dst"], protocol=p["protocol"]), **kw)
            permitted, rule = acl.is_permitted(fr)
            idx = next((i for i, r in enumerate(acl.acl) if r is rule), -1)
            out += [1 if permitted else 0, idx]
    out += [(-1 if r is None else r.match_count) for r in acl.acl] + [acl.implicit_rule.match_count]
    return out


# ---- case -> Coq ---------------------------------------------------------------------------------
def coq_rule(r):
    o = lambda v, f=lambda x: x: Opt(None if v is None else f(v))
    return Raw("(mk %s %s %s %s %s %s %s %s)" % (
        1 if r["action"] == "PERMIT" else 2, zl(o(r["protocol"], PROTO.get)), zl(o(r["src_ip"], ip2i)), zl(o(r["src_wc"], ip2i)),
        zl(o(r["dst_ip"], ip2i)), zl(o(r["dst_wc"], ip2i)), zl(o(r["src_port"])), zl(o(r["dst_port"]))))


def coq_case(case):
    ops = []
    for o in case["ops"]:
        if o[0] == "add":
            ops.append(Raw("Add %s %s" % (zl(o[1]), zl(coq_rule(o[2])))))
        elif o[0] == "remove":
            ops.append(Raw("Remove %s" % zl(o[1])))
        else:
            p = o[1]
            ops.append(Raw("Check (mkp %d %d %d %s %s)" % (PROTO[p["protocol"]], ip2i(p["src"]), ip2i(p["dst"]),
                                                           zl(Opt(p.get("sport"))), zl(Opt(p.get("dport"))))))
    return "(%d, 25, %s)" % (1 if case["implicit"] == "PERMIT" else 2, zl(ops))


def exhaustive_cases():
    """bounded-exhaustive: every single rule over a 3-valued field domain x every packet over the same values."""
    pk = []
    for pr in ("tcp", "udp", "icmp"):
        for s in (IPS[0], IPS[1]):
            for d in (IPS[3], IPS[4]):
                if pr == "icmp":
                    pk.append({"protocol": pr, "src": s, "dst": d})
                else:
                    for sp in (0, 80):
                        for dp in (80, 22):
                            pk.append({"protocol": pr, "src": s, "dst": d, "sport": sp, "dport": dp})
    cases = []
    for act in ("PERMIT", "DENY"):
        for pr in (None, "tcp", "udp"):
            for (s, sw) in ((None, None), (IPS[0], None), (IPS[0], WCS[0]), (None, WCS[0])):
                for (d, dw) in ((None, None), (IPS[3], None), (IPS[3], WCS[1])):
                    for sp in (None, 0, 80):
                        for dp in (None, 80):
                            r = {"action": act, "protocol": pr, "src_ip": s, "src_wc": sw, "dst_ip": d, "dst_wc": dw,
                                 "src_port": sp, "dst_port": dp}
                            shadow = {"action": "PERMIT" if act == "DENY" else "DENY", "protocol": None, "src_ip": None,
                                      "src_wc": None, "dst_ip": None, "dst_wc": None, "src_port": None, "dst_port": None}
                            cases.append({"entry": "api", "implicit": "DENY" if act == "PERMIT" else "PERMIT",
                                          "ops": [("add", 2, r), ("add", 7, shadow)] + [("check", p) for p in pk]})
    return cases


def run_cases(ck, cases, label):
    coq_in, bad_spec = [], 0
    for c in cases:
        try:
            got = impl_run(c)
        except Exception as e:  # the implementation raised: the documented API never does on these inputs
            ck.violation("acl-raises:%s:%s" % (c["entry"], type(e).__name__),
                         "ACL operation raised %r through the %s entry point" % (e, c["entry"]), {"case": c})
            continue
        want = spec_run(c, {})
        ck.case(canon=json.dumps(c, sort_keys=True), nontrivial=any(o[0] == "check" for o in c["ops"]),
                sample={"entry": c["entry"], "implicit": c["implicit"], "ops": c["ops"][:4], "impl_out": got[:12]})
        ck.count("entry:" + c["entry"])
        for o in c["ops"]:
            ck.count("op:" + o[0])
        if got != want:
            bad_spec += 1
            k = next(i for i in range(min(len(got), len(want))) if got[i] != want[i]) if len(got) == len(want) else -1
            ck.violation("acl-verdict:%s" % c["entry"],
                         "implementation verdict/counters differ from first-match-by-position at output %d" % k,
                         {"case": c, "expected": want, "observed": got})
        coq_in.append((coq_case(c), got))
    ck.traces += len(coq_in)
    try:
        mism = coq_cases(ck, "From PV Require Import Model.Acl.", "run_case", coq_in, name="c07_" + label)
    except RuntimeError as e:
        ck.broken("correspondence Model.Acl.run_case (%s)" % label, str(e))
        return
    ck.obligation("correspondence impl = Model.Acl on %d %s cases" % (len(coq_in), label), "correspondence", not mism,
                  "" if not mism else "first mismatch: case %d model=%s" % (mism[0][0], mism[0][1][:40]))
    if mism and not bad_spec:
        ck.notes.append("model/impl disagree on %d cases although the spec oracle agrees with the impl" % len(mism))


def run(ck):
    ck.rule = ("ACL op sequences (add/remove/check) over a covering domain of protocols, addresses, wildcard masks (incl. "
               "non-contiguous) and ports (incl. 0), through the Python API, the agent-action request path and scenario "
               "loading; non-trivial = contains at least one packet check; distinct by canonical JSON")
    coq_props(ck)
    gen_tie.check(ck, ["acl", "aclrule", "acllist"])
    rng = ck.rng
    cases = []
    corpus = os.path.join(os.path.dirname(__file__), "..", "..", "corpus", "C07.json")
    if os.path.exists(corpus):
        cases += json.load(open(corpus))
    n = ck.n(240, 2400)
    for i in range(n):
        cases.append(gen_case(rng, ("api", "request", "config", "fwconfig")[i % 4], rng.randint(4, 14)))
        if cases[-1]["entry"] == "fwconfig":
            cases[-1]["fwlist"] = rng.randrange(6)
    run_cases(ck, cases, "random")
    if not ck.quick or ck.violations or any(not o["ok"] for o in ck.obligations):
        run_cases(ck, exhaustive_cases(), "exhaustive")
        ck.extra["exhaustive"] = True


def replay(ck, path):
    d = json.load(open(path))
    c = d["replay"]["case"]
    c["ops"] = [tuple(o) for o in c["ops"]]
    run_cases(ck, [c], "replay")
