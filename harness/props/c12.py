"""C12 -- power states gate everything a node does, with the configured timing."""
import copy, json
from lib.common import coq_props, coq_cases, zl, Raw
from lib import world, family, gen_tie

ST = {"ON": 1, "OFF": 2, "BOOTING": 3, "SHUTTING_DOWN": 4}


class Bench:
    """a generated network (no agents) with one node under test whose durations are set; ops go through the request API."""

    def __init__(self, ck, seed, kind, up, down):
        cfg, rng, fam, hosts = family.base(seed)
        cfg["agents"] = []
        nodes = cfg["simulation"]["network"]["nodes"]
        for n in nodes:
            n.pop("operating_state", None)
        cands = [n for n in nodes if n["type"] == kind]
        if not cands:
            raise LookupError(kind)
        self.target = ck.rng.choice(cands)
        self.target["start_up_duration"], self.target["shut_down_duration"] = up, down
        self.name = self.target["hostname"]
        self.cfg = cfg
        self.game = world.make_game(cfg)
        self.game.setup_for_episode(0)
        self.sim = self.game.simulation
        self.nodes = {n.config.hostname: n for n in self.sim.network.nodes.values()}
        self.node = self.nodes[self.name]
        self.peers = [n for n in self.nodes.values() if n is not self.node and type(n).__name__.lower() in world.HOSTS]
        self.up, self.down = up, down
        self.svc_names = [s.name for s in self.node.services.values()]
        self.app_names = [a.name for a in self.node.applications.values()]
        self.ports = sorted(self.node.network_interface.keys())
        self.traffic_violations = []
        self._wrap_nics()

    def _wrap_nics(self):
        node, bench = self.node, self
        for nic in node.network_interface.values():
            for meth in ("receive_frame", "send_frame"):
                orig = getattr(nic, meth)

                def w(frame, _orig=orig, _m=meth, _nic=nic):
                    st = node.operating_state.name
                    r = _orig(frame)
                    if r and st != "ON":
                        bench.traffic_violations.append("%s returned True on %s while the node was %s" % (_m, _nic, st))
                    return r
                object.__setattr__(nic, meth, w)

    def observe(self):
        n = self.node
        return ([n.operating_state.value] + [1 if n.network_interface[p].enabled else 0 for p in self.ports]
                + [s.operating_state.value for s in n.services.values()] + [a.operating_state.value for a in n.applications.values()])

    def init_term(self):
        n = self.node
        nl = [(Raw("true") if n.network_interface[p]._connected_link is not None else Raw("false"),
               Raw("true") if n.network_interface[p].enabled else Raw("false")) for p in self.ports]
        return nl, [s.operating_state.value for s in n.services.values()], [a.operating_state.value for a in n.applications.values()]

    def req(self, tail):
        return self.sim.apply_request(["network", "node", self.name] + tail)

    def apply(self, op):
        k = op[0]
        if k == "Shutdown":
            return self.req(["shutdown"])
        if k == "Startup":
            return self.req(["startup"])
        if k == "Reset":
            return self.req(["reset"])
        if k == "Tick":
            self.game.pre_timestep()
            self.game.advance_timestep()
            return None
        if k == "NicEnable":
            return self.req(["network_interface", self.ports[op[1]], "enable"])
        if k == "NicDisable":
            return self.req(["network_interface", self.ports[op[1]], "disable"])
        if k == "SvcStop":
            return self.req(["service", self.svc_names[op[1]], "stop"])
        if k == "SvcStart":
            return self.req(["service", self.svc_names[op[1]], "start"])
        if k == "AppClose":
            return self.req(["application", self.app_names[op[1]], "close"])
        if k == "FrameIn":
            if self.peers:
                ips = [str(nic.ip_address) for nic in self.node.network_interface.values() if getattr(nic, "ip_address", None) is not None]
                tgt = ips[0] if ips else "10.255.255.1"
                self.peers[0].ping(tgt)
            return None
        raise ValueError(k)


def gen_ops(rng, b, n):
    ops = []
    for _ in range(n):
        x = rng.random()
        if x < 0.30:
            ops.append(("Tick",))
        elif x < 0.42:
            ops.append(("Shutdown",))
        elif x < 0.54:
            ops.append(("Startup",))
        elif x < 0.64:
            ops.append(("Reset",))
        elif x < 0.72:
            ops.append(("FrameIn",))
        elif x < 0.80 and b.ports:
            ops.append((rng.choice(["NicEnable", "NicDisable"]), rng.randrange(len(b.ports))))
        elif x < 0.90 and b.svc_names:
            ops.append((rng.choice(["SvcStop", "SvcStart"]), rng.randrange(len(b.svc_names))))
        elif b.app_names:
            ops.append(("AppClose", rng.randrange(len(b.app_names))))
        else:
            ops.append(("Tick",))
    return ops


def coq_op(op):
    return Raw(op[0] if len(op) == 1 else "%s %d" % (op[0], op[1]))


ALLOWED = {  # (from, to) pairs a single request or tick may produce, as a function of the durations and the reset flag
}


def allowed(a, b, up, down, was_reset_req):
    if a == b:
        return True
    if a == "ON":
        return (b == "SHUTTING_DOWN" and down > 0) or (b == "OFF" and down <= 0 and not was_reset_req) or \
               (was_reset_req and down <= 0 and b == ("BOOTING" if up > 0 else "ON"))
    if a == "SHUTTING_DOWN":
        return b == "OFF" or b == ("BOOTING" if up > 0 else "ON")     # the latter only when resetting (checked by the timeline test)
    if a == "OFF":
        return b == ("BOOTING" if up > 0 else "ON")
    if a == "BOOTING":
        return b == "ON"
    return False


def run_case(ck, seed, kind, up, down, nops, coq_in, label):
    rng = ck.rng
    try:
        b = Bench(ck, seed, kind, up, down)
    except LookupError:
        return
    nl, sv, ap = b.init_term()
    ops = gen_ops(rng, b, nops)
    out, model_ops = [], []
    ctx = {"family_seed": seed, "node": b.name, "kind": kind, "start_up_duration": up, "shut_down_duration": down, "ops": ops}
    resetting = False
    for i, op in enumerate(ops):
        before = b.node.operating_state.name
        before_obs = b.observe()
        try:
            resp = b.apply(op)
        except Exception as e:
            ck.violation("power-op-raises:%s" % type(e).__name__, "op %s raised %r" % (op, e), dict(ctx, at=i))
            return
        after = b.node.operating_state.name
        obs = b.observe()
        # ---- the property, checked directly on the implementation ----
        # only a reset restarts the node on its own: one shutdown followed by ONE automatic start
        if op[0] == "Reset" and before == "ON":
            resetting = True
        started_itself = (before in ("OFF", "SHUTTING_DOWN") and after in ("BOOTING", "ON") and op[0] != "Startup") or \
                         (op[0] == "Shutdown" and before == "ON" and after in ("ON", "BOOTING"))
        if started_itself and not resetting:
            ck.violation("node-restarted-by-itself", "%s went %s -> %s on %s although no reset is in progress (durations up=%d down=%d): only a reset "
                         "is followed by an automatic start" % (b.name, before, after, op, up, down), dict(ctx, at=i))
        if after in ("BOOTING", "ON") and before != after:
            resetting = False
        if not allowed(before, after, up, down, op[0] == "Reset"):
            ck.violation("power-transition:%s->%s" % (before, after), "%s moved %s -> %s on %s (durations up=%d down=%d)" % (b.name, before, after, op, up, down), dict(ctx, at=i))
        if after != "ON" and any(obs[1:1 + len(b.ports)]):
            ck.violation("nic-enabled-while-%s" % after, "%s is %s but an interface is enabled after %s" % (b.name, after, op), dict(ctx, at=i))
        if after == "OFF":
            ns = len(b.svc_names)
            svcs, apps = obs[1 + len(b.ports):1 + len(b.ports) + ns], obs[1 + len(b.ports) + ns:]
            if any(s in (1, 3) for s in svcs) or any(a == 1 for a in apps):
                ck.violation("software-running-while-OFF", "%s is OFF but a service is running/paused or an application is open: %s %s" % (b.name, svcs, apps), dict(ctx, at=i))
        if before != "ON" and op[0] not in ("Tick", "FrameIn", "Startup") and resp is not None:
            if resp.status == "success" or obs != before_obs:
                ck.violation("request-accepted-while-%s" % before, "%s answered %s (state changed: %s) to %s while %s" % (b.name, resp.status, obs != before_obs, op, before), dict(ctx, at=i))
        if op[0] == "Startup" and before != "OFF" and resp is not None and (resp.status == "success" or obs != before_obs):
            ck.violation("startup-accepted-while-%s" % before, "start-up accepted while %s" % before, dict(ctx, at=i))
        if b.traffic_violations:
            ck.violation("traffic-while-not-ON", b.traffic_violations[0], dict(ctx, at=i))
            b.traffic_violations.clear()
        if op[0] != "FrameIn":
            out += obs
            model_ops.append(coq_op(op))
    ck.case(canon=(kind, up, down, json.dumps(ops)), nontrivial=any(o[0] in ("Shutdown", "Reset") for o in ops),
            sample={"node_type": kind, "up": up, "down": down, "ops": ops[:8], "obs_tail": out[-6:]})
    ck.count("kind:" + kind)
    ck.count("durations:%d/%d" % (up, down))
    coq_in.append(("(%d, %d, %s, %s, %s, %s)" % (up, down, zl(nl), zl(sv), zl(ap), zl(model_ops)), out))


def timeline(ck, seed, kind, up, down):
    """dwell times: a transitional state lasts the configured duration; reset = shutdown then automatic start."""
    for first in ("Shutdown", "Reset", "ShutdownThenStartup"):
        try:
            b = Bench(ck, seed, kind, up, down)
        except LookupError:
            return
        ctx = {"family_seed": seed, "node": b.name, "kind": kind, "start_up_duration": up, "shut_down_duration": down, "scenario": first}
        got, want = [], []
        if first == "ShutdownThenStartup":
            b.apply(("Shutdown",))
            for _ in range(down + 1):
                b.apply(("Tick",))
            if b.node.operating_state.name != "OFF":
                ck.violation("dwell:shutdown", "%s not OFF %d ticks after shutdown (duration %d): %s" % (b.name, down + 1, down, b.node.operating_state.name), ctx)
                continue
            b.apply(("Startup",))
            got.append(b.node.operating_state.name)
            want.append("ON" if up <= 0 else "BOOTING")
            for k in range(1, up + 3):
                b.apply(("Tick",))
                got.append(b.node.operating_state.name)
                want.append("BOOTING" if (up > 0 and k <= up) else "ON")
        else:
            b.apply((first,))
            got.append(b.node.operating_state.name)
            if first == "Shutdown":
                want.append("OFF" if down <= 0 else "SHUTTING_DOWN")
                for k in range(1, down + 3):
                    b.apply(("Tick",))
                    got.append(b.node.operating_state.name)
                    want.append("SHUTTING_DOWN" if (down > 0 and k <= down) else "OFF")
            else:
                if down <= 0:
                    want.append("ON" if up <= 0 else "BOOTING")
                    for k in range(1, up + 3):
                        b.apply(("Tick",))
                        got.append(b.node.operating_state.name)
                        want.append("BOOTING" if (up > 0 and k <= up) else "ON")
                else:
                    want.append("SHUTTING_DOWN")
                    for k in range(1, down + up + 5):
                        b.apply(("Tick",))
                        got.append(b.node.operating_state.name)
                        if k <= down:
                            want.append("SHUTTING_DOWN")
                        elif up <= 0:
                            want.append("ON")
                        elif k <= down + 1 + up:
                            want.append("BOOTING")
                        else:
                            want.append("ON")
        ck.case(canon=("timeline", kind, up, down, first), nontrivial=True)
        if got != want:
            ck.violation("dwell:%s" % first, "%s (%s, up=%d, down=%d) after %s: observed %s, configured timing gives %s" % (b.name, kind, up, down, first, got, want),
                         dict(ctx, observed=got, expected=want))
        if first != "Shutdown" and b.node.operating_state.name == "ON":
            # back ON: linked interfaces, stopped services and closed applications come back up
            obs = b.observe()
            linked = [1 if b.node.network_interface[p]._connected_link is not None else 0 for p in b.ports]
            if obs[1:1 + len(b.ports)] != linked:
                ck.violation("on-restores-nics", "%s back ON but interfaces %s != linked %s" % (b.name, obs[1:1 + len(b.ports)], linked), ctx)
            ns = len(b.svc_names)
            if any(s == 2 for s in obs[1 + len(b.ports):1 + len(b.ports) + ns]) or any(a == 2 for a in obs[1 + len(b.ports) + ns:]):
                ck.violation("on-restores-software", "%s back ON but a service is still stopped / an application closed: %s" % (b.name, obs[1 + len(b.ports):]), ctx)


KINDS = ["computer", "server", "switch", "router", "firewall"]


def run(ck):
    ck.rule = ("request/tick/frame sequences on one node of a generated network (computer, server, switch, router, firewall) for start-up/"
               "shut-down durations in {0,1,2,3}: shutdown, startup, reset, ticks, NIC/service/application requests, pings from a peer; after "
               "every op the full observable state (power state, interface flags, service and application states) is compared with the model "
               "and the property is checked directly (transition table, interfaces disabled, no software running when OFF, requests refused, no "
               "frame accepted or sent while not ON); plus exact dwell-time timelines for shutdown, startup and reset per duration pair")
    coq_props(ck)
    gen_tie.check(ck, ["power", "nodepower"])
    coq_in = []
    durs = [(u, d) for u in (0, 1, 3) for d in (0, 1, 3)] if ck.quick else [(u, d) for u in range(4) for d in range(4)]
    for ki, kind in enumerate(KINDS):
        for (u, d) in durs:
            seed = ck.seed + {"computer": 0, "server": 1, "switch": 0, "router": 1, "firewall": 2}[kind]
            timeline(ck, seed, kind, u, d)
            for r in range(ck.n(1, 4)):
                run_case(ck, seed + 3 * r, kind, u, d, ck.rng.randint(8, 22), coq_in, "%s_%d_%d" % (kind, u, d))
    ck.traces += len(coq_in)
    try:
        mism = coq_cases(ck, "From PV Require Import Model.Power.", "run_case", coq_in, name="c12", chunk=100)
    except RuntimeError as e:
        ck.broken("correspondence Model.Power.run_case", str(e))
        return
    ck.obligation("correspondence Node power machine = Model.Power on %d op sequences" % len(coq_in), "correspondence", not mism,
                  "" if not mism else "first mismatch: case %d model=%s impl=%s input=%s" % (mism[0][0], mism[0][1][-40:], coq_in[mism[0][0]][1][-40:], coq_in[mism[0][0]][0][:300]))


def replay(ck, path):
    run(ck)
