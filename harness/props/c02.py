"""C02 -- every observation is a member of the declared observation space."""
import itertools, json
from lib.common import coq_props, coq_cases, zl
from lib import world, family, gen_tie, obswalk


def leaf_cases(ck, coq_in):
    """component level: every enum value and every count from zero past the top threshold, vs the real encoders."""
    from gymnasium import spaces
    from primaite.game.agent.observations.nic_observations import NICObservation
    from primaite.game.agent.observations.software_observation import ApplicationObservation, ServiceObservation
    from primaite.game.agent.observations.file_system_observations import FileObservation
    from primaite.game.agent.observations.link_observation import LinkObservation
    from primaite.game.agent.observations.host_observations import HostObservation
    for (lo, me, hi) in ((0, 5, 10), (1, 2, 3), (0, 1, 2), (3, 6, 9)):
        th = {"nmne": {"low": lo, "medium": me, "high": hi}, "app_executions": {"low": lo, "medium": me, "high": hi},
              "file_access": {"low": lo, "medium": me, "high": hi}}
        nic = NICObservation(where=["network", "nodes", "h", "NICs", 1], include_nmne=True, thresholds=th)
        app = ApplicationObservation(where=["network", "nodes", "h", "applications", "a"], applications_requires_scan=False, thresholds=th)
        fil = FileObservation(where=["network", "nodes", "h", "file_system", "folders", "d", "files", "f"], include_num_access=True,
                              file_system_requires_scan=False, thresholds=th)
        for c in range(-2, hi + 4):
            for nme, fn in (("nmne", nic._categorise_mne_count), ("app_executions", app._categorise_num_executions), ("file_access", fil._categorise_num_access)):
                v = fn(c)
                ck.case(canon=("cat", nme, lo, me, hi, c), nontrivial=c > lo)
                want = 3 if c > hi else 2 if c > me else 1 if c > lo else 0
                if ck.pid == "C09" and v != want:
                    ck.violation("bin-edge-wrong:%s" % nme, "%s count %d with thresholds low=%d medium=%d high=%d encodes as %r, the documented bins give %d" % (nme, c, lo, me, hi, v, want),
                                 {"kind": nme, "count": c, "thresholds": [lo, me, hi], "observed": v, "expected": want})
                if not spaces.Discrete(4).contains(v):
                    ck.violation("leaf-outside-space:%s" % nme, "%s count %d with thresholds %s encodes as %r, not in Discrete(4)" % (nme, c, (lo, me, hi), v), {"kind": nme, "count": c})
                coq_in.append(("(1, %s)" % zl([lo, me, hi, c]), [v]))
    nic = NICObservation(where=["network", "nodes", "h", "NICs", 1], include_nmne=False, monitored_traffic={"tcp": [80]})
    for speed in (1, 10, 100, 1000):
        for t in [0, 1 / 1024, speed / 64, speed / 16, speed / 8, speed / 4, speed / 2, speed * 7 / 8, speed, speed * 1.5, speed * 4, speed * 1000]:
            v = nic._categorise_traffic(traffic_value=t, nic_state={"speed": speed})
            ck.case(canon=("traffic", speed, t), nontrivial=t > 0)
            if not spaces.Discrete(11).contains(v):
                ck.violation("leaf-outside-space:traffic", "traffic %r on a %r Mbit interface encodes as %r, not in Discrete(11)" % (t, speed, v), {"traffic": t, "speed": speed})
            coq_in.append(("(2, %s)" % zl([int(t * 1024), int(speed * 1024)]), [v]))
    lk = LinkObservation(where=["network", "links", "a<->b"])
    for bw in (1, 100):
        for load in [0, bw / 1024, bw / 8, bw / 4, bw / 2, bw * 7 / 8, bw, bw * 2, bw * 50]:
            o = lk.observe({"network": {"links": {"a<->b": {"bandwidth": bw, "current_load": load}}}})
            v = o["PROTOCOLS"]["ALL"]
            ck.case(canon=("link", bw, load), nontrivial=load > 0)
            if not lk.space.contains(o):
                ck.violation("leaf-outside-space:link", "load %r on bandwidth %r encodes as %r" % (load, bw, v), {"load": load, "bandwidth": bw})
            coq_in.append(("(3, %s)" % zl([int(load * 1024), int(bw * 1024)]), [v]))
    # services / applications / files / hosts: every enum value, absent and off
    svc = ServiceObservation(where=["network", "nodes", "h", "services", "s"], services_requires_scan=True)
    for op, ha, hv in itertools.product(range(1, 7), range(0, 5), range(0, 5)):
        st = {"network": {"nodes": {"h": {"services": {"s": {"operating_state": op, "health_state_actual": ha, "health_state_visible": hv}}}}}}
        o = svc.observe(st)
        ck.case(canon=("svc", op, ha, hv), nontrivial=True)
        if not svc.space.contains(o):
            ck.violation("component-outside-space:service", "service state (%d,%d,%d) encodes as %s" % (op, ha, hv, o), {"state": [op, ha, hv]})
    if not svc.space.contains(svc.observe({"network": {"nodes": {}}})):
        ck.violation("default-outside-space:service", "absent service default not in space", {})
    # every value of every simulator enumeration, for the other component kinds too
    from primaite.game.agent.observations.file_system_observations import FolderObservation
    from primaite.simulator.system.applications.application import ApplicationOperatingState
    from primaite.simulator.system.software import SoftwareHealthState
    from primaite.simulator.file_system.file_system_item_abc import FileSystemItemHealthStatus
    th = {"nmne": {"low": 0, "medium": 5, "high": 10}, "app_executions": {"low": 0, "medium": 5, "high": 10}, "file_access": {"low": 0, "medium": 5, "high": 10}}
    for rs in (True, False):
        app = ApplicationObservation(where=["network", "nodes", "h", "applications", "a"], applications_requires_scan=rs, thresholds=th)
        for op, ha, hv, ex in itertools.product([e.value for e in ApplicationOperatingState], [e.value for e in SoftwareHealthState], [e.value for e in SoftwareHealthState], (0, 1, 7, 30)):
            st = {"network": {"nodes": {"h": {"applications": {"a": {"operating_state": op, "health_state_actual": ha, "health_state_visible": hv, "num_executions": ex}}}}}}
            o = app.observe(st)
            ck.case(canon=("app", rs, op, ha, hv, ex), nontrivial=True)
            if not app.space.contains(o):
                ck.violation("component-outside-space:application", "application state (operating %d, health %d/%d, %d executions) encodes as %s, not in %s" % (op, ha, hv, ex, o, app.space),
                             {"state": [op, ha, hv, ex], "requires_scan": rs})
        if not app.space.contains(app.observe({"network": {"nodes": {}}})):
            ck.violation("default-outside-space:application", "absent application default not in space", {})
        fil = FileObservation(where=["network", "nodes", "h", "file_system", "folders", "d", "files", "f"], include_num_access=True, file_system_requires_scan=rs, thresholds=th)
        fol = FolderObservation(where=["network", "nodes", "h", "file_system", "folders", "d"], files=[], num_files=1, include_num_access=True, file_system_requires_scan=rs, thresholds=th)
        for hs, vs, acc, scanned in itertools.product([e.value for e in FileSystemItemHealthStatus], [e.value for e in FileSystemItemHealthStatus], (0, 1, 7, 30), (False, True)):
            fst = {"health_status": hs, "visible_status": vs, "num_access": acc}
            st = {"network": {"nodes": {"h": {"file_system": {"folders": {"d": {"health_status": hs, "visible_status": vs, "scanned_this_step": scanned, "files": {"f": fst}}}}}}}}
            for nm2, ob in (("file", fil), ("folder", fol)):
                o = ob.observe(st)
                ck.case(canon=(nm2, rs, hs, vs, acc, scanned), nontrivial=True)
                if not ob.space.contains(o):
                    ck.violation("component-outside-space:%s" % nm2, "%s state (health %d, visible %d, %d accesses) encodes as %s, not in %s" % (nm2, hs, vs, acc, o, ob.space), {"state": [hs, vs, acc]})
    nicm = NICObservation(where=["network", "nodes", "h", "NICs", 1], include_nmne=True, monitored_traffic={"tcp": [80], "icmp": ["NONE"]}, thresholds=th)
    for enabled, t80, ticmp, nm_in in itertools.product((True, False), (0, 0.5, 100, 250), (0, 3, 100, 1000), (0, 1, 7, 30)):
        st = {"network": {"nodes": {"h": {"NICs": {1: {"enabled": enabled, "speed": 100, "traffic": {"tcp": {80: {"inbound": t80, "outbound": t80 / 2}}, "icmp": {"inbound": ticmp, "outbound": 0}},
                                                         "nmne": {"direction": {"inbound": {"keywords": {"*": nm_in}}}}}}}}}}
        o = nicm.observe(st)
        ck.case(canon=("nic", enabled, t80, ticmp, nm_in), nontrivial=True)
        if not nicm.space.contains(o):
            ck.violation("component-outside-space:interface", "interface state (enabled %s, tcp/80 %s, icmp %s, %d events) encodes as %s, not in its space" % (enabled, t80, ticmp, nm_in, o),
                         {"state": [enabled, t80, ticmp, nm_in], "where": obswalk.first_outside(nicm.space, o)})
    for n_svc, n_app, n_fold, n_file, n_nic in ((0, 0, 0, 0, 0), (2, 1, 1, 2, 1), (3, 0, 2, 1, 2)):
        for acc, usr, nm in itertools.product((False, True), (False, True), (False, True)):
            h = HostObservation(where=["network", "nodes", "h"], services=[], applications=[], folders=[], network_interfaces=[], num_services=n_svc,
                                num_applications=n_app, num_folders=n_fold, num_files=n_file, num_nics=n_nic, include_nmne=nm, monitored_traffic=None, include_num_access=acc,
                                file_system_requires_scan=True, services_requires_scan=True, applications_requires_scan=True, include_users=usr)
            for power in (1, 2, 3, 4):
                for creations in (0, 3, 4, 9):
                    st = {"network": {"nodes": {"h": {"operating_state": power, "file_system": {"num_file_creations": creations, "num_file_deletions": creations},
                                                      "services": {"user-session-manager": {"current_local_user": None, "active_remote_sessions": ["a"] * creations}}}}}}
                    o = h.observe(st)
                    ck.case(canon=("host", n_svc, n_app, n_fold, n_file, n_nic, acc, usr, nm, power, creations), nontrivial=power != 1 or creations > 3)
                    if not h.space.contains(o):
                        ck.violation("component-outside-space:host", "host (power %d, %d creations, slots %s) observation %s not in its space: %s"
                                     % (power, creations, (n_svc, n_app, n_fold, n_file, n_nic), o, obswalk.first_outside(h.space, o)),
                                     {"power": power, "creations": creations, "slots": [n_svc, n_app, n_fold, n_file, n_nic]})
                    coq_in.append(("(4, %s)" % zl([creations]), [o["num_file_creations"]] if (acc and power == 1) else [min(creations, 3)]))
            if not h.space.contains(h.observe({"network": {"nodes": {}}})):
                ck.violation("default-outside-space:host", "absent host default not in space", {})


def router_variants(ck):
    """directed: a routed family with the router's observation given an explicit port list shorter / longer than its slot
    count, and the router (or firewall) not ON from the start -- the defaults of absent components must still fit the space"""
    import copy
    out, found = [], 0
    for k in range(40):
        cfg = family.generate(ck.seed + 1000 + k)
        routers = [n for n in cfg["simulation"]["network"]["nodes"] if n["type"] in ("router", "firewall")]
        if not routers:
            continue
        found += 1
        for ln in ((0, 5) if ck.quick else (0, 1, 2, 4, 5)):
            c = copy.deepcopy(cfg)
            for a in c["agents"]:
                comps = (a.get("observation_space") or {}).get("options", {}).get("components", [])
                for comp in comps:
                    for e in comp.get("options", {}).get("routers", []) or []:
                        e["ports"] = [{"port_id": i + 1} for i in range(ln)]
            for n in c["simulation"]["network"]["nodes"]:
                if n["type"] in ("router", "firewall"):
                    n["operating_state"] = "OFF"
            out.append(("family/%d + devices off, %d explicit router ports" % (ck.seed + 1000 + k, ln), c))
        if found >= (1 if ck.quick else 3):
            break
    return out


def session_sweep(ck, name, cfg):
    """component observations of hosts, routers and firewalls that include users, on the real state of the built scenario with
    0..9 remote sessions and a local user written into it: whatever the session manager holds, the observation fits its space"""
    import copy
    try:
        env = world.make_env(cfg)
    except Exception:
        return
    env.reset()
    state = env.game.get_sim_state()
    found = []

    def visit(o):
        if type(o).__name__ in ("HostObservation", "RouterObservation", "FirewallObservation") and getattr(o, "include_users", False):
            found.append(o)
        for v in list(getattr(o, "__dict__", {}).values()):
            if isinstance(v, dict):
                v = list(v.values())
            if isinstance(v, (list, tuple)):
                for x in v:
                    if type(x).__module__.startswith("primaite.game.agent.observations"):
                        visit(x)
            elif type(v).__module__.startswith("primaite.game.agent.observations"):
                visit(v)
    for ag in env.game.agents.values():
        visit(ag.observation_manager.obs)
    for o in found:
        where = getattr(o, "where", None)
        if not where:
            continue
        for k in (0, 1, 3, 4, 9):
            for local in (None, "admin"):
                st = copy.deepcopy(state)
                node = st
                try:
                    for key in where:
                        node = node[key]
                except (KeyError, TypeError):
                    break
                usm = node.setdefault("services", {}).setdefault("user-session-manager", {})
                usm["active_remote_sessions"] = ["s%d" % i for i in range(k)]
                usm["current_local_user"] = local
                ob = o.observe(st)
                ck.evaluations += 1
                ck.case(canon=(name, type(o).__name__, tuple(where), k, local), nontrivial=k > 3)
                if not o.space.contains(ob):
                    ck.violation("component-outside-space:%s:sessions" % type(o).__name__,
                                 "%s at %s with %d remote sessions and local user %r observes %s, outside its space at %s"
                                 % (type(o).__name__, where, k, local, ob.get("users"), obswalk.first_outside(o.space, ob)),
                                 {"scenario": name, "where": list(where), "remote_sessions": k, "local_user": local})
                    return
    env.close()


def scenarios(ck):
    out = [("family/%d" % (ck.seed + k), family.generate(ck.seed + k)) for k in range(ck.n(4, 14))]
    out += router_variants(ck)
    out.append(("pkg/data_manipulation.yaml", world.load_cfg(world.PKG + "/data_manipulation.yaml")))
    if not ck.quick:
        out.append(("pkg/uc7_config.yaml", world.load_cfg(world.PKG + "/uc7_config.yaml")))
        for nme in ("basic_firewall.yaml", "dmz_network.yaml", "firewall_actions_network.yaml", "basic_switched_network.yaml"):
            cfg = world.load_cfg(world.ASSETS + "/" + nme)
            if world.has_single_proxy(cfg):
                out.append(("asset/" + nme, cfg))
    return out


def run(ck):
    ck.rule = ("(a) component level: every simulator enum value x every count from below zero past the top threshold x absent / off for the leaf encoders and "
               "service / host observations, against the real observe()/space and the model's encoders; (b) scenario level: generated scenario families "
               "(random slot counts smaller and larger than the component lists, NMNE on/off, monitored traffic, file-access counts, users, scan-gated or "
               "true health, nested or flattened) and shipped scenarios, stepped with random actions over the whole action space plus bursts of file "
               "creations/deletions, repeated executions and accesses inside one tick; membership of the returned and of the nested observation after "
               "every reset and step; space equality across episodes; non-trivial = count above a threshold or component absent/off")
    coq_props(ck)
    gen_tie.check(ck, ["obs"])
    coq_in = []
    leaf_cases(ck, coq_in)
    ck.traces += len(coq_in)
    try:
        mism = coq_cases(ck, "From PV Require Import Model.Obs.", "run_case", coq_in, name="c02", chunk=400)
    except RuntimeError as e:
        ck.broken("correspondence Model.Obs.run_case", str(e))
        mism = None
    if mism is not None:
        ck.obligation("correspondence leaf encoders (_categorise_*, traffic band, link band, clamps) = Model.Obs on %d values" % len(coq_in), "correspondence",
                      not mism, "" if not mism else "first mismatch: case %d model=%s impl=%s input=%s" % (mism[0][0], mism[0][1], coq_in[mism[0][0]][1], coq_in[mism[0][0]][0]))
    for name, cfg in scenarios(ck):
        obswalk.walk(ck, name, cfg, steps=ck.n(25, 80), membership=True, truth=False, episodes=2)
    # users of hosts, routers and firewalls: scenarios that have each kind of device, with user observation switched on
    import copy
    need = {"router", "firewall"}
    for k in range(40):
        cfg = family.generate(ck.seed + 2000 + k)
        kinds = {n["type"] for n in cfg["simulation"]["network"]["nodes"]} & need
        if not kinds:
            continue
        need -= kinds
        c = copy.deepcopy(cfg)
        for a in c["agents"]:
            for comp in (a.get("observation_space") or {}).get("options", {}).get("components", []):
                if comp.get("type") == "nodes":
                    comp["options"]["include_users"] = True
        session_sweep(ck, "family/%d + users observed" % (ck.seed + 2000 + k), c)
        if not need:
            break


def replay(ck, path):
    run(ck)
