"""C01 -- stepping / resetting the environment is total and keeps the episode contract."""
import copy, json, math, random
from lib.common import coq_props, coq_cases, zl, Raw
from lib import world, family, gen_tie, obswalk


TIMED = ("node-folder-restore", "node-folder-scan", "node-file-restore", "node-service-fix", "node-service-restart", "node-application-fix",
         "node-os-scan", "node-shutdown", "node-startup", "node-reset", "node-application-install")


def db_story(game, rng):
    """a multi-tick history that needs three specific requests in order: delete the database file, fix the service, wait."""
    out = []
    for n in game.simulation.network.nodes.values():
        if "database-service" in n.software_manager.software and rng.random() < 0.25:
            h = n.config.hostname
            out.append(["network", "node", h, "file_system", "delete", "file", "database", "database.db"])
            out.append(["network", "node", h, "service", "database-service", "fix"])
    return out


def login_story(game):
    """every host logs in to every other host over SSH (default administrator account): sessions that then sit idle until they expire"""
    hosts = [n for n in game.simulation.network.nodes.values() if n.config.type in world.HOSTS and "terminal" in n.software_manager.software]
    out = []
    for a in hosts[:3]:
        for b in hosts[:3]:
            if a is not b and b.network_interface:
                out.append(["network", "node", a.config.hostname, "service", "terminal", "node_session_remote_login", "admin", "admin", str(b.network_interface[1].ip_address)])
    return out


def removal_story(game, rng):
    """every application of one host removed within one tick, one after the other (no installation in between)"""
    hosts = [n for n in game.simulation.network.nodes.values() if n.config.type in world.HOSTS and len(n.applications) >= 2]
    if not hosts:
        return []
    n = rng.choice(hosts)
    return [["network", "node", n.config.hostname, "software_manager", "application", "uninstall", a.name] for a in list(n.applications.values())]


def walk(ck, name, cfg, episodes, coq_in, long_idle=False):
    rng = ck.rng
    scheduled = isinstance(cfg, str)          # a folder with schedule.yaml: the environment cycles through its episodes
    if not scheduled:
        cfg = copy.deepcopy(cfg)
        mx = cfg["game"]["max_episode_length"] = rng.choice([5, 8, 13, 21]) if not long_idle else 36
        # scripted agents that start at once / early (the shipped ones start after most of these short episodes are over)
        if rng.random() < 0.5:
            for a in cfg.get("agents", []):
                st = a.get("agent_settings") or {}
                if "start_step" in st:
                    st["start_step"] = rng.choice([0, 0, 1, 2])
                    if isinstance(st.get("frequency"), int) and st["frequency"] > 1:
                        st["frequency"] = rng.choice([2, 3])
                        st["variance"] = rng.choice([0, 1])
                    if "start_variance" in st:
                        st["start_variance"] = rng.choice([0, 1])
    removal_actions = []
    if not scheduled and not long_idle:
        # the defender may remove every application of one host, one per step, with no installation in between
        hosts = [n for n in cfg["simulation"]["network"]["nodes"] if len(n.get("applications") or []) >= 2]
        learner = next((a for a in cfg["agents"] if a.get("type") in ("proxy-agent", "ProxyAgent")), None)
        if hosts and learner is not None:
            hn = rng.choice(hosts)
            amap = learner["action_space"]["action_map"]
            for ap in hn["applications"]:
                k = max(int(x) for x in amap) + 1
                amap[k] = {"action": "node-application-remove", "options": {"node_name": hn["hostname"], "application_name": ap["type"]}}
                removal_actions.append(k)
    ctx = {"scenario": name, "ops": []}
    try:
        if scheduled:
            from primaite.session.environment import PrimaiteGymEnv
            env = PrimaiteGymEnv(env_config=cfg)
            mx = env.game.options.max_episode_length
        else:
            env = world.make_env(cfg)
        ctx["max_episode_length"] = mx
    except Exception as e:
        ck.violation("environment-construction-raises:%s" % type(e).__name__, "%s: constructing the environment raised %r" % (name, e), ctx)
        return
    nag = len(env.game.agents)
    ops, out = [], []
    steps = 0
    episode = env.episode_counter
    ep0 = episode

    def observe(total_scaled):
        g = env.game
        hist = [len(a.history) for a in g.agents.values()]
        return [g.step_counter, 1 if last["trunc"] else 0, total_scaled, env.episode_counter - ep0] + hist
    last = {"trunc": False}
    scaled_sum = 0
    n_actions = env.action_space.n
    del obswalk.PENDING[:]
    repeat_next = None
    for ep in range(episodes):
        # how this episode ends: at the limit, abandoned mid-way, or stepped past the limit
        kind = rng.choice(["to-limit", "abandoned", "abandoned", "past-limit"]) if not scheduled else "abandoned"
        if long_idle:
            kind = "to-limit"
        length = mx if kind == "to-limit" else rng.randint(1, min(mx - 1, 4 if scheduled else mx)) if kind == "abandoned" else mx + rng.randint(1, 3)
        for t in range(length):
            game = env.game
            inv = world.inventory(game.simulation)
            reqs = obswalk.extra_requests(game, rng, inv) + (db_story(game, rng) if t == 1 else [])
            if long_idle:
                reqs = login_story(game) if t == 1 else []
            elif t == 2 and rng.random() < 0.35:
                reqs = reqs + removal_story(game, rng)
            orig = game.apply_agent_actions

            def patched(_o=orig, _reqs=reqs, _g=game):
                _o()
                for r in _reqs:
                    try:
                        _g.simulation.apply_request(r)
                    except Exception:
                        pass
            if reqs:
                game.apply_agent_actions = patched
            a = rng.randrange(n_actions) if not long_idle else 0
            if repeat_next is not None:
                a, repeat_next = repeat_next, None        # the same timed action again while the first is still in progress
            elif not long_idle:
                nm = env.agent.action_manager.action_map.get(a, ("", {}))[0]
                if nm in TIMED and rng.random() < 0.6:
                    repeat_next = a
            if removal_actions and ep % 2 == 1 and 1 <= t <= len(removal_actions):
                a = removal_actions[t - 1]
            ctx["ops"].append(a)
            try:
                res = env.step(a)
            except Exception as e:
                ck.violation("step-raises:%s" % type(e).__name__, "%s: env.step(%d) raised %r in episode %d at step %d (action %s)"
                             % (name, a, e, ep, steps, env.agent.action_manager.action_map.get(a)), dict(ctx, episode=ep))
                return
            finally:
                if reqs:
                    game.apply_agent_actions = orig
            steps += 1
            ck.evaluations += 1
            obs, rew, term, trunc, info = res
            last["trunc"] = bool(trunc)
            ok_rew = isinstance(rew, (int, float)) and not isinstance(rew, bool) and math.isfinite(float(rew))
            if not ok_rew:
                ck.violation("reward-not-a-finite-number", "%s: step returned reward %r" % (name, rew), dict(ctx, episode=ep))
                return
            if term is not False:
                ck.violation("terminated-not-false", "%s: step returned terminated=%r" % (name, term), dict(ctx, episode=ep))
            if bool(trunc) != (steps >= mx):
                ck.violation("truncated-flag-wrong:%s" % ("early" if trunc else "missing"),
                             "%s: after %d steps of episode %d (maximum %d) truncated=%r" % (name, steps, ep, mx, trunc), dict(ctx, episode=ep, steps=steps))
            if env.game.step_counter != steps:
                ck.violation("tick-counter-off", "%s: %d steps taken in the episode, game.step_counter = %d" % (name, steps, env.game.step_counter), dict(ctx, episode=ep))
            for ref, ag in env.game.agents.items():
                if len(ag.history) != steps:
                    ck.violation("history-length-off", "%s: agent %s has %d history items after %d steps" % (name, ref, len(ag.history), steps), dict(ctx, episode=ep, agent=ref))
                    break
            if set(info.get("agent_actions", {})) != set(env.game.agents):
                ck.violation("info-agent-actions-incomplete", "%s: info['agent_actions'] has %s, agents are %s" % (name, sorted(info.get("agent_actions", {})), sorted(env.game.agents)), dict(ctx, episode=ep))
            r6 = int(round(float(rew) * 10 ** 6))
            scaled_sum += r6
            tot = env.agent.reward_function.total_reward
            tot6 = scaled_sum if abs(tot * 10 ** 6 - scaled_sum) <= steps else int(round(tot * 10 ** 6))
            ops.append(Raw("Step %s" % zl(r6)))
            out += observe(tot6)
        try:
            env.reset(seed=rng.choice([None, 3, 3, 77]))
        except Exception as e:
            ck.violation("reset-raises:%s" % type(e).__name__, "%s: reset after episode %d raised %r" % (name, ep, e), dict(ctx, episode=ep))
            return
        ctx["ops"].append("reset")
        steps, scaled_sum = 0, 0
        last["trunc"] = False
        g = env.game
        if g.step_counter != 0 or any(len(a.history) for a in g.agents.values()) or env.agent.reward_function.total_reward != 0:
            ck.violation("reset-not-clean", "%s: after reset tick=%d, history lengths %s, total reward %r"
                         % (name, g.step_counter, [len(a.history) for a in g.agents.values()], env.agent.reward_function.total_reward), dict(ctx, episode=ep))
        if len(g.agents) != nag or g.options.max_episode_length != mx:
            # an episode-scheduled scenario may change the agent list / the maximum: close this model case, open a new one
            coq_in.append(("(%d, %d, %s)" % (mx, nag, zl(ops)), out))
            nag, mx = len(g.agents), g.options.max_episode_length
            ops, out, ep0 = [], [], env.episode_counter
            continue
        ops.append(Raw("Reset"))
        out += observe(0)
        ck.count("episode-end:%s" % kind)
    coq_in.append(("(%d, %d, %s)" % (mx, nag, zl(ops)), out))
    ck.case(canon=(name, json.dumps(ctx["ops"][:200])), nontrivial=True, sample={"scenario": name, "max": mx, "agents": nag, "ops": ctx["ops"][:30]} if len(ck.samples) < 3 else None)


def run(ck):
    ck.rule = ("generated scenario families (action map over every action type aimed at existing, missing and powered-off components; scripted red / green "
               "agents) and shipped scenarios, each with a small random episode maximum: several consecutive episodes ending at the limit, abandoned "
               "mid-way and stepped past the limit, uniformly random actions (mask ignored) plus in-tick bursts and multi-tick request histories (file "
               "create/delete/restore, corrupt/scan, database file deleted then service fixed); after every step: no exception, finite numeric reward, "
               "terminated False, truncated exactly from the maximum on, tick counter, one history item per agent, info covers every agent; after every "
               "reset: tick 0, empty histories, zero total; the whole trace is compared with Model.Episode")
    coq_props(ck)
    gen_tie.check(ck, ["episode", "schedule"])
    coq_in = []
    scen = [("family/%d" % (ck.seed + k), family.generate(ck.seed + k, force_off=(k % 3 == 2))) for k in range(ck.n(12, 40))]
    scen.append(("pkg/data_manipulation.yaml", world.load_cfg(world.PKG + "/data_manipulation.yaml")))
    if not ck.quick:
        scen.append(("pkg/uc7_config.yaml", world.load_cfg(world.PKG + "/uc7_config.yaml")))
        scen.append(("pkg/uc7_config_tap003.yaml", world.load_cfg(world.PKG + "/uc7_config_tap003.yaml")))
    for name, cfg in scen:
        for rep in range(4 if name.startswith("pkg/data") else 1):
            walk(ck, name, cfg, ck.n(6, 10), coq_in)
    # sessions opened early and left idle until the simulator expires them (episodes longer than the session time-out)
    for name, cfg in scen[:ck.n(2, 6)]:
        walk(ck, name + " + idle remote sessions", cfg, 2, coq_in, long_idle=True)
    # episode-scheduled scenarios: through the whole schedule and well past its end (it loops)
    import glob, os, yaml
    for root in sorted(glob.glob(world.PKG + "/*/")) + sorted(glob.glob(world.ASSETS + "/*/")):
        if not os.path.exists(os.path.join(root, "schedule.yaml")):
            continue
        if ck.quick and "uc7" in root:
            continue
        n_eps = len(yaml.safe_load(open(os.path.join(root, "schedule.yaml")))["schedule"])
        walk(ck, os.path.relpath(root, world.REPO), root, n_eps + 4, coq_in)
    ck.traces += len(coq_in)
    try:
        mism = coq_cases(ck, "From PV Require Import Model.Episode.", "Episode.run_case", coq_in, name="c01", chunk=20)
    except RuntimeError as e:
        ck.broken("correspondence Model.Episode.run_case", str(e))
        mism = None
    if mism is not None:
        ck.obligation("correspondence episode bookkeeping (tick, truncated, total, episode, history lengths) = Model.Episode on %d multi-episode traces" % len(coq_in),
                      "correspondence", not mism, "" if not mism else "first mismatch: case %d model=%s impl=%s" % (mism[0][0], mism[0][1][:80], coq_in[mism[0][0]][1][:80]))


def replay(ck, path):
    run(ck)
