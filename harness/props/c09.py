"""C09 -- observations faithfully encode the simulation's ground truth."""
from lib.common import coq_props
from lib import world, family, gen_tie, obswalk
import props.c02 as c02


def run(ck):
    ck.rule = ("every leaf of the nested observation of generated scenario families (all observation options) and shipped scenarios, after every step of "
               "random action sequences over the whole action space with in-tick bursts: compared with an independent extractor that reads the simulator "
               "OBJECTS (power state, interface status, operating state, visible-or-true health by the scenario's requires-scan flags, folder/file health, "
               "ACL slot i = rule at position i, link band, binned counts, login counts; absent components and components of a node that is not ON read "
               "as defaults); evaluations = steps checked")
    coq_props(ck)
    gen_tie.check(ck, ["obs", "nmneobs"])
    from lib.common import coq_cases
    coq_in = []
    c02.leaf_cases(ck, coq_in)
    ck.traces += len(coq_in)
    try:
        mism = coq_cases(ck, "From PV Require Import Model.Obs.", "run_case", coq_in, name="c09", chunk=400)
    except RuntimeError as e:
        ck.broken("correspondence Model.Obs.run_case", str(e))
        mism = None
    if mism is not None:
        ck.obligation("correspondence leaf encoders (threshold bins, traffic / link bands, clamps) = Model.Obs on %d values" % len(coq_in), "correspondence",
                      not mism, "" if not mism else "first mismatch: case %d model=%s impl=%s input=%s" % (mism[0][0], mism[0][1], coq_in[mism[0][0]][1], coq_in[mism[0][0]][0]))
    # an attacker that starts at once and often, so that keyword frames are captured within the walk (NMNE leaves non-zero)
    import copy
    early = copy.deepcopy(world.load_cfg(world.PKG + "/data_manipulation.yaml"))
    for a in early["agents"]:
        if a.get("type") == "red-database-corrupting-agent":
            a["agent_settings"].update({"start_step": 2, "frequency": 2, "variance": 0})
    obswalk.walk(ck, "pkg/data_manipulation.yaml (attacker from step 2, every 2 steps)", early, steps=ck.n(24, 60), membership=False, truth=True, episodes=2, idle=0.85)
    for k, (name, cfg) in enumerate(c02.scenarios(ck)):
        if name.startswith("family/") and k % 2 == 1:
            # the three requires-scan switches are independent: make them differ, and keep application slots
            cfg = copy.deepcopy(cfg)
            for a in cfg["agents"]:
                if a.get("type") == "proxy-agent":
                    o = a["observation_space"]["options"]["components"][0]["options"]
                    o["applications_requires_scan"] = not o.get("services_requires_scan", True)
                    o["file_system_requires_scan"] = o.get("services_requires_scan", True) if k % 4 == 1 else o.get("file_system_requires_scan", True)
                    o["num_applications"] = max(1, o.get("num_applications", 1))
            name += " (switches made to differ)"
        obswalk.walk(ck, name, cfg, steps=ck.n(30, 90), membership=False, truth=True, episodes=2)
    cases = list(obswalk.NmneMon.cases)
    del obswalk.NmneMon.cases[:]
    ck.traces += len(cases)
    try:
        mism = coq_cases(ck, "From PV Require Import Model.Obs Model.Nmne.", "Nmne.run_case", cases, name="c09n", chunk=200)
    except RuntimeError as e:
        ck.broken("correspondence Model.Nmne.run_case", str(e))
        mism = None
    if mism is not None:
        ck.obligation("correspondence NMNE leaves (capture events and observations per interface) = Model.Nmne on %d interface histories" % len(cases), "correspondence",
                      not mism, "" if not mism else "first mismatch: case %d model=%s impl=%s input=%s" % (mism[0][0], mism[0][1], cases[mism[0][0]][1], cases[mism[0][0]][0][:600]))
    ck.nontrivial.update({"truth-%d" % i for i in range(min(ck.dist.get("truth-checks", 0), 100000))})


def replay(ck, path):
    run(ck)
