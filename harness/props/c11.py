"""C11 -- the action mask agrees with what the simulator would refuse."""
import json
from lib.common import coq_props, coq_cases
from lib import world, reqwalk, gen_tie, family, docmask

POWER = ("node-shutdown", "node-startup", "node-reset", "node-service-stop", "node-service-restart", "node-service-pause",
         "node-service-disable", "node-application-close", "node-application-install", "node-application-remove",
         "host-nic-disable", "network-port-disable", "node-file-delete", "node-folder-restore", "node-service-start")


def explore(ck, name, cfg, steps, label):
    rng = ck.rng
    env = world.make_env(cfg)
    env.reset()
    ids = reqwalk.KeyIds()
    coq_in = []
    agent_name = env._agent_name
    focus, focus_left = None, 0
    story = None

    def widen(env):
        # the action map is arbitrary scenario data: use the whole registered action space over existing and
        # missing components (kept: the scenario's own entries first)
        agent = env.game.agents[agent_name]
        own = list(agent.action_manager.action_map.values())
        cat = world.catalogue(world.inventory(env.game.simulation), rng, missing=True)
        extra = [(t, o) for (t, o, _e) in cat if (t, o) not in own]
        rng.shuffle(extra)
        full = own + extra[:max(0, 700 - len(own))]
        items = list(enumerate(full))
        rng.shuffle(items)          # a mapping from action number to action: the order in which it is written is immaterial
        agent.action_manager.action_map = dict(items)
        if hasattr(agent.action_manager, "__dict__"):
            for attr in list(vars(agent.action_manager)):
                if attr.startswith("_") and "cache" in attr.lower():
                    try:
                        setattr(agent.action_manager, attr, None)
                    except Exception:
                        pass
    widen(env)
    inv_key = None
    for st in range(steps):
        game, sim = env.game, env.game.simulation
        k = json.dumps(world.inventory(sim), sort_keys=True)
        if inv_key is not None and k != inv_key:
            widen(env)          # software was installed / removed, files created: address the new components too
        inv_key = k
        agent = game.agents[agent_name]
        amap = agent.action_manager.action_map
        mask = game.action_mask(agent_name)
        envmask = env.action_masks()
        if list(mask) != list(envmask):
            ck.violation("env-mask-differs", "env.action_masks() differs from game.action_mask()", {"scenario": name, "step": st})
        entries = []
        for i, (t, o) in amap.items():
            req = agent.action_manager.form_request(action_identifier=t, action_options=o)
            leafbox = []
            try:
                tree, reaches, in_tree = reqwalk.dump_path(sim._request_manager, req, ids, leafbox)
            except Exception as e:
                ck.count("skipped:validator-raised")
                continue
            entries.append((i, t, o, req, reaches))
            ck.case(canon=(name, st, i, bool(mask[i])), nontrivial=not reaches or t in POWER,
                    sample={"scenario": name, "step": st, "entry": i, "action": t, "options": o, "mask": int(mask[i]), "reaches": reaches}
                    if (not reaches and len(ck.samples) < 4) else None)
            ck.count("mask=%d" % int(mask[i]))
            doc = docmask.available(sim, t, o)
            if doc is not None and bool(mask[i]) != doc:
                ck.violation("mask-vs-documented-table:%s" % t,
                             "mask[%d]=%d for %s %s but the documented masking rule evaluated on the simulator objects gives %s" % (i, int(mask[i]), t, o, doc),
                             {"scenario": name, "step": st, "entry": i, "action": t, "options": o, "request": req, "mask": int(mask[i]),
                              "documented": doc, "history": hist(env)})
            if bool(mask[i]) != reaches:
                ck.violation("mask-disagrees:%s" % t,
                             "mask[%d]=%d for %s %s but walking the request tree now says reaches-handler=%s" % (i, int(mask[i]), t, o, reaches),
                             {"scenario": name, "step": st, "entry": i, "action": t, "options": o, "request": req,
                              "mask": int(mask[i]), "reaches": reaches, "history": hist(env)})
        # execute one entry (biased to masked-out and to state-changing actions) and compare outcome with its mask bit
        if entries:
            off = [e for e in entries if not e[4]]
            pw = [e for e in entries if e[1] in POWER]
            pool = off if (off and rng.random() < 0.35) else pw if (pw and rng.random() < 0.6) else entries
            if focus_left > 0:
                # entity-focused burst: stay on one node (and component) so that multi-step sequences such as
                # remove -> install -> close, delete -> restore, shutdown -> startup are actually visited
                same = [e for e in entries if ent(e) == focus] or [e for e in entries if ent(e)[0] == focus[0]]
                pool = same or pool
                focus_left -= 1
            (i, t, o, req, reaches) = rng.choice(pool)
            # directed story, once per exploration: install an application at run time, then address it at once (INSTALLING
            # window) and after closing it -- the lifecycle window in which its own permission rules differ from its host's
            if story is None and st >= 2:
                inst = [e for e in entries if e[1] == "node-application-install" and mask[e[0]] and e[4]
                        and not any(x[1] == "node-application-close" and ent(x) == ent(e) and x[4] for x in entries)]
                if inst:
                    e0 = rng.choice(inst)
                    story = [("node-application-install", ent(e0))] + [(v, ent(e0)) for v in
                             ("node-application-scan", "node-application-close", "node-application-fix", "node-application-execute",
                              "node-application-close", "node-application-scan")]
            if story:
                want = story[0]
                cand = [e for e in entries if e[1] == want[0] and ent(e) == want[1]]
                story.pop(0)
                if cand:
                    (i, t, o, req, reaches) = cand[0]
                    ck.count("story:%s" % want[0])
            if focus_left == 0 and rng.random() < 0.5:
                focus, focus_left = ent((i, t, o, req, reaches)), rng.randint(3, 7)
            transitional = any(nd.operating_state.name not in ("ON", "OFF") for nd in sim.network.nodes.values())
            game.pre_timestep()
            # the mask was handed to the agent BEFORE pre_timestep, the action is applied AFTER it: while anything is in a
            # transitional state, check that the mask still tells the truth at the moment of application
            if transitional:
                for (j, tj, oj, reqj, _r) in entries:
                    if tj not in POWER and not tj.startswith(("node-service", "node-application", "host-nic", "node-file-create", "node-os-scan")):
                        continue
                    try:
                        _t, reaches_now, _in = reqwalk.dump_path(sim._request_manager, reqj, ids, [])
                    except Exception:
                        continue
                    ck.count("mask-rechecked-after-pre-timestep")
                    if bool(mask[j]) != reaches_now:
                        ck.violation("mask-stale-at-application:%s" % tj, "mask[%d]=%d for %s %s was computed before pre_timestep; when the action is applied the request tree says reaches-handler=%s"
                                     % (j, int(mask[j]), tj, oj, reaches_now), {"scenario": name, "step": st, "entry": j, "action": tj, "options": oj, "mask": int(mask[j]), "history": hist(env)})
                        break
            res = reqwalk.execute(sim, req, ids, compare_state=False)
            rep = {"scenario": name, "step": st, "entry": i, "action": t, "options": o, "request": req, "mask": int(mask[i]),
                   "result": {k: v for k, v in res.items() if k != "coq_in"}, "history": hist(env)}
            env._pv_hist = getattr(env, "_pv_hist", []) + [i]
            if t in ("node-application-install", "node-application-close", "node-service-restart", "node-service-stop", "node-service-pause") and res.get("status") == "success":
                # directed: stay on the component whose lifecycle state just changed (installing / closed / restarting window)
                focus, focus_left = ent((i, t, o, req, reaches)), 4
            if res.get("raised"):
                ck.violation("mask-exec-raises:%s" % t, "executing entry %d (%s) raised %s" % (i, t, res["raised"]), rep)
            else:
                if not mask[i] and (res["status"] == "success" or res["invoked"]):
                    ck.violation("masked-out-succeeds:%s" % t, "entry %d (%s %s) is masked out but executing it gave status=%s, handler invoked=%s"
                                 % (i, t, o, res["status"], res["invoked"]), rep)
                if mask[i] and res["invoked"] and (res["validator_refusals"] or res["status"] == "unreachable"):
                    ck.violation("allowed-but-refused-below-leaf:%s" % t, "entry %d (%s %s) is allowed by the mask but a permission rule below the "
                                 "registered handler refused it (status=%s, refused by %s)" % (i, t, o, res["status"], res["validator_refusals"]), rep)
                if mask[i] and not res["invoked"]:
                    ck.violation("allowed-but-refused:%s" % t, "entry %d (%s %s) is allowed by the mask but was turned away before its handler (status=%s, %s)"
                                 % (i, t, o, res["status"], res.get("data")), rep)
                if "coq_in" in res:
                    out = list(res["impl_out"])
                    out[3] = int(mask[i])          # the model's check_valid must equal the mask bit the env reported
                    coq_in.append((res["coq_in"], out))
            # let the other agents act and time advance (blue does nothing)
            agent.store_action(0)
            game.apply_agent_actions()
            game.advance_timestep()
            game.update_agents(game.get_sim_state())
        if game.calculate_truncated():
            env.reset()
            widen(env)
    ck.traces += len(coq_in)
    try:
        mism = coq_cases(ck, "From PV Require Import Model.ReqTree.", "run_case", coq_in, name="c11_" + label, chunk=150)
    except RuntimeError as e:
        ck.broken("correspondence Model.ReqTree.run_case (%s)" % label, str(e))
        return
    ck.obligation("correspondence mask bit / dispatch = Model.ReqTree on %d executed entries (%s)" % (len(coq_in), name), "correspondence",
                  not mism, "" if not mism else "first mismatch: case %d model=%s impl=%s" % (mism[0][0], mism[0][1], coq_in[mism[0][0]][1]))


def ent(e):
    o = e[2]
    node = o.get("node_name") or o.get("source_node") or o.get("target_nodename") or o.get("target_router") or o.get("target_firewall_nodename")
    comp = o.get("application_name") or o.get("service_name") or o.get("folder_name") or o.get("nic_num") or o.get("port_num")
    return (node, comp)


def hist(env):
    return list(getattr(env, "_pv_hist", []))


def scenarios(ck):
    out = [("pkg/data_manipulation.yaml", world.load_cfg(world.PKG + "/data_manipulation.yaml")),
           ("family/%d" % ck.seed, family.generate(ck.seed)), ("family/%d+off" % (ck.seed + 1), family.generate(ck.seed + 1, force_off=True))]
    if not ck.quick:
        out.append(("pkg/uc7_config.yaml", world.load_cfg(world.PKG + "/uc7_config.yaml")))
        for k in range(2, 8):
            out.append(("family/%d" % (ck.seed + k), family.generate(ck.seed + k)))
    return out


def run(ck):
    ck.rule = ("every entry of the action map at every step: mask bit vs an independent walk of the live request tree (target exists and every "
               "validator on the path holds); one entry per step is executed (biased to masked-out and state-changing entries, so nodes shut "
               "down/boot, services restart, applications install) and its outcome compared with its mask bit; non-trivial = entry that is "
               "refused or changes power/lifecycle state; distinct by (scenario, step, entry, bit)")
    coq_props(ck)
    gen_tie.check(ck, ["reqtree", "request"])
    for i, (name, cfg) in enumerate(scenarios(ck)):
        cfg = dict(cfg)
        for a in cfg.get("agents", []):
            if a.get("type") == "proxy-agent":
                a.setdefault("agent_settings", {})["action_masking"] = True
        explore(ck, name, cfg, steps=ck.n(40, 150), label=str(i))


def replay(ck, path):
    run(ck)
